import FmtModel.Props.C15g
/- C15 — kernel-evaluated instances -/
namespace C15
open Py Engine ConstHist
-- kernel-evaluated instances ------------------------------------------------------------------------------

def envMap : Map := [("%d".toList, "development".toList), ("%-d".toList, "dev".toList), ("%s".toList, "sit".toList), ("%P".toList, "a.b".toList)]
def envCls : Cls (List Str) := Const.mk envMap "EnvConst".toList none

def acceptsAndRenders (text fmt fmt2 want : String) : Bool :=
  (do let o ← Const.parse envCls text.toList (some fmt.toList) false
      Engine.format envCls o fmt2.toList) == .ok want.toList

def rejects (text fmt : String) (strict : Bool) : Bool :=
  match Const.parse envCls text.toList (some fmt.toList) strict with
  | .error .fmtValue => true
  | _ => false

/-- one text per directive: the frozen text is accepted and every directive renders the mapping's text; the text of
    another directive, a prefix, an extension, a different case, and (for a text with a regex metacharacter) the
    strings its unescaped pattern would match are rejected -/
theorem C15_instances :
    acceptsAndRenders "development" "%d" "%-d" "dev" = true ∧ acceptsAndRenders "dev" "%-d" "%d" "development" = true
  ∧ acceptsAndRenders "sit" "%s" "%s/%d" "sit/development" = true ∧ acceptsAndRenders "a.b" "%P" "%P" "a.b" = true
  ∧ acceptsAndRenders "dev_sit" "%-d_%s" "%s-%-d" "sit-dev" = true
  ∧ (∀ strict ∈ [false, true], rejects "dev" "%d" strict = true ∧ rejects "development" "%-d" strict = true
      ∧ rejects "developmentx" "%d" strict = true ∧ rejects "Development" "%d" strict = true ∧ rejects "sit\n" "%s" strict = true
      ∧ rejects "aXb" "%P" strict = true ∧ rejects "" "%s" strict = true) := by decide +kernel

def histA : List Op :=
  [ .newMap [("%n".toList, "abc".toList), ("%d".toList, "dev".toList)],
    .create 0 "ProbeConst".toList none,
    .parse 0 "abc".toList "%n".toList false,
    .set 0 "%n".toList "xyz".toList,            -- the source mapping changes
    .del 0 "%d".toList,
    .handValues 0, .handRegex 0,
    .set 2 "%n".toList "q".toList,              -- the handed-out dictionaries change
    .set 3 "%n".toList "(?P<november>q)".toList,
    .parse 0 "abc".toList "%n".toList true,
    .parse 0 "xyz".toList "%n".toList false,
    .parse 0 "q".toList "%n".toList false,
    .render 0 "dev".toList "%d".toList "%n/%d".toList ]

/-- a concrete history, evaluated: the class keeps accepting `abc` and rendering `abc/dev` -/
theorem C15_history_instance :
    (runReal {} histA).2 = [some (.ok "abc".toList), some (.ok "abc".toList), some (.error .fmtValue), some (.error .fmtValue),
                            some (.ok "abc/dev".toList)] := by decide +kernel

/-- the hypotheses of the frozen theorems hold along that history (non-vacuity) -/
example : Inv (runReal {} histA).1 ∧ 0 < (runReal {} (histA.take 2)).1.classes.length := by
  refine ⟨C15_inv_reachable histA, ?_⟩
  decide +kernel

def serialConstOk (n : Nat) (text fmt fmt2 want : String) : Bool :=
  (do let K ← Const.ofInstance Serial.cls n
      let o ← Const.parse K text.toList (some fmt.toList) false
      Engine.format K o fmt2.toList) == .ok want.toList

def serialConstRejects (n : Nat) (text fmt : String) : Bool :=
  match (do let K ← Const.ofInstance Serial.cls n; Const.parse K text.toList (some fmt.toList) false) with
  | .error .fmtValue => true
  | _ => false

/-- `to_const` of an instance: accepts the instance's rendering of each directive, renders the others, rejects another value's -/
theorem C15_to_const_serial :
    serialConstOk 7 "7" "%n" "%p/%b" "007/00000111" = true ∧ serialConstOk 7 "007" "%p" "%n" "7" = true
  ∧ serialConstOk 1234 "1,234" "%c" "%u" "1_234" = true
  ∧ serialConstRejects 7 "8" "%n" = true ∧ serialConstRejects 7 "07" "%n" = true ∧ serialConstRejects 7 "7" "%p" = true := by
  decide +kernel

end C15
