import FmtModel.Assets
/-
  C18 — the asset-defined formatters agree with the classic ones.

  `C18_serial_render`   : for every shared Serial directive (%n %p %b %c %u) and EVERY natural number the two
                          implementations render the same text (same rendering functions, same padding widths
                          in the regenerated configuration).
  `C18_datetime_render` : for every shared Datetime directive (%n %Y %m %d %H %M %S) and EVERY instant the two
                          render the same text (the classic table's strftime pattern for the directive is the
                          asset's).
  `C18_serial_patterns` : the patterns of %n %p %c %u are identical in the two regenerated tables and both
                          engines use the same anchors and tokenisers, so formats over these directives compile to
                          the same pattern (`C18_same_compiled` evaluates this on concrete formats); %b is an 8-bit
                          field in the asset table and unbounded in the classic one.
  `C18_parse_instances` : kernel-evaluated: strings both accept are read as the same value, strict and non-strict;
                          strings with contradictory statements are rejected by both in strict mode.
  The statement for all strings and formats, arithmetic and ordering is decided by the sweep and the
  correspondence (aserial.*, adatetime.* ops).
-/
namespace C18
open Py Engine

def sharedSerial : List Str := ["%n", "%p", "%b", "%c", "%u"].map String.toList
def sharedDatetime : List Str := ["%n", "%Y", "%m", "%d", "%H", "%M", "%S"].map String.toList

theorem C18_serial_config :
    Gen.asset_serial_max_padding = Gen.serial_max_padding ∧ Gen.asset_serial_max_binary = Gen.serial_max_binary := by decide

theorem serial_shared_present : ∀ k ∈ sharedSerial, (Gen.asset_serial_rows.any fun r => r.1 == k) = true := by decide

/-- **Serial renderings agree for every number** -/
theorem C18_serial_render (k : Str) (hk : k ∈ sharedSerial) (n : Nat) : Assets.renderSerial k n = Serial.cls.render k n := by
  unfold Assets.renderSerial
  rw [serial_shared_present k hk, C18_serial_config.1, C18_serial_config.2]
  rfl

theorem datetime_shared_table : ∀ k ∈ sharedDatetime,
    (Gen.datetime_renderers.find? fun r => r.1 == k).map (fun r => (r.2.1, r.2.2)) = (Assets.datetimeFmtOf k).map (fun f => (false, f))
    ∧ (Assets.datetimeFmtOf k).isSome = true := by decide

/-- **Datetime renderings agree for every instant** -/
theorem C18_datetime_render (k : Str) (hk : k ∈ sharedDatetime) (t : Cal.DT) : Assets.renderDatetime k t = Datetime.cls.render k t := by
  obtain ⟨h1, h2⟩ := datetime_shared_table k hk
  show Assets.renderDatetime k t = Datetime.render k t
  unfold Assets.renderDatetime Datetime.render
  cases hf : Assets.datetimeFmtOf k with
  | none => simp [hf] at h2
  | some f =>
    cases hr : Gen.datetime_renderers.find? fun r => r.1 == k with
    | none => simp [hf, hr] at h1
    | some r =>
      obtain ⟨rk, strip, rf⟩ := r
      simp only [hf, hr, Option.map_some, Option.some.injEq, Prod.mk.injEq] at h1
      obtain ⟨e1, e2⟩ := h1
      subst e1; subst e2
      simp

/-- the patterns of %n %p %c %u are the same text in both regenerated tables; anchors agree -/
theorem C18_serial_patterns :
    (∀ k ∈ ["%n", "%p", "%c", "%u"].map String.toList,
      (match Assets.regexTable Gen.asset_serial_rows, Engine.regexTable Gen.serial_formatter with
       | .ok a, .ok c => decide (alookup k a = alookup k c ∧ (alookup k a).isSome = true)
       | _, _ => false) = true)
  ∧ Gen.asset_anchor_pre = Gen.parse_anchor_pre ∧ Gen.asset_anchor_post = Gen.parse_anchor_post := by decide +kernel

/-- both engines render with the same single left-to-right tokeniser -/
theorem C18_format_tokeniser :
    Gen.asset_format_token_re = Gen.format_token_re ∧ Gen.asset_format_single_pass = true ∧ Gen.format_single_pass = true := by decide

def sameCompiled (fmt : String) : Bool :=
  match (do let t ← Assets.regexTable Gen.asset_serial_rows; genFormat t fmt.toList [] []),
        (do let t ← Engine.regexTable Gen.serial_formatter; genFormat t fmt.toList [] []) with
  | .ok a, .ok c => a == c
  | _, _ => false

theorem C18_same_compiled : ∀ f ∈ ["%n", "%p-%n", "%c/%u", "%n %n", "%u__%p__%c", "%%%n%%", "x%ny"], sameCompiled f = true := by
  decide +kernel

def serialBoth (text fmt : String) (strict : Bool) : R Nat × R Nat :=
  (Assets.parseSerial text.toList (some fmt.toList) strict,
   do let o ← Engine.parse Serial.cls text.toList (some fmt.toList) strict; Serial.value o)

def datetimeBoth (text fmt : String) (strict : Bool) : R Cal.DT × R Cal.DT :=
  (Assets.parseDatetime text.toList (some fmt.toList) strict,
   do let o ← Engine.parse Datetime.cls text.toList (some fmt.toList) strict; Datetime.value o)

def agreeOn {α} [DecidableEq α] (p : R α × R α) (v : α) : Bool := decide (p.1 = .ok v) && decide (p.2 = .ok v)
def bothReject {α} (p : R α × R α) : Bool :=
  (match p.1 with | .error .fmtValue => true | _ => false) && (match p.2 with | .error .fmtValue => true | _ => false)

theorem C18_parse_instances :
    (∀ strict ∈ [false, true],
        agreeOn (serialBoth "007" "%n" strict) 7 = true
      ∧ agreeOn (serialBoth "007/00000111/7" "%p/%b/%c" strict) 7 = true
      ∧ agreeOn (serialBoth "1,234_1_234" "%c_%u" strict) 1234 = true
      ∧ bothReject (serialBoth "12-13" "%n-%n" strict) = true
      ∧ agreeOn (datetimeBoth "2024-02-29 23:59:59" "%Y-%m-%d %H:%M:%S" strict)
          { year := 2024, month := 2, day := 29, hour := 23, minute := 59, second := 59 } = true
      ∧ agreeOn (datetimeBoth "20240229_235959" "%n" strict)
          { year := 2024, month := 2, day := 29, hour := 23, minute := 59, second := 59 } = true
      ∧ agreeOn (datetimeBoth "59:59 12/31" "%M:%S %m/%d" strict) { year := 1900, month := 12, day := 31, minute := 59, second := 59 } = true
      ∧ bothReject (datetimeBoth "2023-02-29" "%Y-%m-%d" strict) = true
      ∧ bothReject (datetimeBoth "24" "%H" strict) = true)
  ∧ agreeOn (serialBoth "12 13" "%n %c" false) 12 = true ∧ bothReject (serialBoth "12 13" "%n %c" true) = true := by
  decide +kernel

end C18
