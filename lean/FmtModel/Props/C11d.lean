import FmtModel.Props.C11a
namespace C11
theorem C11_post : ∀ strict ∈ [false, true], ∀ lead ∈ leads, ∀ l ∈ postLetters, ∀ i ∈ inners, postTerm lead l i "7" strict = true := by
  decide +kernel

theorem C11_post_implicit : ∀ strict ∈ [false, true], ∀ n ∈ ["0", "1", "7", "12", "999"],
    mirrors ("1.2.3-" ++ n) "%m.%n.%c%p" strict = true := by decide +kernel

theorem C11_dev : ∀ strict ∈ [false, true], ∀ lead ∈ leads, ∀ i ∈ inners, devTerm lead i "7" strict = true := by
  decide +kernel
end C11
