import FmtModel.Props.C09g
import FmtModel.Props.C09p
