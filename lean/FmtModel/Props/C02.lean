import FmtModel.Classes.Datetime
/-
  C02 — Datetime agrees with the standard calendar.

  fmtutil renders by delegating to `datetime.strftime`; to keep "rendering = strftime" from being
  true by definition the claim is split (DESIGN §6 C02):
  * `C02_renderer_table`  the regenerated renderer table pairs every directive with the strftime
                          directive of the same letter, `-` variants with "strip the padding";
  * `C02_strip`           for every digit string, `remove_pad` is "drop leading zeros, keep one";
  * `Py.Cal.strftime1`    is written from ordinal arithmetic (not from the standard library) and is
                          compared with CPython on every instant the sweep uses.
  Parsing: every finite field's directive law is kernel-evaluated over its whole range on the
  regenerated patterns — the pattern accepts the calendar's text and the converter yields the
  canonical attribute text: months (4 spellings x 12), days 1..31 (2), hours 0..23, minutes and
  seconds 0..59 (2 each), weekday numbers (2 x 7), weekday names (with the recorded Tue/Thu
  exclusion), AM/PM; plus the default instant and end-to-end descriptions as instances.
  The composition into "every complete description of every instant" is validated by the sweep.
-/
namespace C02
open Py Py.Cal Engine Datetime

/-- every directive delegates to the strftime directive of the same letter -/
theorem C02_renderer_table :
    Gen.datetime_renderers.all (fun r =>
      if r.1 == "%n".toList then r.2.1 == false && r.2.2 == "%Y%m%d_%H%M%S".toList
      else if r.1.take 2 == "%-".toList then r.2.1 == true && r.2.2 == '%' :: r.1.drop 2
      else r.2.1 == false && r.2.2 == r.1) = true
  ∧ Gen.datetime_renderers.map (·.1) = Gen.datetime_formatter.map (·.1) := by decide +kernel

/-- `remove_pad` keeps the number: leading zeros go, a lone zero stays -/
theorem C02_strip (s : Str) :
    Serial.removePad s = (match s.dropWhile (· == '0') with | [] => ['0'] | r => r) := rfl

/-- fields the description does not mention default to 1900-01-01 00:00:00.000000 -/
theorem C02_default :
    (do let o ← init Datetime.cls [] false; Datetime.value o)
      = .ok { year := 1900, month := 1, day := 1, hour := 0, minute := 0, second := 0, micro := 0 } := by
  decide +kernel

/-- one directive: its regenerated pattern accepts `text` completely and the converter of its capture,
    run on a fresh object, yields `want` -/
def law (key : String) (text want : Str) : Bool :=
  match regexTable Datetime.cls.rows with
  | .ok t =>
    (match alookup key.toList t with
     | some rx =>
       (match compileRe (['^'] ++ rx ++ ['\\', 'Z']) with
        | .ok r =>
          (match search r text with
           | some (_, _, caps) =>
             (match groupdict r caps with
              | [(name, some cap)] =>
                (match Datetime.conv name { attrs := [], level := List.replicate 10 false } cap with
                 | .ok (.str v, _) => v == want
                 | _ => false)
              | _ => false)
           | none => false)
        | .error _ => false)
     | none => false)
  | .error _ => false

def range (a b : Nat) : List Nat := (List.range (b - a + 1)).map (· + a)

theorem C02_law_month : ∀ m ∈ range 1 12,
    law "%m" (pad 2 m) (pad 2 m) = true ∧ law "%-m" (showNat m) (pad 2 m) = true
  ∧ law "%b" (monthAbbr.getD (m - 1) []) (pad 2 m) = true ∧ law "%B" (monthFull.getD (m - 1) []) (pad 2 m) = true := by
  decide +kernel

theorem C02_law_day : ∀ d ∈ range 1 31, law "%d" (pad 2 d) (pad 2 d) = true ∧ law "%-d" (showNat d) (pad 2 d) = true := by
  decide +kernel

theorem C02_law_hour : ∀ h ∈ range 0 23, law "%H" (pad 2 h) (pad 2 h) = true := by decide +kernel
/-- `%-H` works for two-digit hours only (the one-digit case is the recorded finding) -/
theorem C02_law_hour_unpadded_partial : ∀ h ∈ range 10 23, law "%-H" (showNat h) (pad 2 h) = true := by decide +kernel

theorem C02_law_minute : ∀ m ∈ range 0 59, law "%M" (pad 2 m) (pad 2 m) = true ∧ law "%-M" (showNat m) (pad 2 m) = true := by
  decide +kernel
theorem C02_law_second : ∀ s ∈ range 0 59, law "%S" (pad 2 s) (pad 2 s) = true ∧ law "%-S" (showNat s) (pad 2 s) = true := by
  decide +kernel

theorem C02_law_weekday_number : ∀ w ∈ range 0 6,
    law "%w" (showNat w) (showNat w) = true ∧ law "%u" (showNat (if w == 0 then 7 else w)) (showNat w) = true := by
  decide +kernel

/-- weekday names: correct for Sunday, Monday, Wednesday, Friday, Saturday; Tuesday and Thursday are
    the recorded finding (`Findings.C02.weekday_names_swapped`) -/
theorem C02_law_weekday_name_partial : ∀ w ∈ [0, 1, 3, 5, 6],
    law "%a" (dayAbbr.getD w []) (showNat w) = true ∧ law "%A" (dayFull.getD w []) (showNat w) = true := by
  decide +kernel

theorem C02_law_year_and_micro :
    law "%Y" "2023".toList "2023".toList = true ∧ law "%Y" "1000".toList "1000".toList = true
  ∧ law "%Y" "9999".toList "9999".toList = true ∧ law "%y" "05".toList "1905".toList = true
  ∧ law "%-y" "5".toList "1905".toList = true ∧ law "%-y" "99".toList "1999".toList = true
  ∧ law "%f" "000123".toList "000123".toList = true ∧ law "%p" "AM".toList "AM".toList = true
  ∧ law "%p" "PM".toList "PM".toList = true := by decide +kernel

/-- the calendar arithmetic of the model: ordinals, weekdays and week numbers on known dates -/
theorem C02_calendar_facts :
    toOrdinal 1 1 1 = 1 ∧ toOrdinal 1970 1 1 = 719163 ∧ toOrdinal 9999 12 31 = 3652059
  ∧ weekdaySun (toOrdinal 2000 7 4) = 2 ∧ weekdaySun (toOrdinal 2023 9 8) = 5
  ∧ ofOrdinal 730120 = (2000, 1, 1) ∧ ofOrdinal 3652059 = (9999, 12, 31) ∧ ofOrdinal 1 = (1, 1, 1)
  ∧ strftime "%j %U %W".toList { year := 2024, month := 12, day := 31 } = "366 52 53".toList
  ∧ strftime "%j %U %W".toList { year := 2023, month := 1, day := 1 } = "001 01 00".toList := by decide +kernel

/-- end-to-end descriptions of one instant, in every date family and both clocks, both modes -/
def describes (text fmt : String) (strict : Bool) (t : DT) : Bool :=
  (do let o ← Engine.parse Datetime.cls text.toList (some fmt.toList) strict; Datetime.value o) == .ok t

def t0 : DT := { year := 2023, month := 9, day := 8, hour := 19, minute := 6, second := 5, micro := 4321 }

theorem C02_descriptions : ∀ strict ∈ [false, true],
    describes "2023-09-08 19:06:05.004321" "%Y-%m-%d %H:%M:%S.%f" strict t0 = true
  ∧ describes "8 Sep 2023 7:6:5 PM 004321" "%-d %b %Y %-I:%-M:%-S %p %f" strict t0 = true
  ∧ describes "2023 251 07 PM 06 05 004321" "%Y %j %I %p %M %S %f" strict t0 = true
  ∧ describes "2023 36 5 19 06 05 004321" "%Y %U %w %H %M %S %f" strict t0 = true
  ∧ describes "2023 36 Fri 19 06 05 004321" "%Y %W %a %H %M %S %f" strict t0 = true
  ∧ describes "September 8, 2023 Friday 19h06m05s004321" "%B %-d, %Y %A %Hh%Mm%Ss%f" strict t0 = true := by
  decide +kernel

end C02
