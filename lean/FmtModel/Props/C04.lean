import FmtModel.Lemmas.VerOrder
/-
  C04 — packaging versions are ordered as PEP 440 orders them.

  What is proved:
  * `C04_order`  : for ALL packaging objects whose key exists, `compare` returns the sign of the
                   lexicographic comparison of the PEP 440 key (epoch, release without trailing zeros,
                   pre, post, dev, local) with the sentinels placed as `packaging._cmpkey` places them;
  * `C04_key`    : the key the class builds is `Spec.cmpkey`, the transcription of `_cmpkey`;
  * `C04_letters`, `C04_segments`, `C04_implicit_post` : every spelling of a pre/post/dev segment of
                   the property's bounded grammar (8+3+1 letters x 4 x 4 separators x numbers
                   {absent,0,1,2,10}) and the implicit post form are read as PEP 440 normalises them —
                   the complete finite grammar, by kernel evaluation on the regenerated tables;
  * `C04_variants`: the spelling variants named in the property compare equal (end to end, through
                   the regenerated pattern).
  What is not proved here: that the regenerated pattern splits an arbitrary version string into
  these segments (validated exhaustively for small bounds against the vendored reference).
-/
namespace C04
open Ver Py Std

namespace Spec
/-- PEP 440 normalisation of segment letters (`packaging.version._parse_letter_version`) -/
def normLetter (w : Str) : Str :=
  if w == "alpha".toList then "a".toList
  else if w == "beta".toList then "b".toList
  else if w == "c".toList || w == "pre".toList || w == "preview".toList then "rc".toList
  else if w == "rev".toList || w == "r".toList then "post".toList
  else w

/-- `packaging.version._cmpkey` on already-normalised segments -/
def cmpkey (epoch : Nat) (release : List Nat) (pre post dev : Option (Str × Int))
    (loc : Option (List (Sent Int × Str))) : PkgKey :=
  let release' := (release.reverse.dropWhile (· == 0)).reverse
  let pre' : LetterK :=
    match pre, post, dev with
    | none, none, some _ => Sent.ninf
    | none, _, _ => Sent.inf
    | some p, _, _ => Sent.val p
  let post' : LetterK := match post with | none => Sent.ninf | some p => Sent.val p
  let dev' : LetterK := match dev with | none => Sent.inf | some p => Sent.val p
  let loc' := match loc with | none => Sent.ninf | some l => Sent.val l
  (epoch, release', pre', post', dev', loc')
end Spec

def preLetters : List Str := ["a", "b", "c", "rc", "alpha", "beta", "pre", "preview"].map String.toList
def postLetters : List Str := ["post", "rev", "r"].map String.toList
def seps : List Str := ["", ".", "-", "_"].map String.toList
def nums : List (Option Nat) := [none, some 0, some 1, some 2, some 10]

def showOptNat : Option Nat → Str
  | none => []
  | some n => showNat n

/-- all spellings `sep letter sep number` of a segment -/
def spellings (letters : List Str) : List (Str × Str × Option Nat) :=
  letters.flatMap fun l => seps.flatMap fun s1 => seps.flatMap fun s2 => nums.map fun n =>
    (s1 ++ l ++ s2 ++ showOptNat n, l, n)

def readsAs (sp : Str × Str × Option Nat) : Bool :=
  match extractLetter sp.1 with
  | .ok (l, n) => l == Spec.normLetter sp.2.1 && n == ((sp.2.2.getD 0 : Nat) : Int)
  | .error _ => false

/-- the class's spelling table is PEP 440's normalisation -/
theorem C04_letters : ∀ w ∈ preLetters ++ postLetters ++ ["dev".toList],
    (lookupSpelling w Gen.extract_letter_table).getD w = Spec.normLetter w := by decide +kernel

theorem C04_segments_pre : ∀ sp ∈ spellings preLetters, readsAs sp = true := by decide +kernel
theorem C04_segments_post : ∀ sp ∈ spellings postLetters, readsAs sp = true := by decide +kernel
theorem C04_segments_dev : ∀ sp ∈ spellings ["dev".toList], readsAs sp = true := by decide +kernel

/-- the implicit post release `-N` is post N -/
def implicitOk (n : Nat) : Bool :=
  match extractLetter ('-' :: showNat n) with
  | .ok (l, k) => l == "post".toList && k == (n : Int)
  | .error _ => false

theorem C04_implicit_post : ∀ n ∈ [0, 1, 2, 9, 10, 99, 100, 12345, 4294967296], implicitOk n = true := by
  decide +kernel

/-- the key built by `__extract_tuple` is `_cmpkey` applied to the segments as `_extract_letter`
    reads them -/
theorem C04_key (o : Obj) (pre post dev : Str × Int) (loc : List (Sent Int × Str))
    (hpre : ∀ s, o.pre = some s → extractLetter s = .ok pre)
    (hpost : ∀ s, o.post = some s → extractLetter s = .ok post)
    (hdev : ∀ s, o.dev = some s → extractLetter s = .ok dev)
    (hloc : ∀ s, o.loc = some s → localKey s = .ok loc)
    (hne : o.post ≠ some [] ∧ o.dev ≠ some []) :
    pkgKey o = .ok (Spec.cmpkey o.epoch [o.major, o.minor, o.patch]
      (o.pre.map fun _ => pre) (o.post.map fun _ => post) (o.dev.map fun _ => dev) (o.loc.map fun _ => loc)) := by
  obtain ⟨hne1, hne2⟩ := hne
  unfold pkgKey pkgPre pkgPost pkgDev pkgLoc Spec.cmpkey
  cases hp : o.pre with
  | none =>
    cases hq : o.post with
    | none =>
      cases hd : o.dev with
      | none =>
        cases hl : o.loc with
        | none => simp [truthyStr, necessaryRelease, bind, Except.bind, pure, Except.pure]
        | some l => simp [truthyStr, necessaryRelease, hloc l hl, Except.map, bind, Except.bind, pure, Except.pure]
      | some d =>
        have hdne : d ≠ [] := by rintro rfl; exact hne2 hd
        have hd' : truthyStr (some d) = true := by
          cases d with
          | nil => exact absurd rfl hdne
          | cons _ _ => rfl
        cases hl : o.loc with
        | none => simp [hd', hdne, truthyStr, necessaryRelease, hdev d hd, Except.map, bind, Except.bind, pure, Except.pure]
        | some l => simp [hd', hdne, truthyStr, necessaryRelease, hdev d hd, hloc l hl, Except.map, bind, Except.bind, pure, Except.pure]
    | some q =>
      have hqne : q ≠ [] := by rintro rfl; exact hne1 hq
      have hq' : truthyStr (some q) = true := by
        cases q with
        | nil => exact absurd rfl hqne
        | cons _ _ => rfl
      cases hd : o.dev with
      | none =>
        cases hl : o.loc with
        | none => simp [hq', hqne, truthyStr, necessaryRelease, hpost q hq, Except.map, bind, Except.bind, pure, Except.pure]
        | some l => simp [hq', hqne, truthyStr, necessaryRelease, hpost q hq, hloc l hl, Except.map, bind, Except.bind, pure, Except.pure]
      | some d =>
        have hdne : d ≠ [] := by rintro rfl; exact hne2 hd
        have hd' : truthyStr (some d) = true := by
          cases d with
          | nil => exact absurd rfl hdne
          | cons _ _ => rfl
        cases hl : o.loc with
        | none => simp [hq', hqne, hd', hdne, truthyStr, necessaryRelease, hpost q hq, hdev d hd, Except.map, bind, Except.bind, pure, Except.pure]
        | some l => simp [hq', hqne, hd', hdne, truthyStr, necessaryRelease, hpost q hq, hdev d hd, hloc l hl, Except.map, bind, Except.bind, pure, Except.pure]
  | some p =>
    cases hq : o.post with
    | none =>
      cases hd : o.dev with
      | none =>
        cases hl : o.loc with
        | none => simp [truthyStr, necessaryRelease, hpre p hp, Except.map, bind, Except.bind, pure, Except.pure]
        | some l => simp [truthyStr, necessaryRelease, hpre p hp, hloc l hl, Except.map, bind, Except.bind, pure, Except.pure]
      | some d =>
        have hdne : d ≠ [] := by rintro rfl; exact hne2 hd
        have hd' : truthyStr (some d) = true := by
          cases d with
          | nil => exact absurd rfl hdne
          | cons _ _ => rfl
        cases hl : o.loc with
        | none => simp [hd', hdne, truthyStr, necessaryRelease, hpre p hp, hdev d hd, Except.map, bind, Except.bind, pure, Except.pure]
        | some l => simp [hd', hdne, truthyStr, necessaryRelease, hpre p hp, hdev d hd, hloc l hl, Except.map, bind, Except.bind, pure, Except.pure]
    | some q =>
      have hqne : q ≠ [] := by rintro rfl; exact hne1 hq
      have hq' : truthyStr (some q) = true := by
        cases q with
        | nil => exact absurd rfl hqne
        | cons _ _ => rfl
      cases hd : o.dev with
      | none =>
        cases hl : o.loc with
        | none => simp [hq', hqne, truthyStr, necessaryRelease, hpre p hp, hpost q hq, Except.map, bind, Except.bind, pure, Except.pure]
        | some l => simp [hq', hqne, truthyStr, necessaryRelease, hpre p hp, hpost q hq, hloc l hl, Except.map, bind, Except.bind, pure, Except.pure]
      | some d =>
        have hdne : d ≠ [] := by rintro rfl; exact hne2 hd
        have hd' : truthyStr (some d) = true := by
          cases d with
          | nil => exact absurd rfl hdne
          | cons _ _ => rfl
        cases hl : o.loc with
        | none => simp [hq', hqne, hd', hdne, truthyStr, necessaryRelease, hpre p hp, hpost q hq, hdev d hd, Except.map, bind, Except.bind, pure, Except.pure]
        | some l => simp [hq', hqne, hd', hdne, truthyStr, necessaryRelease, hpre p hp, hpost q hq, hdev d hd, hloc l hl, Except.map, bind, Except.bind, pure, Except.pure]

/-- **order**: comparing two packaging versions never raises and gives the sign of the comparison of
    their PEP 440 keys; in particular versions with equal keys compare equal -/
theorem C04_order (a b : Obj) (ha : a.cls = .pkg) (hb : b.cls = .pkg) (ka kb : PkgKey)
    (hka : pkgKey a = .ok ka) (hkb : pkgKey b = .ok kb) :
    vcompare a (.obj b) = .ok (ordInt (compare ka kb)) := by
  have h1 : akey a = .ok (.pkg ka) := by simp [akey, ha, hka, Except.map]
  have h2 : akey b = .ok (.pkg kb) := by simp [akey, hb, hkb, Except.map]
  obtain ⟨o, ho, hc⟩ := compare_obj (ha.trans hb.symm) h1 h2
  simp only [AKey.cmp, Option.some.injEq] at ho
  rw [hc, ho]

/-- the lexicographic order of PEP 440 keys is a lawful linear preorder -/
example : TransOrd PkgKey := inferInstance

-- the spelling variants the property names, end to end through the regenerated pattern -------------

def cmpStr (s t : String) : Option Int :=
  match parse .pkg s.toList, parse .pkg t.toList with
  | .ok a, .ok b => match vcompare a (.obj b) with | .ok c => some c | .error _ => none
  | _, _ => none

theorem C04_variants :
    cmpStr "1.0a1" "1.0alpha1" = some 0 ∧ cmpStr "1.0c1" "1.0rc1" = some 0 ∧ cmpStr "1.0rc1" "1.0pre1" = some 0
  ∧ cmpStr "1.0.post1" "1.0post1" = some 0 ∧ cmpStr "1.0post1" "1.0-1" = some 0 ∧ cmpStr "1.0rev1" "1.0r1" = some 0
  ∧ cmpStr "1.0" "1.0.0" = some 0 ∧ cmpStr "1.0.dev1" "1.0a1" = some (-1) ∧ cmpStr "1.0a1" "1.0" = some (-1)
  ∧ cmpStr "1.0" "1.0+abc" = some (-1) ∧ cmpStr "1.0+abc" "1.0+1" = some (-1) ∧ cmpStr "1.0" "1.0.post1" = some (-1)
  ∧ cmpStr "1.0.post1.dev2" "1.0.post1" = some (-1) ∧ cmpStr "1!0.1" "2.0" = some 1 := by decide +kernel

end C04
