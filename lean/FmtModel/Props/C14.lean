import FmtModel.Props.C14g
import FmtModel.Props.C14a
