import FmtModel.Props.C11a
namespace C11
theorem C11_pre_long : ∀ lead ∈ leads, ∀ l ∈ ["alpha", "beta", "pre", "preview"], ∀ i ∈ inners, preTerm lead l i "7" false = true := by
  decide +kernel
end C11
