import FmtModel.Lemmas.VerOrder
/-
  C07 — version comparison is a consistent total preorder and agrees with hashing.

  Quantifier: all objects `a b c` of one version class whose comparison key exists
  (`akey · = .ok ·`; it exists for every object the class's parser returns — see the `example`s at
  the end and the correspondence sweep).  Numbers, tags and labels are unbounded.
  Only theorem statements and their proofs live here; helper lemmas are in `FmtModel/Lemmas`.
-/
namespace C07
open Ver Py Std

section Laws
variable {a b c : Obj} {ka kb kc : AKey}

/-- exactly one of `a < b`, `a == b`, `a > b` -/
theorem C07_trichotomy (hab : a.cls = b.cls) (ha : akey a = .ok ka) (hb : akey b = .ok kb) :
    ∃ l e g, richCmp .lt a (.obj b) = .ok l ∧ richCmp .eq a (.obj b) = .ok e ∧ richCmp .gt a (.obj b) = .ok g
      ∧ ((l = true ∧ e = false ∧ g = false) ∨ (l = false ∧ e = true ∧ g = false) ∨ (l = false ∧ e = false ∧ g = true)) := by
  obtain ⟨o, _, h⟩ := rich_spec hab ha hb
  refine ⟨_, _, _, h .lt, h .eq, h .gt, ?_⟩
  cases o <;> simp [opHolds]

/-- `<=`, `>=`, `!=` are the derived relations -/
theorem C07_derived (hab : a.cls = b.cls) (ha : akey a = .ok ka) (hb : akey b = .ok kb) :
    ∃ l e g le ge ne, richCmp .lt a (.obj b) = .ok l ∧ richCmp .eq a (.obj b) = .ok e ∧ richCmp .gt a (.obj b) = .ok g
      ∧ richCmp .le a (.obj b) = .ok le ∧ richCmp .ge a (.obj b) = .ok ge ∧ richCmp .ne a (.obj b) = .ok ne
      ∧ le = (l || e) ∧ ge = (g || e) ∧ ne = !e := by
  obtain ⟨o, _, h⟩ := rich_spec hab ha hb
  refine ⟨_, _, _, _, _, _, h .lt, h .eq, h .gt, h .le, h .ge, h .ne, ?_⟩
  cases o <;> simp [opHolds]

/-- `a < b` iff `b > a`, `a == b` iff `b == a` -/
theorem C07_mirror (hab : a.cls = b.cls) (ha : akey a = .ok ka) (hb : akey b = .ok kb) :
    ∃ x y, richCmp .lt a (.obj b) = .ok x ∧ richCmp .gt b (.obj a) = .ok x
         ∧ richCmp .eq a (.obj b) = .ok y ∧ richCmp .eq b (.obj a) = .ok y := by
  obtain ⟨o, ho, h⟩ := rich_spec hab ha hb
  obtain ⟨o', ho', h'⟩ := rich_spec hab.symm hb ha
  have : o' = o.swap := by
    have := cmp_swap ho; rw [ho'] at this; exact Option.some.inj this
  subst this
  refine ⟨_, _, h .lt, ?_, h .eq, ?_⟩
  · rw [h' .gt]; cases o <;> simp [opHolds, Ordering.swap]
  · rw [h' .eq]; cases o <;> simp [opHolds, Ordering.swap]

/-- `<` is transitive -/
theorem C07_lt_trans (hab : a.cls = b.cls) (hbc : b.cls = c.cls) (ha : akey a = .ok ka) (hb : akey b = .ok kb) (hc : akey c = .ok kc) (h1 : richCmp .lt a (.obj b) = .ok true) (h2 : richCmp .lt b (.obj c) = .ok true) :
    richCmp .lt a (.obj c) = .ok true := by
  obtain ⟨o1, ho1, r1⟩ := rich_spec hab ha hb
  obtain ⟨o2, ho2, r2⟩ := rich_spec hbc hb hc
  obtain ⟨o3, ho3, r3⟩ := rich_spec (hab.trans hbc) ha hc
  rw [r1 .lt] at h1; rw [r2 .lt] at h2; rw [r3 .lt]
  have e1 : o1 = .lt := by cases o1 <;> simp_all [opHolds]
  have e2 : o2 = .lt := by cases o2 <;> simp_all [opHolds]
  subst e1 e2
  have := cmp_trans_lt ho1 ho2
  rw [ho3] at this
  cases Option.some.inj this
  rfl

/-- `==` is reflexive -/
theorem C07_eq_refl (ha : akey a = .ok ka) : richCmp .eq a (.obj a) = .ok true := by
  obtain ⟨o, ho, r⟩ := rich_spec rfl ha ha
  rw [cmp_refl] at ho
  cases Option.some.inj ho
  rw [r .eq]; rfl

/-- `==` is transitive, and compatible with every operator on the left … -/
theorem C07_eq_congr_left (hab : a.cls = b.cls) (hbc : b.cls = c.cls) (ha : akey a = .ok ka) (hb : akey b = .ok kb) (hc : akey c = .ok kc) (h1 : richCmp .eq a (.obj b) = .ok true) (op : Op) :
    richCmp op a (.obj c) = richCmp op b (.obj c) := by
  obtain ⟨o1, ho1, r1⟩ := rich_spec hab ha hb
  obtain ⟨o2, ho2, r2⟩ := rich_spec hbc hb hc
  obtain ⟨o3, ho3, r3⟩ := rich_spec (hab.trans hbc) ha hc
  rw [r1 .eq] at h1
  have e1 : o1 = .eq := by cases o1 <;> simp_all [opHolds]
  subst e1
  have := cmp_eq_left ho1 ho2
  rw [ho3] at this
  cases Option.some.inj this
  rw [r3 op, r2 op]

/-- … and on the right -/
theorem C07_eq_congr_right (hab : a.cls = b.cls) (hbc : b.cls = c.cls) (ha : akey a = .ok ka) (hb : akey b = .ok kb) (hc : akey c = .ok kc) (h2 : richCmp .eq b (.obj c) = .ok true) (op : Op) :
    richCmp op a (.obj c) = richCmp op a (.obj b) := by
  obtain ⟨o1, ho1, r1⟩ := rich_spec hab ha hb
  obtain ⟨o2, ho2, r2⟩ := rich_spec hbc hb hc
  obtain ⟨o3, ho3, r3⟩ := rich_spec (hab.trans hbc) ha hc
  rw [r2 .eq] at h2
  have e2 : o2 = .eq := by cases o2 <;> simp_all [opHolds]
  subst e2
  have := cmp_eq_right ho1 ho2
  rw [ho3] at this
  cases Option.some.inj this
  rw [r3 op, r1 op]

end Laws

-- equal versions have equal hashes ---------------------------------------------------------------

/-- `a == b → hash(a) == hash(b)`: equal objects feed identical values to `hash` -/
theorem C07_hash {a b : Obj} {ka kb : AKey} (hab : a.cls = b.cls) (ha : akey a = .ok ka) (hb : akey b = .ok kb)
    (h : richCmp .eq a (.obj b) = .ok true) : hashRepr a = hashRepr b := by
  obtain ⟨o, ho, r⟩ := rich_spec hab ha hb
  rw [r .eq] at h
  have e : o = .eq := by cases o <;> simp_all [opHolds]
  subst e
  have := cmp_eq_imp_eq ho
  subst this
  rw [hashRepr_eq_key, hashRepr_eq_key, key_eq_akey, key_eq_akey, ha, hb]

-- spellings ----------------------------------------------------------------------------------------

/-- comparing with the tuple or list spelling of `b` gives the same answer as comparing with `b` -/
theorem C07_spelling_tuple (a b : Obj) (h : a.cls = b.cls) :
    vcompare a (.tuple b.toArgs) = vcompare a (.obj b) := by
  obtain ⟨b', hb', hc', hk'⟩ := construct_toArgs b
  have : vcompare a (.tuple b.toArgs) = vcompare a (.obj b') := by
    unfold vcompare coerce
    simp only [h, hb', hc', ↓reduceIte]
  rw [this, vcompare_congr hc' hk']

-- semantic versions ----------------------------------------------------------------------------------

/-- build metadata never affects comparison: the key does not read it -/
theorem C07_sem_build_ignored (o : Obj) (x : Option Str) : semKey { o with build := x } = semKey o := rfl

/-- a pre-release sorts before its release -/
theorem C07_sem_prerelease_lt {a b : Obj} {ka : AKey} (ha : a.cls = .sem) (hb : b.cls = .sem)
    (hka : akey a = .ok ka)
    (hrel : a.major = b.major ∧ a.minor = b.minor ∧ a.patch = b.patch)
    (hpre : truthyStr a.pre = true) (hnopre : truthyStr b.pre = false) :
    richCmp .lt a (.obj b) = .ok true := by
  obtain ⟨h1, h2, h3⟩ := hrel
  have hkb : akey b = .ok (.sem (necessaryRelease [b.major, b.minor, b.patch], Sent.inf)) := by
    simp [akey, hb, semKey, hnopre, Except.map, bind, Except.bind, pure, Except.pure]
  obtain ⟨o, ho, r⟩ := rich_spec (ha.trans hb.symm) hka hkb
  rw [r .lt]
  -- the key of `a` is (same release, val _)
  simp only [akey, ha, semKey, hpre, ↓reduceIte, bind, Except.bind, Except.map] at hka
  cases hx : extractLetter (a.pre.getD []) with
  | error e => simp [hx, Except.map] at hka
  | ok l =>
    simp [hx, Except.map, pure, Except.pure] at hka
    subst hka
    simp only [AKey.cmp, h1, h2, h3, Option.some.injEq] at ho
    rw [compare_prod] at ho
    simp only [ReflCmp.compare_self, Ordering.then, cmp_vi] at ho
    subst ho
    rfl

/-- release numbers dominate pre-release tags -/
theorem C07_sem_release_dominates {a b : Obj} {ka kb : AKey} (ha : a.cls = .sem) (hb : b.cls = .sem)
    (hka : akey a = .ok ka) (hkb : akey b = .ok kb)
    (hrel : compare (necessaryRelease [a.major, a.minor, a.patch]) (necessaryRelease [b.major, b.minor, b.patch]) = .lt) :
    richCmp .lt a (.obj b) = .ok true := by
  obtain ⟨o, ho, r⟩ := rich_spec (ha.trans hb.symm) hka hkb
  rw [r .lt]
  simp only [akey, ha, hb] at hka hkb
  cases hsa : semKey a with
  | error e => simp [hsa, Except.map] at hka
  | ok sa =>
    cases hsb : semKey b with
    | error e => simp [hsb, Except.map] at hkb
    | ok sb =>
      simp [hsa, hsb, Except.map] at hka hkb
      subst hka hkb
      have e1 : sa.1 = necessaryRelease [a.major, a.minor, a.patch] := by
        unfold semKey at hsa
        split at hsa <;> (cases hx : extractLetter (a.pre.getD []) <;> simp_all [bind, Except.bind, Except.map, pure, Except.pure]) <;> (subst hsa; rfl)
      have e2 : sb.1 = necessaryRelease [b.major, b.minor, b.patch] := by
        unfold semKey at hsb
        split at hsb <;> (cases hx : extractLetter (b.pre.getD []) <;> simp_all [bind, Except.bind, Except.map, pure, Except.pure]) <;> (subst hsb; rfl)
      simp only [AKey.cmp, Option.some.injEq] at ho
      rw [compare_prod, e1, e2, hrel] at ho
      subst ho
      rfl

-- non-vacuity: concrete objects meet the hypotheses ------------------------------------------------

def okTrue : R Bool → Bool
  | .ok true => true
  | _ => false

/-- two spellings of one PEP 440 version: keys exist, `==` holds, hashes agree -/
example : okTrue
    (do let a ← parse .pkg "1!2.0rc1.post2+abc.1".toList
        let b ← parse .pkg "1!2.0.0-c.1_rev2+abc-1".toList
        let _ ← akey a
        let _ ← akey b
        let e ← richCmp .eq a (.obj b)
        let ha ← hashRepr a
        let hb ← hashRepr b
        pure (e && pvEq ha hb && decide (a.cls = b.cls))) = true := by
  decide +kernel

example : okTrue
    (do let a ← parse .sem "1.0.0-RC1+x".toList
        let b ← parse .sem "1.0.0-rc.1".toList
        let _ ← akey a
        let _ ← akey b
        let e ← richCmp .eq a (.obj b)
        let l ← richCmp .lt a (.obj { b with pre := none })
        pure (e && l)) = true := by
  decide +kernel

end C07
