import FmtModel.Props.C20a
namespace C20
theorem C20_pairs_datetime : pairsOk Datetime.cls = true := by decide +kernel
end C20
