import FmtModel.Props.C20a
namespace C20
theorem C20_pairs_naming : pairsOk Naming.cls = true := by decide +kernel
end C20
