import FmtModel.Members
import FmtModel.Assets
/-
  C20 — every directive table is well formed.

  Everything here is kernel evaluation (`decide +kernel`) of decidable well-formedness predicates on
  the tables regenerated from the source on this run; a table that stops being well formed makes
  the corresponding theorem fail.
  * `C20_tables`      every directive of the five built-in classes has a pattern that parses, whose
                      named groups are all priorities the class interprets, whose field is a slot;
  * `C20_renderers`   every directive has a renderer (on a sample value of the class);
  * `C20_composites`  composite directives expand to exactly their parts;
  * `C20_assets`      the same for the asset-defined classes; their tokenisers are the classic ones;
  * `C20_pairs_*`     for every ordered pair of directives of a class (alone and under a group
                      prefix/suffix) the generated pattern compiles with pairwise distinct capture
                      names that map back to priorities — the complete length-2 grammar;
  * `C20_convert`     `convert_fmt_str` is injective on the 260 spellings %x %-x %+x %!x %*x and never
                      produces `_`; the character set escaped in constant patterns is exactly the
                      regex special characters.
  Unbounded sequences (any length, any repetition) are validated by the sweep, not proved.
-/
namespace C20
open Py Engine

def rowOk {V} (C : Cls V) (table : List (Str × Str)) (row : DirRow) : Bool :=
  match alookup row.1 table with
  | some rx =>
    match compileRe rx with
    | .ok r => !r.names.isEmpty &&
        r.names.all fun g => C.priorities.any (·.1 == g) && C.slots.contains (splitFirst g ['_'])
    | .error _ => false
  | none => false

def tableOk {V} (C : Cls V) : Bool :=
  match regexTable C.rows with
  | .ok t => C.rows.all (rowOk C t)
  | .error _ => false

theorem C20_tables :
    tableOk Serial.cls = true ∧ tableOk Datetime.cls = true ∧ tableOk Version.cls = true
  ∧ tableOk Naming.cls = true ∧ tableOk Storage.cls = true := by decide +kernel

def hasRenderer {V} (C : Cls V) (v : V) : Bool :=
  C.rows.all fun row => match C.render row.1 v with | .error .pyKey => false | _ => true

theorem C20_renderers :
    hasRenderer Serial.cls 7 = true
  ∧ hasRenderer Datetime.cls { year := 2023, month := 9, day := 8, hour := 7, minute := 6, second := 5, micro := 4 } = true
  ∧ hasRenderer Version.cls { cls := .pkg, major := 1, minor := 2, patch := 3 } = true
  ∧ hasRenderer Naming.cls ["data".toList, "engineer".toList] = true
  ∧ hasRenderer Storage.cls { coeff := 8192, exp := 0 } = true := by decide +kernel

/-- expansion of a composite directive: the concatenation of its parts' patterns and literals -/
def expands {V} (C : Cls V) (d : String) (parts : List String) : Bool :=
  match regexTable C.rows with
  | .ok t =>
    alookup d.toList t == some ((parts.map fun p => (alookup p.toList t).getD p.toList).foldr (· ++ ·) [])
  | .error _ => false

theorem C20_composites :
    expands Datetime.cls "%n" ["%Y", "%m", "%d", "_", "%H", "%M", "%S"] = true
  ∧ expands Version.cls "%f" ["%m", "_", "%n", "_", "%c"] = true
  ∧ expands Version.cls "%-f" ["%m", "-", "%n", "-", "%c"] = true
  ∧ expands Naming.cls "%n" ["%l"] = true ∧ expands Naming.cls "%N" ["%u"] = true
  ∧ expands Naming.cls "%-N" ["%t"] = true ∧ expands Naming.cls "%-c" ["%p"] = true
  ∧ expands Naming.cls "%-K" ["%T"] = true := by decide +kernel

def assetOk (rows : List Assets.ARow) : Bool :=
  match Assets.regexTable rows with
  | .ok t => rows.all fun row =>
      match alookup row.1 t with
      | some rx =>
        (match compileRe rx with
         | .ok r => !r.names.isEmpty && r.names.all fun g => rows.any (·.2.1 == g)
         | .error _ => false)
      | none => false
  | .error _ => false

theorem C20_assets :
    assetOk Gen.asset_serial_rows = true ∧ assetOk Gen.asset_datetime_rows = true
  ∧ Gen.asset_gen_format_token_re = Gen.gen_format_token_re ∧ Gen.asset_gen_format_inner_re = Gen.gen_format_inner_re
  ∧ Gen.asset_anchor_pre = Gen.parse_anchor_pre ∧ Gen.asset_anchor_post = Gen.parse_anchor_post := by decide +kernel

/-- the pattern generated for a directive sequence compiles, its capture names are pairwise
    distinct, each carries the group prefix, and stripped of prefix and `__k` it is a priority -/
def seqOk {V} (C : Cls V) (table : List (Str × Str)) (pre suf : Str) (seq : List Str) : Bool :=
  match genFormat table (join ['_'] seq) pre suf with
  | .ok g =>
    (match compileRe g with
     | .ok r => r.names.all fun n =>
         startsWith n pre && C.priorities.any (·.1 == splitFirst (n.drop pre.length) ['_', '_'])
     | .error _ => false)
  | .error _ => false

def pairsOk {V} (C : Cls V) : Bool :=
  match regexTable C.rows with
  | .ok t =>
    let ks := C.rows.map (·.1)
    ks.all fun a => ks.all fun b =>
      seqOk C t [] [] [a, b] && seqOk C t "grp___".toList "__1".toList [a, b]
  | .error _ => false

theorem C20_pairs_serial : pairsOk Serial.cls = true := by decide +kernel
theorem C20_pairs_storage : pairsOk Storage.cls = true := by decide +kernel
theorem C20_pairs_version : pairsOk Version.cls = true := by decide +kernel

def spellings : List Str :=
  ['-', '+', '!', '*'].flatMap (fun p => ("abcdefghijklmnopqrstuvwxyzABCDEFGHIJKLMNOPQRSTUVWXYZ".toList.map fun c => ['%', p, c]))
    ++ ("abcdefghijklmnopqrstuvwxyzABCDEFGHIJKLMNOPQRSTUVWXYZ".toList.map fun c => ['%', c])

theorem C20_convert :
    ((spellings.map Const.convertFmtStr).eraseDups.length = 260)
  ∧ ((spellings.map Const.convertFmtStr).all fun n => !n.contains '_' && !n.contains '%') = true
  ∧ Gen.const_escape_chars = "$()*+.?[\\]^{|}".toList := by decide +kernel

end C20
