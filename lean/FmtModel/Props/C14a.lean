import FmtModel.Props.C14g
/- C14 — kernel-evaluated instances (spellings of equal values, ordered values, a concrete group) -/
namespace C14
open Py Engine Group Std
-- kernel-evaluated instances ------------------------------------------------------------------------------

/-- parse two texts with one member class; (lt, eq, gt) of the objects and whether their hashes agree -/
def objPair (m : Member) (v1 f1 v2 f2 : String) : R ((Bool × Bool × Bool) × Bool) := do
  let a ← Engine.parse m.cls v1.toList (some f1.toList) false
  let b ← Engine.parse m.cls v2.toList (some f2.toList) false
  let c ← cmpMember m a b
  let h ← hashEq m a b
  pure (c, h)

def objPairIs (m : Member) (v1 f1 v2 f2 : String) (lt eq gt h : Bool) : Bool :=
  match objPair m v1 f1 v2 f2 with
  | .ok ((l, e, g), hh) => l == lt && e == eq && g == gt && hh == h
  | .error _ => false

/-- different spellings of one value: equal, not ordered, same hash — for all five formatters -/
theorem C14_hash_spellings :
    objPairIs (Members.serial []) "007" "%n" "7" "%n" false true false true = true
  ∧ objPairIs (Members.serial []) "111" "%b" "7" "%n" false true false true = true
  ∧ objPairIs (Members.datetime []) "2024-01-05" "%Y-%m-%d" "5 January 2024" "%-d %B %Y" false true false true = true
  ∧ objPairIs (Members.datetime []) "5/1/2024 3 PM" "%-d/%-m/%Y %-I %p" "2024-01-05T15" "%Y-%m-%dT%H" false true false true = true
  ∧ objPairIs (Members.naming []) "data engineer" "%n" "DataEngineer" "%p" false true false true = true
  ∧ objPairIs (Members.naming []) "data_engineer" "%s" "DATA-ENGINEER" "%K" false true false true = true
  ∧ objPairIs (Members.storage []) "008" "%b" "1B" "%B" false true false true = true
  ∧ objPairIs (Members.storage []) "8192" "%b" "1KB" "%K" false true false true = true
  ∧ objPairIs (Members.version []) "1.2.3rc.1" "%m.%n.%c%q" "1.2.3-c_1" "%m.%n.%c-%q" false true false true = true
  ∧ objPairIs (Members.version []) "1.2.3+a.1" "%m.%n.%c%l" "1.2.3+a-1" "%m.%n.%c%l" false true false true = true
  ∧ objPairIs (Members.version []) "0!1.2.3" "%e%m.%n.%c" "1_2_3" "%f" false true false true = true := by
  decide +kernel

/-- different values: ordered as the values, not equal -/
theorem C14_order_instances :
    objPairIs (Members.serial []) "0099" "%n" "100" "%n" true false false false = true
  ∧ objPairIs (Members.serial []) "1,000" "%c" "999" "%p" false false true false = true
  ∧ objPairIs (Members.datetime []) "2024-01-05" "%Y-%m-%d" "20240106" "%Y%m%d" true false false false = true
  ∧ objPairIs (Members.naming []) "data engineer" "%n" "DataEngineering" "%p" true false false false = true
  ∧ objPairIs (Members.storage []) "1KB" "%K" "1023B" "%B" false false true false = true
  ∧ objPairIs (Members.version []) "1.2.3rc1" "%m.%n.%c%q" "1.2.3" "%m.%n.%c" true false false false = true
  ∧ objPairIs (Members.version []) "1.2.3.post1" "%m.%n.%c.%p" "1.2.3" "%m.%n.%c" false false true false = true := by
  decide +kernel

def declSN : Decl := [Members.serial "s".toList, Members.naming "name".toList]

def grp (s : String) : R GObj := Group.parse declSN s.toList "{s:%n}_{name:%s}".toList

def grpCmp (x y : String) : R (Bool × Bool × Bool) := do
  let a ← grp x
  let b ← grp y
  pure (← Group.lt declSN a b, ← Group.eq declSN a b, ← Group.gt declSN a b)

/-- the product order on a concrete declaration: smaller, equal across spellings, incomparable -/
theorem C14_group_instances :
    grpCmp "1_a_b" "2_a_b" = .ok (true, false, false)
  ∧ grpCmp "1_a_b" "2_a_c" = .ok (true, false, false)
  ∧ grpCmp "2_a_b" "1_a_b" = .ok (false, false, true)
  ∧ grpCmp "001_a_b" "1_a_b" = .ok (false, true, false)
  ∧ grpCmp "1_a_c" "2_a_b" = .ok (false, false, false)
  ∧ grpCmp "2_a_b" "1_a_c" = .ok (false, false, false) := by decide +kernel

/-- the hypotheses of the group theorems are satisfiable: `declSN` has lawful members on the full domain -/
theorem declSN_lawful : ∀ m ∈ declSN, Lawful m ((fun _ _ => True : (m : Member) → m.Val → Prop) m) := by
  intro m hm
  simp only [declSN, List.mem_cons, List.mem_nil_iff, or_false] at hm
  rcases hm with rfl | rfl
  · exact C14_lawful_serial _
  · exact C14_lawful_naming _

example (a b c : GObj) (h1 : Group.lt declSN a b = .ok true) (h2 : Group.lt declSN b c = .ok true) :
    Group.lt declSN a c = .ok true :=
  C14_group_trans (fun _ _ => True) declSN declSN_lawful a b c (fun _ _ _ _ => trivial) (fun _ _ _ _ => trivial)
    (fun _ _ _ _ => trivial) h1 h2

end C14
