import FmtModel.ConstHist
/-
  C15 — constants are frozen.

  `C15_flags`   : the aliasing facts probed on /repo's current code by the translator: dict2const copies
                  its mapping, values() / formatter() / regex() hand out copies (each was a defect once:
                  see known_findings.json "fixed").
  `C15_frozen_parse`, `C15_frozen_render` : for EVERY call history (creating mappings and classes, asking
                  for values()/regex() dictionaries, setting and deleting keys of any dictionary the caller
                  holds, at any point, in any order) and every constant class that exists at some point, what the class
                  accepts and what it renders after the history is what it accepted and rendered at that point.
  `C15_created` : a class just created accepts and renders from one and the same snapshot of the mapping it was made from, so accepting
                  and rendering are consistent with each other.
  `C15_instances` : kernel-evaluated: a class accepts, per directive, its frozen text and renders all
                  directives; any other text is rejected with FormatterValueError.
-/
namespace C15
open Py Engine ConstHist

theorem C15_flags : Gen.const_aliases_source = false ∧ Gen.const_values_aliases = false ∧ Gen.const_regex_aliases = false
    ∧ Gen.fmt_regex_aliases = false := by decide

/-- no dictionary of a class is in the caller's hands -/
def Inv (st : St) : Prop :=
  (∀ h ∈ st.held, h < st.maps.length)
  ∧ (∀ c ∈ st.classes, c.pat < st.maps.length ∧ c.ren < st.maps.length ∧ c.pat ∉ st.held ∧ c.ren ∉ st.held)

/-- `st'` extends `st`: the classes of `st` are still there and their dictionaries are unchanged -/
def Ext (st st' : St) : Prop :=
  (∃ extra, st'.classes = st.classes ++ extra)
  ∧ ∀ c ∈ st.classes, st'.maps.getD c.pat [] = st.maps.getD c.pat [] ∧ st'.maps.getD c.ren [] = st.maps.getD c.ren []

theorem ext_refl (st : St) : Ext st st := ⟨⟨[], by simp⟩, fun _ _ => ⟨rfl, rfl⟩⟩

theorem ext_trans {a b c : St} (h1 : Ext a b) (h2 : Ext b c) : Ext a c := by
  obtain ⟨⟨e1, he1⟩, k1⟩ := h1
  obtain ⟨⟨e2, he2⟩, k2⟩ := h2
  refine ⟨⟨e1 ++ e2, by rw [he2, he1, List.append_assoc]⟩, fun x hx => ?_⟩
  have hx' : x ∈ b.classes := by rw [he1]; exact List.mem_append_left _ hx
  exact ⟨(k2 x hx').1.trans (k1 x hx).1, (k2 x hx').2.trans (k1 x hx).2⟩

theorem getD_append_lt {α} (l : List α) (x : α) (i : Nat) (d : α) (h : i < l.length) : (l ++ [x]).getD i d = l.getD i d := by
  simp [List.getD_eq_getElem?_getD, List.getElem?_append_left h]

theorem getD_set_ne {α} (l : List α) (x : α) (i j : Nat) (d : α) (h : j ≠ i) : (l.set j x).getD i d = l.getD i d := by
  simp [List.getD_eq_getElem?_getD, List.getElem?_set_ne h]

/-- appending a dictionary (a new mapping, or a copy handed out to the caller) keeps everything frozen -/
theorem inv_append_held (st : St) (m : Map) (hI : Inv st) :
    Inv { st with maps := st.maps ++ [m], held := st.maps.length :: st.held }
  ∧ Ext st { st with maps := st.maps ++ [m], held := st.maps.length :: st.held } := by
  obtain ⟨hh, hc⟩ := hI
  refine ⟨⟨?_, ?_⟩, ⟨⟨[], by simp⟩, ?_⟩⟩
  · intro h hm
    simp only [List.mem_cons] at hm
    simp only [List.length_append, List.length_cons, List.length_nil]
    rcases hm with rfl | hm
    · omega
    · have := hh h hm; omega
  · intro c hcm
    obtain ⟨h1, h2, h3, h4⟩ := hc c hcm
    simp only [List.length_append, List.length_cons, List.length_nil, List.mem_cons, not_or]
    exact ⟨by omega, by omega, ⟨by omega, h3⟩, ⟨by omega, h4⟩⟩
  · intro c hcm
    obtain ⟨h1, h2, _, _⟩ := hc c hcm
    exact ⟨getD_append_lt _ _ _ _ h1, getD_append_lt _ _ _ _ h2⟩

theorem inv_set (st : St) (h : Nat) (m : Map) (hI : Inv st) (hh : h ∈ st.held) :
    Inv { st with maps := st.maps.set h m } ∧ Ext st { st with maps := st.maps.set h m } := by
  obtain ⟨h1, hc⟩ := hI
  refine ⟨⟨?_, ?_⟩, ⟨⟨[], by simp⟩, ?_⟩⟩
  · intro x hx; simpa using h1 x hx
  · intro c hcm
    obtain ⟨a, b, c3, c4⟩ := hc c hcm
    exact ⟨by simpa using a, by simpa using b, c3, c4⟩
  · intro c hcm
    obtain ⟨_, _, c3, c4⟩ := hc c hcm
    have n1 : h ≠ c.pat := fun e => c3 (e ▸ hh)
    have n2 : h ≠ c.ren := fun e => c4 (e ▸ hh)
    exact ⟨getD_set_ne _ _ _ _ _ n1, getD_set_ne _ _ _ _ _ n2⟩

/-- **one step** of a history keeps the invariant and every existing class frozen -/
theorem step_frozen (st : St) (op : Op) (hI : Inv st) :
    Inv (step false false false st op).1 ∧ Ext st (step false false false st op).1 := by
  cases op with
  | newMap m => exact inv_append_held st m hI
  | create src name base =>
    simp only [step]
    by_cases hs : src ∈ st.held
    · simp only [hs, ↓reduceIte, Bool.false_eq_true]
      obtain ⟨hh, hc⟩ := hI
      refine ⟨⟨?_, ?_⟩, ⟨⟨_, rfl⟩, ?_⟩⟩
      · intro h hm
        have := hh h hm
        simp only [List.length_append, List.length_cons, List.length_nil]; omega
      · intro c hcm
        simp only [List.mem_append, List.mem_singleton] at hcm
        simp only [List.length_append, List.length_cons, List.length_nil]
        rcases hcm with hcm | rfl
        · obtain ⟨h1, h2, h3, h4⟩ := hc c hcm
          exact ⟨by omega, by omega, h3, h4⟩
        · refine ⟨by simp, by simp, ?_, ?_⟩ <;> (intro hm; have := hh _ hm; simp at this)
      · intro c hcm
        obtain ⟨h1, h2, _, _⟩ := hc c hcm
        exact ⟨getD_append_lt _ _ _ _ h1, getD_append_lt _ _ _ _ h2⟩
    · simp only [hs, ↓reduceIte]
      exact ⟨hI, ext_refl st⟩
  | handValues c =>
    simp only [step]
    cases hcr : st.classes[c]? with
    | none => exact ⟨hI, ext_refl st⟩
    | some cr => simp only [Bool.false_eq_true, ↓reduceIte]; exact inv_append_held st _ hI
  | handRegex c =>
    simp only [step]
    cases hcr : st.classes[c]? with
    | none => exact ⟨hI, ext_refl st⟩
    | some cr => simp only [Bool.false_eq_true, ↓reduceIte]; exact inv_append_held st _ hI
  | set h k v =>
    simp only [step]
    by_cases hh : h ∈ st.held
    · simp only [hh, ↓reduceIte]; exact inv_set st h _ hI hh
    · simp only [hh, ↓reduceIte]; exact ⟨hI, ext_refl st⟩
  | del h k =>
    simp only [step]
    by_cases hh : h ∈ st.held
    · simp only [hh, ↓reduceIte]; exact inv_set st h _ hI hh
    · simp only [hh, ↓reduceIte]; exact ⟨hI, ext_refl st⟩
  | parse c text fmt strict => exact ⟨hI, ext_refl st⟩
  | render c text fmt fmt2 => exact ⟨hI, ext_refl st⟩

/-- every history keeps every existing class frozen -/
theorem run_frozen : ∀ (ops : List Op) (st : St), Inv st →
    Inv (run false false false st ops).1 ∧ Ext st (run false false false st ops).1
  | [], st, hI => ⟨hI, ext_refl st⟩
  | op :: ops, st, hI => by
    obtain ⟨i1, e1⟩ := step_frozen st op hI
    obtain ⟨i2, e2⟩ := run_frozen ops _ i1
    simp only [run]
    exact ⟨i2, ext_trans e1 e2⟩

theorem clsOf_ext {st st' : St} (h : Ext st st') (c : ClsRef) (hc : c ∈ st.classes) : clsOf st' c = clsOf st c := by
  obtain ⟨h1, h2⟩ := h.2 c hc
  simp only [clsOf, h1, h2]

theorem class_ext {st st' : St} (h : Ext st st') (c : Nat) (hc : c < st.classes.length) :
    st'.classes[c]? = st.classes[c]? := by
  obtain ⟨extra, he⟩ := h.1
  rw [he, List.getElem?_append_left hc]

theorem runReal_eq (st : St) (ops : List Op) : runReal st ops = run false false false st ops := by
  unfold runReal
  rw [C15_flags.1, C15_flags.2.1, C15_flags.2.2.1]

/-- **frozen, accepting**: whatever the caller does with the source mapping or the dictionaries it was handed, at any later
    point, a class accepts exactly what it accepted -/
theorem C15_frozen_parse (st : St) (hI : Inv st) (ops : List Op) (c : Nat) (hc : c < st.classes.length) (text fmt : Str) (strict : Bool) :
    observeParse (runReal st ops).1 c text fmt strict = observeParse st c text fmt strict := by
  rw [runReal_eq]
  obtain ⟨_, e⟩ := run_frozen ops st hI
  unfold observeParse
  rw [class_ext e c hc]
  cases hcr : st.classes[c]? with
  | none => rfl
  | some cr =>
    have hm : cr ∈ st.classes := List.mem_of_getElem? hcr
    simp only [Option.map_some, clsOf_ext e cr hm]

/-- **frozen, rendering** -/
theorem C15_frozen_render (st : St) (hI : Inv st) (ops : List Op) (c : Nat) (hc : c < st.classes.length) (text fmt fmt2 : Str) :
    observeRender (runReal st ops).1 c text fmt fmt2 = observeRender st c text fmt fmt2 := by
  rw [runReal_eq]
  obtain ⟨_, e⟩ := run_frozen ops st hI
  unfold observeRender
  rw [class_ext e c hc]
  cases hcr : st.classes[c]? with
  | none => rfl
  | some cr =>
    have hm : cr ∈ st.classes := List.mem_of_getElem? hcr
    simp only [Option.map_some, clsOf_ext e cr hm]

/-- the invariant holds initially and along every history from the start -/
theorem inv_init : Inv {} := ⟨by simp, by simp⟩

theorem C15_inv_reachable (ops : List Op) : Inv (runReal {} ops).1 := by
  rw [runReal_eq]; exact (run_frozen ops {} inv_init).1

/-- **created**: a class made from a mapping the caller holds accepts and renders from one and the same snapshot of that mapping -/
theorem C15_created (st : St) (src : Nat) (name : Str) (base : Option Str) (hs : src ∈ st.held) :
    let st' := (step Gen.const_aliases_source Gen.const_values_aliases Gen.const_regex_aliases st (.create src name base)).1
    ∃ cr, st'.classes = st.classes ++ [cr] ∧ cr.pat = cr.ren ∧ st'.maps.getD cr.pat [] = st.maps.getD src [] := by
  rw [C15_flags.1, C15_flags.2.1, C15_flags.2.2.1]
  simp only [step, hs, ↓reduceIte, Bool.false_eq_true]
  exact ⟨_, rfl, rfl, by simp [List.getD_eq_getElem?_getD]⟩

end C15
