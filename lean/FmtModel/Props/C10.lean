import FmtModel.Lemmas.VerOrder
/-
  C10 — version match expressions denote the documented version sets.

  Quantifier: all versions `v`, `w` of one class whose comparison key exists (numbers unbounded),
  all nine operators and the bare form; every expression whose first character is neither an
  operator character nor a digit.  The operator tables (`Gen.match_*`) are regenerated from the
  source, so the theorems are re-checked against what `match` says now.
-/
namespace C10
open Ver Py Std

-- the expression is split into (operator, version text) -------------------------------------------

/-- a two-character operator is recognised whatever follows -/
theorem C10_split_two (op : Str) (hop : op ∈ Gen.match_ops2) (hlen : op.length = 2) (m : Str) :
    validateExprMatch (op ++ m) = .ok (op, m) := by
  have h1 : (op ++ m).take 2 = op := by
    rw [← hlen, List.take_left']
    rfl
  have h2 : (op ++ m).drop 2 = m := by
    rw [← hlen, List.drop_left']
    rfl
  unfold validateExprMatch
  simp only [h1, h2]
  simp [hop]

/-- a one-character operator in front of a version (first character a digit) -/
theorem C10_split_one (c d : Char) (hc : [c] ∈ Gen.match_ops1) (hd : isAsciiDigit d = true) (rest : Str) :
    validateExprMatch (c :: d :: rest) = .ok ([c], d :: rest) := by
  have hne : d ≠ '=' := by
    intro h; subst h; simp [isAsciiDigit] at hd
  have h2 : Gen.match_ops2.contains [c, d] = false := by
    simp only [Gen.match_ops2, List.contains_cons, List.contains_nil, Bool.or_false]
    simp [hne]
  have h2' : ¬ [c, d] ∈ Gen.match_ops2 := by simpa using h2
  unfold validateExprMatch
  simp [h2', hc]

/-- a bare version means `==` -/
theorem C10_split_bare (d : Char) (hd : isAsciiDigit d = true) (rest : Str) :
    validateExprMatch (d :: rest) = .ok ("==".toList, d :: rest) := by
  have hdig : Gen.match_bare_first.contains d = true := by
    have : '0' ≤ d ∧ d ≤ '9' := by simpa [isAsciiDigit] using hd
    obtain ⟨h0, h9⟩ := this
    have h0' : 48 ≤ d.toNat := h0
    have h9' : d.toNat ≤ 57 := h9
    have : d = '0' ∨ d = '1' ∨ d = '2' ∨ d = '3' ∨ d = '4' ∨ d = '5' ∨ d = '6' ∨ d = '7' ∨ d = '8' ∨ d = '9' := by
      have e : ∀ k : Nat, d.toNat = k → d = Char.ofNat k := fun k h => by rw [← h, Char.ofNat_toNat]
      have : d.toNat = 48 ∨ d.toNat = 49 ∨ d.toNat = 50 ∨ d.toNat = 51 ∨ d.toNat = 52 ∨ d.toNat = 53 ∨
          d.toNat = 54 ∨ d.toNat = 55 ∨ d.toNat = 56 ∨ d.toNat = 57 := by omega
      rcases this with h | h | h | h | h | h | h | h | h | h <;> simp [e _ h]
    rcases this with h | h | h | h | h | h | h | h | h | h <;> subst h <;> decide
  have hnd : ∀ x : Char, isAsciiDigit d = true → (x == d) = true → isAsciiDigit x = true := by
    intro x h hx; simp at hx; subst hx; exact h
  have h2 : Gen.match_ops2.contains ((d :: rest).take 2) = false := by
    cases rest with
    | nil => simp [Gen.match_ops2]
    | cons e r =>
      simp only [List.take, Gen.match_ops2, List.contains_cons, List.contains_nil, Bool.or_false]
      have : d ≠ '>' ∧ d ≠ '<' ∧ d ≠ '=' ∧ d ≠ '!' ∧ d ≠ '~' := by
        refine ⟨?_, ?_, ?_, ?_, ?_⟩ <;> (intro h; subst h; simp [isAsciiDigit] at hd)
      simp [this.1, this.2.1, this.2.2.1, this.2.2.2.1, this.2.2.2.2]
  have h1 : Gen.match_ops1.contains [d] = false := by
    simp only [Gen.match_ops1, List.contains_cons, List.contains_nil, Bool.or_false]
    have : d ≠ '>' ∧ d ≠ '<' ∧ d ≠ '^' ∧ d ≠ '~' := by
      refine ⟨?_, ?_, ?_, ?_⟩ <;> (intro h; subst h; simp [isAsciiDigit] at hd)
    simp [this.1, this.2.1, this.2.2.1, this.2.2.2]
  have h1' : ¬ [d] ∈ Gen.match_ops1 := by simpa using h1
  have hdig' : d ∈ Gen.match_bare_first := by simpa using hdig
  unfold validateExprMatch
  cases rest with
  | nil =>
    have h2' : ¬ [d] ∈ Gen.match_ops2 := by simpa using h2
    simp [h1', hdig', h2']
  | cons e r =>
    have h2' : ¬ [d, e] ∈ Gen.match_ops2 := by simpa using h2
    simp [h2', h1', hdig']

/-- malformed: the empty expression raises ValueError instead of answering -/
theorem C10_malformed_empty (v : Obj) : matchExpr v [] = .error .pyValue := by
  have : ¬ ([] : Str) ∈ Gen.match_ops2 := by decide
  simp [matchExpr, validateExprMatch, bind, Except.bind, this]

/-- malformed: an expression that starts with neither an operator character nor a digit
    (an unknown operator such as `=1.2.3`, a leading space, a letter) raises ValueError -/
theorem C10_malformed_first (v : Obj) (c : Char) (rest : Str)
    (h2 : Gen.match_ops2.contains ((c :: rest).take 2) = false)
    (h1 : Gen.match_ops1.contains [c] = false) (hd : Gen.match_bare_first.contains c = false) :
    matchExpr v (c :: rest) = .error .pyValue := by
  have h1' : ¬ [c] ∈ Gen.match_ops1 := by simpa using h1
  have hd' : ¬ c ∈ Gen.match_bare_first := by simpa using hd
  unfold matchExpr validateExprMatch
  cases rest with
  | nil =>
    have h2' : ¬ [c] ∈ Gen.match_ops2 := by simpa using h2
    simp [bind, Except.bind, h1', hd', h2']
  | cons e r =>
    have h2' : ¬ [c, e] ∈ Gen.match_ops2 := by simpa using h2
    simp [bind, Except.bind, h1', hd', h2']

-- the operator semantics -----------------------------------------------------------------------------

theorem core_plain (v w : Obj) (op : Str) (c : Int) (p : List Int) (hp : possibility op = some p)
    (ht : Gen.match_tilde_ops.contains op = false) (hk : (op == ['^']) = false) :
    matchCore v op w c = .ok (p.contains c) := by
  have ht' : ¬ op ∈ Gen.match_tilde_ops := by simpa using ht
  have hk' : ¬ op = ['^'] := by simpa using hk
  simp [matchCore, hp, ht', hk', bind, Except.bind, pure, Except.pure]

section Ops
variable {v w : Obj} {kv kw : AKey}

/-- `>`, `<`, `==`, `!=`, `>=`, `<=` coincide with the comparison operators -/
theorem C10_compare_ops (hc : v.cls = w.cls) (hv : akey v = .ok kv) (hw : akey w = .ok kw) :
    ∃ c, vcompare v (.obj w) = .ok c
      ∧ matchCore v ">".toList w c = richCmp .gt v (.obj w)
      ∧ matchCore v "<".toList w c = richCmp .lt v (.obj w)
      ∧ matchCore v "==".toList w c = richCmp .eq v (.obj w)
      ∧ matchCore v "!=".toList w c = richCmp .ne v (.obj w)
      ∧ matchCore v ">=".toList w c = richCmp .ge v (.obj w)
      ∧ matchCore v "<=".toList w c = richCmp .le v (.obj w) := by
  obtain ⟨o, ho, hcmp⟩ := compare_obj hc hv hw
  obtain ⟨o', ho', r⟩ := rich_spec hc hv hw
  have : o' = o := Option.some.inj (ho'.symm.trans ho)
  subst this
  refine ⟨_, hcmp, ?_, ?_, ?_, ?_, ?_, ?_⟩
  · rw [core_plain v w _ _ [1] (by decide +kernel) (by decide +kernel) (by decide +kernel), r .gt]
    cases o' <;> rfl
  · rw [core_plain v w _ _ [-1] (by decide +kernel) (by decide +kernel) (by decide +kernel), r .lt]
    cases o' <;> rfl
  · rw [core_plain v w _ _ [0] (by decide +kernel) (by decide +kernel) (by decide +kernel), r .eq]
    cases o' <;> rfl
  · rw [core_plain v w _ _ [-1, 1] (by decide +kernel) (by decide +kernel) (by decide +kernel), r .ne]
    cases o' <;> rfl
  · rw [core_plain v w _ _ [0, 1] (by decide +kernel) (by decide +kernel) (by decide +kernel), r .ge]
    cases o' <;> rfl
  · rw [core_plain v w _ _ [-1, 0] (by decide +kernel) (by decide +kernel) (by decide +kernel), r .le]
    cases o' <;> rfl

/-- the bounds `^` and `~=` compare against always have a key -/
theorem akey_mkPlain (c : Cls) (a b d : Nat) : ∃ k, akey (mkPlain c a b d) = .ok k := by
  cases c
  · exact ⟨_, rfl⟩
  · exact ⟨.sem (necessaryRelease [a, b, d], Sent.inf), by
      simp [akey, mkPlain, semKey, truthyStr, Except.map, bind, Except.bind, pure, Except.pure]⟩
  · exact ⟨.pkg (0, necessaryRelease [a, b, d], Sent.inf, Sent.ninf, Sent.inf, Sent.ninf), by
      simp [akey, mkPlain, pkgKey, pkgPre, pkgPost, pkgDev, pkgLoc, truthyStr, Except.map, bind, Except.bind, pure, Except.pure]⟩

theorem akey_caretPair (c : Cls) (w : Obj) : ∃ k, akey (caretPair c w) = .ok k := by
  unfold caretPair; split
  · exact akey_mkPlain ..
  · split
    · exact akey_mkPlain ..
    · split <;> exact akey_mkPlain ..

theorem akey_tildePair (c : Cls) (w : Obj) : ∃ k, akey (tildePair c w) = .ok k := by
  unfold tildePair; split
  · exact akey_mkPlain ..
  · split
    · exact akey_mkPlain ..
    · split <;> exact akey_mkPlain ..

theorem cls_mkPlain (c : Cls) (a b d : Nat) : (mkPlain c a b d).cls = c := rfl
theorem cls_caretPair (c : Cls) (w : Obj) : (caretPair c w).cls = c := by
  unfold caretPair; split
  · rfl
  · split
    · rfl
    · split <;> rfl
theorem cls_tildePair (c : Cls) (w : Obj) : (tildePair c w).cls = c := by
  unfold tildePair; split
  · rfl
  · split
    · rfl
    · split <;> rfl

/-- `^w` means `w <= v < caretBound w` (first non-zero component incremented, later ones zeroed) -/
theorem C10_caret (hc : v.cls = w.cls) (hv : akey v = .ok kv) (hw : akey w = .ok kw) :
    ∃ c ge lt, vcompare v (.obj w) = .ok c
      ∧ richCmp .ge v (.obj w) = .ok ge ∧ richCmp .lt v (.obj (caretPair v.cls w)) = .ok lt
      ∧ matchCore v "^".toList w c = .ok (ge && lt) := by
  obtain ⟨o, ho, hcmp⟩ := compare_obj hc hv hw
  obtain ⟨o', ho', r⟩ := rich_spec hc hv hw
  have : o' = o := Option.some.inj (ho'.symm.trans ho)
  subst this
  obtain ⟨kp, hkp⟩ := akey_caretPair v.cls w
  have hcp : v.cls = (caretPair v.cls w).cls := (cls_caretPair _ _).symm
  obtain ⟨o2, ho2, hcmp2⟩ := compare_obj hcp hv hkp
  obtain ⟨o2', ho2', r2⟩ := rich_spec hcp hv hkp
  have : o2' = o2 := Option.some.inj (ho2'.symm.trans ho2)
  subst this
  refine ⟨_, _, _, hcmp, r .ge, r2 .lt, ?_⟩
  have hp : possibility "^".toList = some [0, 1] := by decide +kernel
  have ht : Gen.match_tilde_ops.contains "^".toList = false := by decide +kernel
  simp only [matchCore, hp, ht, hcmp2, bind, Except.bind, pure, Except.pure]
  cases o' <;> cases o2' <;> rfl

/-- `~=w` and `~w` mean `w <= v <` next minor when `w` has a non-zero patch, next major otherwise -/
theorem C10_tilde (hc : v.cls = w.cls) (hv : akey v = .ok kv) (hw : akey w = .ok kw) (op : Str)
    (hop : op = "~=".toList ∨ op = "~".toList) :
    ∃ c ge lt, vcompare v (.obj w) = .ok c
      ∧ richCmp .ge v (.obj w) = .ok ge ∧ richCmp .lt v (.obj (tildePair v.cls w)) = .ok lt
      ∧ matchCore v op w c = .ok (ge && lt) := by
  obtain ⟨o, ho, hcmp⟩ := compare_obj hc hv hw
  obtain ⟨o', ho', r⟩ := rich_spec hc hv hw
  have : o' = o := Option.some.inj (ho'.symm.trans ho)
  subst this
  obtain ⟨kp, hkp⟩ := akey_tildePair v.cls w
  have hcp : v.cls = (tildePair v.cls w).cls := (cls_tildePair _ _).symm
  obtain ⟨o2, ho2, hcmp2⟩ := compare_obj hcp hv hkp
  obtain ⟨o2', ho2', r2⟩ := rich_spec hcp hv hkp
  have : o2' = o2 := Option.some.inj (ho2'.symm.trans ho2)
  subst this
  refine ⟨_, _, _, hcmp, r .ge, r2 .lt, ?_⟩
  rcases hop with rfl | rfl
  · have hp : possibility "~=".toList = some [0, 1] := by decide +kernel
    have ht : Gen.match_tilde_ops.contains "~=".toList = true := by decide +kernel
    simp only [matchCore, hp, ht, hcmp2, bind, Except.bind, pure, Except.pure]
    cases o' <;> cases o2' <;> rfl
  · have hp : possibility "~".toList = some [0, 1] := by decide +kernel
    have ht : Gen.match_tilde_ops.contains "~".toList = true := by decide +kernel
    simp only [matchCore, hp, ht, hcmp2, bind, Except.bind, pure, Except.pure]
    cases o' <;> cases o2' <;> rfl

/-- the tilde bound is the documented one -/
theorem C10_tilde_bound (c : Cls) (w : Obj) :
    tildePair c w = if w.patch > 0 then mkPlain c w.major (w.minor + 1) 0 else mkPlain c (w.major + 1) 0 0 := by
  unfold tildePair
  by_cases hp : w.patch = 0
  · by_cases hm : w.minor = 0
    · simp [hp, hm]
    · have : w.minor > 0 := Nat.pos_of_ne_zero hm
      simp [hp, hm, this]
  · have : w.patch > 0 := Nat.pos_of_ne_zero hp
    simp [hp, this]

/-- the caret bound: the first non-zero component incremented, the later ones zeroed -/
theorem C10_caret_bound (c : Cls) (w : Obj) :
    caretPair c w =
      if w.major > 0 then mkPlain c (w.major + 1) 0 0
      else if w.minor > 0 then mkPlain c 0 (w.minor + 1) 0
      else if w.patch > 0 then mkPlain c 0 0 (w.patch + 1) else mkPlain c 0 0 0 := rfl

end Ops

/-- from the expression to the core: once the expression is split and its version text parses,
    `match` is `matchCore` on the parsed version -/
theorem C10_expr (v w : Obj) (op m : Str) (c : Int)
    (hs : validateExprMatch (op ++ m) = .ok (op, m)) (hposs : (possibility op).isSome = true)
    (hp : parse v.cls m = .ok w) (hc : vcompare v (.obj w) = .ok c) :
    matchExpr v (op ++ m) = matchCore v op w c := by
  have hstr : vcompare v (.str m) = vcompare v (.obj w) := by
    have hw : w.cls = v.cls := parse_cls hp
    simp only [vcompare, coerce, hp, hw, ↓reduceIte]
  unfold matchExpr
  simp only [hs, bind, Except.bind]
  cases hq : possibility op with
  | none => simp [hq] at hposs
  | some p => simp [hstr, hc, hp]

-- non-vacuity / end-to-end instances (kernel-evaluated on the regenerated tables) ------------------

def okIs (b : Bool) : R Bool → Bool
  | .ok x => x == b
  | _ => false

def isErr (e : Err) : R Bool → Bool
  | .error x => x == e
  | _ => false

example : okIs true (do let v ← parse .sem "0.24.25-rc1".toList; matchExpr v "^0.24.1".toList) = true := by decide +kernel
example : okIs false (do let v ← parse .base "0.25.0".toList; matchExpr v "^0.24.1".toList) = true := by decide +kernel
example : okIs true (do let v ← parse .pkg "1.4.9".toList; matchExpr v "~=1.4.5".toList) = true := by decide +kernel
example : okIs false (do let v ← parse .pkg "1.5.0".toList; matchExpr v "~=1.4.5".toList) = true := by decide +kernel
example : okIs true (do let v ← parse .base "10.0.0".toList; matchExpr v ">9.99.99".toList) = true := by decide +kernel
example : isErr .pyValue (do let v ← parse .base "1.2.3".toList; matchExpr v "=1.2.3".toList) = true := by decide +kernel
example : isErr .pyValue (do let v ← parse .base "1.2.3".toList; matchExpr v ">= 1.2.3".toList) = true := by decide +kernel
example : isErr .pyValue (do let v ← parse .base "1.2.3".toList; matchExpr v "~1.2".toList) = true := by decide +kernel

end C10
