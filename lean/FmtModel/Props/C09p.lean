import FmtModel.Props.C09g
/-
  C09 — the zero-padded directive `%p` on its WHOLE domain: for every n < 1000 and both modes, parsing the
  three-digit text of n with `%p` yields value n, and `%p` renders n as that text (kernel evaluation of the
  complete finite domain, in chunks; the domain of `%p` is n < 1000 — a three-digit field).
-/
namespace C09
open Py Engine

/-- `%p` renders n as its three-digit text, and `Serial.parse(text, "%p")` has value n -/
def padOk (n : Nat) (strict : Bool) : Bool :=
  let text := rjust (showNat n) 3 '0'
  decide (Serial.cls.render "%p".toList n = .ok text) &&
  (match Engine.parse Serial.cls text (some "%p".toList) strict with
   | .ok o => Serial.value o == .ok n
   | .error _ => false)

def padChunk (lo : Nat) : Bool := (List.range 200).all fun i => padOk (lo + i) false && padOk (lo + i) true

theorem C09_pad_0 : padChunk 0 = true := by decide +kernel
theorem C09_pad_200 : padChunk 200 = true := by decide +kernel
theorem C09_pad_400 : padChunk 400 = true := by decide +kernel
theorem C09_pad_600 : padChunk 600 = true := by decide +kernel
theorem C09_pad_800 : padChunk 800 = true := by decide +kernel

/-- **`%p` on its whole domain** -/
theorem C09_serial_pad (n : Nat) (hn : n < 1000) (strict : Bool) : padOk n strict = true := by
  have key : ∀ lo, padChunk lo = true → ∀ i < 200, padOk (lo + i) false = true ∧ padOk (lo + i) true = true := by
    intro lo h i hi
    have := (List.all_eq_true.mp h) i (List.mem_range.mpr hi)
    simpa [Bool.and_eq_true] using this
  have hm : n % 200 < 200 := Nat.mod_lt _ (by omega)
  have hq : n / 200 = 0 ∨ n / 200 = 1 ∨ n / 200 = 2 ∨ n / 200 = 3 ∨ n / 200 = 4 := by omega
  have pick : padOk n false = true ∧ padOk n true = true := by
    rcases hq with h | h | h | h | h
    · have e : n = 0 + n % 200 := by omega
      rw [e]; exact key 0 C09_pad_0 _ hm
    · have e : n = 200 + n % 200 := by omega
      rw [e]; exact key 200 C09_pad_200 _ hm
    · have e : n = 400 + n % 200 := by omega
      rw [e]; exact key 400 C09_pad_400 _ hm
    · have e : n = 600 + n % 200 := by omega
      rw [e]; exact key 600 C09_pad_600 _ hm
    · have e : n = 800 + n % 200 := by omega
      rw [e]; exact key 800 C09_pad_800 _ hm
  cases strict
  · exact pick.1
  · exact pick.2

end C09
