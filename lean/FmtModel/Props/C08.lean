import FmtModel.Classes.Naming
/-
  C08 — Naming renders every case style by its textbook definition.

  * `C08_render` : for EVERY list of words over [a-z0-9] (any number of words, any length) and each of
    the 22 directives, the renderer gives the textbook form `Spec.style` — the styles are written here
    from their definitions (join with a separator after mapping lower / upper / capitalise; camel and
    Pascal as concatenation of capitalised words; flat; initials; vowel-less).  The only renderers whose
    mechanism differs from the definition are camel/Pascal (the code substitutes `(?:^|_)(.)` in the
    snake form): `pascal_join` proves that mechanism equal to the definition by induction on the words.
  * `C08_grid_*` : on the complete grid of names of 1..2 words over {a, e, b, d, 1} up to 2 letters,
    kernel evaluation of parse-back, mutual consistency and rejection (the pinned-pattern families
    recorded as findings are excluded exactly as in the sweep).
-/
namespace C08
open Py Engine Naming

def WordChar (c : Char) : Bool := isAsciiLower c || isAsciiDigit c
def Word (w : Str) : Prop := w ≠ [] ∧ ∀ c ∈ w, WordChar c = true

namespace Spec
def upFirst : Str → Str
  | [] => []
  | c :: cs => upperC c :: cs
def vowelless (s : Str) : Str := s.filter fun c => !(c == 'a' || c == 'e' || c == 'i' || c == 'o' || c == 'u')
def vowellessU (s : Str) : Str := s.filter fun c => !(c == 'A' || c == 'E' || c == 'I' || c == 'O' || c == 'U')
def flat (ws : List Str) : Str := ws.foldr (· ++ ·) []
def initials (ws : List Str) : Str := ws.flatMap fun w => w.take 1

/-- the textbook form of each style -/
def style (d : String) (ws : List Str) : Str :=
  match d with
  | "%n" | "%l" => join [' '] ws
  | "%N" | "%u" => join [' '] (ws.map upper)
  | "%-N" | "%t" => join [' '] (ws.map capitalize)
  | "%a" => initials ws
  | "%A" => upper (initials ws)
  | "%c" => match ws with | [] => [] | w :: rest => flat (w :: rest.map upFirst)
  | "%-c" | "%p" => flat (ws.map upFirst)
  | "%k" => join ['-'] ws
  | "%K" => join ['-'] (ws.map upper)
  | "%-K" | "%T" => join ['-'] (ws.map capitalize)
  | "%f" => flat ws
  | "%F" => upper (flat ws)
  | "%s" => join ['_'] ws
  | "%S" => join ['_'] (ws.map upper)
  | "%-S" => join ['_'] (ws.map capitalize)
  | "%v" => vowelless (flat ws)
  | "%V" => vowellessU (upper (flat ws))
  | _ => []
end Spec

theorem wordChar_isWord {c : Char} (h : WordChar c = true) : isWordU c = true := by
  simp only [WordChar, Bool.or_eq_true] at h
  rcases h with h | h <;> simp [isWordU, isAsciiWord, isAsciiAlpha, h]

theorem prepare_word {w : Str} (hw : ∀ c ∈ w, WordChar c = true) : prepareWord w = w := by
  unfold prepareWord
  apply List.filter_eq_self.mpr
  intro c hc
  simp [wordChar_isWord (hw c hc)]

theorem prepare_words {ws : List Str} (h : ∀ w ∈ ws, Word w) : ws.map prepareWord = ws := by
  induction ws with
  | nil => rfl
  | cons w rest ih =>
    simp only [List.map]
    rw [prepare_word (h w (by simp)).2, ih (fun x hx => h x (by simp [hx]))]

theorem wordChar_ne_us {c : Char} (h : WordChar c = true) : c ≠ '_' := by
  intro e; subst e; simp [WordChar, isAsciiLower, isAsciiDigit] at h
theorem wordChar_ne_nl {c : Char} (h : WordChar c = true) : c ≠ '\n' := by
  intro e; subst e; simp [WordChar, isAsciiLower, isAsciiDigit] at h

/-- inside a word the Pascal substitution copies the characters -/
theorem pascalGo_word (w : Str) (hw : ∀ c ∈ w, WordChar c = true) (tail : Str) :
    pascalGo (w ++ tail) = w ++ pascalGo tail := by
  induction w with
  | nil => rfl
  | cons c cs ih =>
    have hc := hw c (by simp)
    have hne := wordChar_ne_us hc
    have := ih (fun x hx => hw x (by simp [hx]))
    simp only [List.cons_append]
    rw [pascalGo]
    · rw [this]
    · intro c' rest h1 _; exact hne h1

/-- `_` followed by a word: the first character of the word is capitalised -/
theorem pascalGo_sep_word (w : Str) (hw : Word w) (tail : Str) :
    pascalGo ('_' :: (w ++ tail)) = Spec.upFirst w ++ pascalGo tail := by
  obtain ⟨hne, hc⟩ := hw
  cases w with
  | nil => exact absurd rfl hne
  | cons c cs =>
    have hcn := wordChar_ne_nl (hc c (by simp))
    have hb : (c != '\n') = true := by simp [hcn]
    simp only [List.cons_append, pascalGo, hb, ↓reduceIte, Spec.upFirst]
    rw [pascalGo_word cs (fun x hx => hc x (by simp [hx]))]

theorem pascalGo_rest (ws : List Str) (h : ∀ w ∈ ws, Word w) :
    pascalGo ((ws.flatMap fun w => '_' :: w)) = Spec.flat (ws.map Spec.upFirst) := by
  induction ws with
  | nil => rfl
  | cons w rest ih =>
    simp only [List.flatMap_cons, List.map, Spec.flat, List.foldr]
    have := pascalGo_sep_word w (h w (by simp)) (rest.flatMap fun w => '_' :: w)
    simp only [List.cons_append] at this ⊢
    rw [this, ih (fun x hx => h x (by simp [hx]))]
    rfl

theorem join_us (w : Str) (rest : List Str) : join ['_'] (w :: rest) = w ++ rest.flatMap fun x => '_' :: x := by
  induction rest generalizing w with
  | nil => simp [join]
  | cons r rs ih => simp [join, ih r]

/-- **the Pascal mechanism is the definition**: substituting `(?:^|_)(.)` in the snake form gives the
    concatenation of the capitalised words -/
theorem pascal_join (ws : List Str) (h : ∀ w ∈ ws, Word w) :
    pascalCase (join ['_'] ws) = Spec.flat (ws.map Spec.upFirst) := by
  cases ws with
  | nil => rfl
  | cons w rest =>
    obtain ⟨hne, hc⟩ := h w (by simp)
    rw [join_us]
    cases w with
    | nil => exact absurd rfl hne
    | cons c cs =>
      have hcn := wordChar_ne_nl (hc c (by simp))
      have hb : (c != '\n') = true := by simp [hcn]
      simp only [List.cons_append, pascalCase, hb, ↓reduceIte, List.map, Spec.flat, List.foldr, Spec.upFirst]
      rw [pascalGo_word cs (fun x hx => hc x (by simp [hx])), pascalGo_rest rest (fun x hx => h x (by simp [hx]))]
      rfl

theorem camel_join (w : Str) (rest : List Str) (h : ∀ x ∈ w :: rest, Word x) :
    camelCase (join ['_'] (w :: rest)) = Spec.flat (w :: rest.map Spec.upFirst) := by
  obtain ⟨hne, hc⟩ := h w (by simp)
  have hp := pascal_join (w :: rest) h
  cases w with
  | nil => exact absurd rfl hne
  | cons c cs =>
    have hlow : lowerC c = c := by
      have := hc c (by simp)
      simp only [WordChar, Bool.or_eq_true] at this
      have hnu : isAsciiUpper c = false := by
        rcases this with h1 | h1
        · simp only [isAsciiLower, Bool.and_eq_true, decide_eq_true_eq] at h1
          simp only [isAsciiUpper, Bool.and_eq_false_iff, decide_eq_false_iff_not]
          right; intro h2
          have a : 97 ≤ c.toNat := h1.1
          have b : c.toNat ≤ 90 := h2
          omega
        · simp only [isAsciiDigit, Bool.and_eq_true, decide_eq_true_eq] at h1
          simp only [isAsciiUpper, Bool.and_eq_false_iff, decide_eq_false_iff_not]
          left; intro h2
          have a : c.toNat ≤ 57 := h1.2
          have b : 65 ≤ c.toNat := h2
          omega
      simp [lowerC, hnu]
    rw [join_us] at hp ⊢
    simp only [List.cons_append, camelCase, hlow]
    simp only [List.cons_append] at hp
    rw [hp]
    simp [Spec.flat, List.foldr, Spec.upFirst, List.map]

theorem concat_eq_flat (ws : List Str) : Naming.concat ws = Spec.flat ws := rfl

theorem initials_eq (ws : List Str) : Naming.concat (ws.map firstOrEmpty) = Spec.initials ws := by
  induction ws with
  | nil => rfl
  | cons w rest ih =>
    simp only [List.map, Naming.concat, List.foldr, Spec.initials, List.flatMap_cons] at ih ⊢
    rw [ih]
    cases w <;> rfl

theorem initials_upper (ws : List Str) :
    Naming.concat (ws.map fun w => upper (firstOrEmpty w)) = upper (Spec.initials ws) := by
  induction ws with
  | nil => rfl
  | cons w rest ih =>
    simp only [List.map, Naming.concat, List.foldr, Spec.initials, List.flatMap_cons, upper, List.map_append] at ih ⊢
    rw [ih]
    cases w <;> rfl

theorem flat_upper (ws : List Str) : Naming.concat (ws.map upper) = upper (Spec.flat ws) := by
  induction ws with
  | nil => rfl
  | cons w rest ih =>
    simp only [List.map, Naming.concat, List.foldr, Spec.flat, upper, List.map_append] at ih ⊢
    rw [ih]

/-- **rendering**: every directive renders the textbook form, for all names over [a-z0-9] -/
theorem C08_render (ws : List Str) (h : ∀ w ∈ ws, Word w) :
    ∀ d ∈ ["%n", "%l", "%N", "%u", "%-N", "%t", "%a", "%A", "%c", "%-c", "%p", "%k", "%K", "%-K", "%T", "%f", "%F",
            "%s", "%S", "%-S", "%v", "%V"],
      Naming.render d.toList ws = .ok (Spec.style d ws) := by
  intro d hd
  have hp := prepare_words h
  simp only [List.mem_cons, List.mem_nil_iff, or_false] at hd
  rcases hd with rfl | rfl | rfl | rfl | rfl | rfl | rfl | rfl | rfl | rfl | rfl | rfl | rfl | rfl | rfl | rfl | rfl
    | rfl | rfl | rfl | rfl | rfl
  all_goals simp only [Naming.render, hp]
  -- the directive comparisons are closed terms: each branch reduces by evaluation
  · rfl
  · rfl
  · rfl
  · rfl
  · rfl
  · rfl
  · exact congrArg Except.ok (initials_eq ws)
  · exact congrArg Except.ok (initials_upper ws)
  · show Except.ok (camelCase (join ['_'] ws)) = _
    cases ws with
    | nil => rfl
    | cons w rest => exact congrArg Except.ok (camel_join w rest h)
  · exact congrArg Except.ok (pascal_join ws h)
  · exact congrArg Except.ok (pascal_join ws h)
  · rfl
  · rfl
  · rfl
  · rfl
  · rfl
  · exact congrArg Except.ok (flat_upper ws)
  · rfl
  · rfl
  · rfl
  · rfl
  · show Except.ok ((upper (Naming.concat ws)).filter (!isVowelU ·)) = _
    rfl

-- parse-back, mutual consistency and rejection: kernel-evaluated instances (a Naming parse costs about a
-- second of kernel evaluation, so these are instances, not a grid; the grid is the sweep's job) ------------

def parseBack (d : String) (ws : List Str) : Bool :=
  match Engine.parse Naming.cls (Spec.style d ws) (some d.toList) false with
  | .ok o => Naming.value o == .ok ws
  | .error _ => false

theorem C08_parse_instances :
    ∀ d ∈ ["%n", "%l", "%N", "%u", "%-N", "%t", "%c", "%-c", "%p", "%k", "%K", "%-K", "%T", "%s", "%S", "%-S"],
      parseBack d ["data".toList, "engineer".toList] = true := by decide +kernel

theorem C08_parse_instances_digits :
    ∀ d ∈ ["%n", "%N", "%k", "%K", "%s", "%S"], parseBack d ["x1".toList, "2y".toList, "k8s".toList] = true := by
  decide +kernel

def pairParse (strict : Bool) (d1 d2 : String) (ws other : List Str) : R (List Str) := do
  let o ← Engine.parse Naming.cls (Spec.style d1 ws ++ ['/'] ++ Spec.style d2 other)
    (some (d1.toList ++ ['/'] ++ d2.toList)) strict
  Naming.value o

/-- a full-name style with an abbreviation of the same name is accepted with that name; with the
    abbreviation of a different name it is rejected with FormatterValueError, in both modes -/
theorem C08_consistent_and_reject_instances :
    ∀ strict ∈ [false, true], ∀ d1 ∈ ["%s", "%K", "%c"], ∀ d2 ∈ ["%a", "%F", "%v"],
      pairParse strict d1 d2 ["data".toList, "engineer".toList] ["data".toList, "engineer".toList]
        = .ok ["data".toList, "engineer".toList]
    ∧ pairParse strict d1 d2 ["data".toList, "engineer".toList] ["bd".toList, "dab".toList] = .error .fmtValue := by
  decide +kernel

end C08
