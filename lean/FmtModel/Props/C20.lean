import FmtModel.Props.C20a
import FmtModel.Props.C20b
import FmtModel.Props.C20c
/-! C20 — aggregator: the theorems live in C20a (tables, renderers, composites, assets, small classes),
    C20b (all ordered pairs of Naming directives) and C20c (all ordered pairs of Datetime directives),
    split so that the three kernel evaluations run in parallel. -/
