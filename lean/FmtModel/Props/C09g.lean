import FmtModel.Lemmas.SerialParse
import FmtModel.Classes.Storage
/-
  C09 — Serial and Storage are exact on integers of any size.

  Proved for EVERY natural number n (no bound on its size), in strict and non-strict mode, on the
  pattern text, priorities table and anchors regenerated from the source:
  * `C09_serial_parse_decimal`   parsing `str(n)` with `%n` yields an object whose value is n;
  * `C09_serial_parse_zeros`     … also with any number of extra leading zeros;
  * `C09_serial_from_value`      `from_value(n)` has value n;
  * `C09_serial_render_*`        the renderers are Python's `str(n)`, `rjust`, `{:0wb}`, `{:,}`, `{:_}`.
  Kernel-evaluated instances cover the other spellings (`%p %b %c %u`) and the Storage unit
  arithmetic at sizes up to 10^26; their statements for all n are validated by the sweep
  (`harness/props/C09.py`, exact rationals), not proved.
-/
namespace C09
open Py Engine Serial

theorem fmtOrBase_n : fmtOrBase Serial.cls (some "%n".toList) = "%n".toList := by decide

/-- parsing a non-empty run of ASCII digits with `%n` gives the object whose `number` is that text -/
theorem parse_digits (s : Str) (hne : s ≠ []) (hd : ∀ c ∈ s, isAsciiDigit c = true) (strict : Bool) :
    Engine.parse Serial.cls s (some "%n".toList) strict = .ok (objNumber s) := by
  unfold Engine.parse
  rw [fmtOrBase_n, pattern_n]
  simp only [bind, Except.bind, parseWith, search_reN s hd, groupdict_reN, init_number s hne strict, wrapValueErrors]

theorem C09_serial_parse_decimal (n : Nat) (strict : Bool) :
    ∃ o, Engine.parse Serial.cls (showNat n) (some "%n".toList) strict = .ok o ∧ Serial.value o = .ok n := by
  refine ⟨objNumber (showNat n), parse_digits _ (showNat_ne_nil n) (showNat_digits n) strict, ?_⟩
  have : Serial.string (objNumber (showNat n)) = showNat n := rfl
  simp [Serial.value, this, pyInt_showNat, bind, Except.bind, pure, Except.pure]

/-- leading zeros do not change the decimal value -/
theorem digitsVal_zeros (k : Nat) (l : Str) (h : ∀ c ∈ l, isAsciiDigit c = true) :
    digitsVal 10 (List.replicate k '0' ++ l) 0 = digitsVal 10 l 0 := by
  have hz : ∀ c ∈ List.replicate k '0', isAsciiDigit c = true := by
    intro c hc; rw [List.eq_of_mem_replicate hc]; decide
  have hall : ∀ c ∈ List.replicate k '0' ++ l, isAsciiDigit c = true := by
    intro c hc
    rcases List.mem_append.mp hc with h1 | h1
    · exact hz c h1
    · exact h c h1
  rw [digitsVal_eq_ofDigitChars _ _ hall, digitsVal_eq_ofDigitChars _ _ h, Nat.ofDigitChars_append,
    Nat.ofDigitChars_replicate_zero]
  simp

theorem C09_serial_parse_zeros (n k : Nat) (strict : Bool) :
    ∃ o, Engine.parse Serial.cls (List.replicate k '0' ++ showNat n) (some "%n".toList) strict = .ok o
       ∧ Serial.value o = .ok n := by
  have hz : ∀ c ∈ List.replicate k '0', isAsciiDigit c = true := by
    intro c hc; rw [List.eq_of_mem_replicate hc]; decide
  have hall : ∀ c ∈ List.replicate k '0' ++ showNat n, isAsciiDigit c = true := by
    intro c hc
    rcases List.mem_append.mp hc with h1 | h1
    · exact hz c h1
    · exact showNat_digits n c h1
  have hne : List.replicate k '0' ++ showNat n ≠ [] := by
    intro h; exact showNat_ne_nil n (List.append_eq_nil_iff.mp h).2
  refine ⟨_, parse_digits _ hne hall strict, ?_⟩
  have hs : Serial.string (objNumber (List.replicate k '0' ++ showNat n)) = List.replicate k '0' ++ showNat n := rfl
  have hv : pyInt (List.replicate k '0' ++ showNat n) = .ok (n : Int) := by
    unfold pyInt
    rw [pyIntBase_digits _ hne hall, digitsVal_zeros k _ (showNat_digits n), digitsVal_showNat]
    rfl
  simp [Serial.value, hs, hv, bind, Except.bind, pure, Except.pure]

theorem fromValue_keys :
    (do let baseToks ← tokens Gen.from_value_token_re Serial.cls.baseFmt
        pure ((Serial.cls.rows.map (·.1)).filter fun k => baseToks.contains k)) = (.ok ["%n".toList] : R (List Str)) := by
  decide +kernel

/-- `Serial.from_value(n)` has value n, for every n -/
theorem C09_serial_from_value (n : Nat) :
    ∃ o, Engine.fromValue Serial.cls n = .ok o ∧ Serial.value o = .ok n := by
  obtain ⟨o, ho, hv⟩ := C09_serial_parse_decimal n false
  refine ⟨o, ?_, hv⟩
  unfold Engine.fromValue
  have hk := fromValue_keys
  cases ht : tokens Gen.from_value_token_re Serial.cls.baseFmt with
  | error e => simp [ht, bind, Except.bind] at hk
  | ok toks =>
    simp only [ht, bind, Except.bind, pure, Except.pure] at hk ⊢
    injection hk with hk
    rw [hk]
    have hr : Serial.cls.render "%n".toList n = .ok (showNat n) := rfl
    simp only [List.mapM_cons, List.mapM_nil, hr, bind, Except.bind, pure, Except.pure, List.isEmpty_cons,
      Bool.false_eq_true, ↓reduceIte, join]
    exact ho

/-- the renderers are Python's integer formats -/
theorem C09_serial_render (n : Nat) :
    Serial.cls.render "%n".toList n = .ok (showNat n)
  ∧ Serial.cls.render "%p".toList n = .ok (toPadding Gen.serial_max_padding (showNat n))
  ∧ Serial.cls.render "%b".toList n = .ok (showBinPad Gen.serial_max_binary n)
  ∧ Serial.cls.render "%c".toList n = .ok (showThousands ',' n)
  ∧ Serial.cls.render "%u".toList n = .ok (showThousands '_' n) := ⟨rfl, rfl, rfl, rfl, rfl⟩

-- the other spellings and the Storage units, on concrete sizes (kernel evaluation) -------------------

def serialRoundTrip (n : Nat) (d : String) : Bool :=
  match Serial.cls.render d.toList n with
  | .ok text =>
    (match Engine.parse Serial.cls text (some d.toList) true with
     | .ok o => Serial.value o == .ok n
     | .error _ => false)
  | .error _ => false

theorem C09_serial_spellings :
    ∀ n ∈ [0, 1, 7, 10, 100, 255, 999], ∀ d ∈ ["%n", "%p", "%b", "%c", "%u"], serialRoundTrip n d = true := by
  decide +kernel

theorem C09_serial_big :
    ∀ n ∈ [9007199254740993, 10000000000000000000000000000007, 1267650600228229401496703205376],
      ∀ d ∈ ["%n", "%c", "%u"], serialRoundTrip n d = true := by decide +kernel

def storageUnit (N : Nat) (d unit : String) (k : Nat) : Bool :=
  match Engine.parse Storage.cls (showNat N ++ unit.toList) (some d.toList) false with
  | .ok o =>
    Storage.string o == showNat (N * 8 * 1024 ^ k)
      && (match Engine.format Storage.cls o d.toList with | .ok t => t == showNat N ++ unit.toList | .error _ => false)
  | .error _ => false

theorem C09_storage_units :
    ∀ N ∈ [0, 1, 7, 1023, 1024, 123456789],
      storageUnit N "%B" "B" 0 = true ∧ storageUnit N "%K" "KB" 1 = true ∧ storageUnit N "%M" "MB" 2 = true
    ∧ storageUnit N "%G" "GB" 3 = true ∧ storageUnit N "%T" "TB" 4 = true ∧ storageUnit N "%P" "PB" 5 = true := by
  decide +kernel

end C09
