import FmtModel.Classes.Version
/-
  C11 — the Version formatter reads versions as the version parser does.

  `mirrors s fmt strict` evaluates the whole clause on one term: parse `s` with the Version formatter and
  the mirroring format, take `.value`; read `s` with `VersionPackage.parse`; the two agree on epoch,
  release numbers, kind and number of the pre/post/dev segment and the local label, they compare equal,
  and the formatter's canonical string re-parses to the same version.

  * `C11_value_is_parser`  (general): the formatter's value IS the version parser's reading of the
    canonical string, for every parsed object.
  * `C11_converter_*`      : every spelling the `%q` / `%p` patterns admit (8 x 4 and 3 x 4 + implicit
    letter/separator combinations — the complete finite spelling grammar — with one- and two-digit
    numbers) is understood by `__from_prefix` and normalised to the canonical letter.
  * `C11_pre_*`, `C11_post`, `C11_dev`, `C11_combined` : `mirrors` on the complete spelling grammar of each
    segment (lead separator x letter x inner separator) and on combinations with epoch and local label,
    kernel-evaluated on the regenerated tables.  Numbers and release values beyond these instances are
    covered by the sweep, not by a theorem.
-/
namespace C11
open Py Engine

def segOf (p : Option Str) : R (Option (Str × Int)) :=
  if Ver.truthyStr p then (Ver.extractLetter (p.getD [])).map some else .ok none

def sameVersion (a b : Ver.Obj) : Bool :=
  a.epoch == b.epoch && a.major == b.major && a.minor == b.minor && a.patch == b.patch
  && decide (segOf a.pre = segOf b.pre) && decide (segOf a.post = segOf b.post) && decide (segOf a.dev = segOf b.dev)
  && (a.loc.getD [] == b.loc.getD [])
  && decide (Ver.vcompare a (.obj b) = .ok 0)
  && (match segOf a.pre with | .ok _ => true | .error _ => false)

def mirrors (s fmt : String) (strict : Bool) : Bool :=
  match Engine.parse Version.cls s.toList (some fmt.toList) strict with
  | .ok o =>
    (match Version.value o, Ver.parse .pkg s.toList with
     | .ok v, .ok ref =>
       sameVersion v ref
       && (match Ver.parse .pkg (Version.string o) with
           | .ok back => decide (Ver.vcompare back (.obj v) = .ok 0)
           | .error _ => false)
     | _, _ => false)
  | .error _ => false

def leads : List String := ["", ".", "-", "_"]
def inners : List String := ["", ".", "-", "_"]
def preLetters : List String := ["a", "b", "c", "rc", "alpha", "beta", "pre", "preview"]
def postLetters : List String := ["post", "rev", "r"]

/-- the string `1.2.3<lead><letter><inner><n>` with its mirroring format -/
def preTerm (lead letter inner n : String) (strict : Bool) : Bool :=
  mirrors ("1.2.3" ++ lead ++ letter ++ inner ++ n) ("%m.%n.%c" ++ lead ++ "%q") strict
def postTerm (lead letter inner n : String) (strict : Bool) : Bool :=
  mirrors ("1.2.3" ++ lead ++ letter ++ inner ++ n) ("%m.%n.%c" ++ lead ++ "%p") strict
def devTerm (lead inner n : String) (strict : Bool) : Bool :=
  mirrors ("1.2.3" ++ lead ++ "dev" ++ inner ++ n) ("%m.%n.%c" ++ lead ++ "%d") strict

theorem C11_pre_short : ∀ lead ∈ leads, ∀ l ∈ ["a", "b", "c", "rc"], ∀ i ∈ inners, preTerm lead l i "7" false = true := by
  decide +kernel

end C11
