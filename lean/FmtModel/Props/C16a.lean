import FmtModel.Props.C16g
/- C16 — kernel-evaluated instances: carries across day, month, year and leap day, overflow, differences,
   version sums, name concatenation (operands parsed from text, results re-rendered) -/
namespace C16
open Py Engine Arith

def F : Str := "%Y-%m-%d %H:%M:%S.%f".toList
def dtAdd (t : String) (us : Int) : String :=
  match (do let a ← Engine.parse Datetime.cls t.toList (some F) false
            let r ← datetimeAddUs a us
            Engine.format Datetime.cls r F) with
  | .ok s => String.ofList s
  | .error e => "err:" ++ e.name
def dtSub (t u : String) : String :=
  match (do let a ← Engine.parse Datetime.cls t.toList (some F) false
            let b ← Engine.parse Datetime.cls u.toList (some F) false
            datetimeSubObj a b) with
  | .ok i => toString i
  | .error e => "err:" ++ e.name
def verAdd (v : String) (x y z : Int) : String :=
  match (do let a ← Engine.parse Version.cls v.toList (some "%m.%n.%c".toList) false
            let r ← versionAdd a x y z
            pure (Version.string r)) with
  | .ok s => String.ofList s
  | .error e => "err:" ++ e.name
def nmAdd (a b : String) : String :=
  match (do let x ← Engine.parse Naming.cls a.toList (some "%n".toList) false
            let y ← Engine.parse Naming.cls b.toList (some "%s".toList) false
            let r ← namingAdd x y
            Naming.value r) with
  | .ok ws => String.intercalate "," (ws.map String.ofList)
  | .error e => "err:" ++ e.name

theorem C16_instances :
    dtAdd "2024-02-28 23:59:59.999999" 1 = "2024-02-29 00:00:00.000000"
  ∧ dtAdd "2023-12-31 23:59:59.999999" 1 = "2024-01-01 00:00:00.000000"
  ∧ dtAdd "2024-03-01 00:00:00.000000" (-1) = "2024-02-29 23:59:59.999999"
  ∧ dtAdd "1900-02-28 12:00:00.000000" (86400 * 1000000) = "1900-03-01 12:00:00.000000"
  ∧ dtAdd "2000-02-28 12:00:00.000000" (86400 * 1000000) = "2000-02-29 12:00:00.000000"
  ∧ dtAdd "9999-12-31 23:59:59.999999" 1 = "err:OverflowError"
  ∧ dtAdd "2024-01-31 00:00:00.000000" (400 * 86400 * 1000000 + 3723000004) = "2025-03-06 01:02:03.000004"
  ∧ dtSub "2024-03-01 00:00:00.000000" "2024-02-28 23:59:59.999999" = "86400000001"
  ∧ dtSub "2023-01-01 00:00:00.000000" "2024-01-01 00:00:00.000000" = "-31536000000000"
  ∧ verAdd "1.2.3" 1 0 10 = "v2.2.13" ∧ verAdd "0.99.499" 0 900 500 = "v0.999.999"
  ∧ nmAdd "data engineer" "team_lead" = "data,engineer,team,lead" := by decide +kernel

end C16
