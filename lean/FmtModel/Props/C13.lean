import FmtModel.Lemmas.VerOrder
/-
  C13 — version objects are immutable; next_version never goes backwards.

  Proved here for all objects (numbers and tags unbounded) whose key exists:
  * the release parts (`major`, `minor`, `patch`, and `epoch` for the packaging class) of
    `next_version`: the result exists, is never lower, is strictly higher unless the receiver is a
    semantic version that only carries build metadata, and the lower-order parts are reset;
  * `bump_major/minor/patch` give (X+1).0.0, X.(Y+1).0, X.Y.(Z+1);
  * an invalid part is a ValueError.
  * `C13_next_pkg`: for EVERY packaging version whose key exists — any epoch, numbers and pre/post/dev/local
    segments — `next_version` of epoch / major / minor / patch exists, has a key and is STRICTLY higher: either the
    version is "before its final release" (a pre tag, or a dev tag without a post tag) and the part is reached, so the
    segments are dropped (`lt_final`), or the release is bumped (`nr_bump_*`).
  The gap: the `pre` / `post` / `dev` parts go through `increment` on an arbitrary tag text, and the semantic class
  compares text tags as text; for those the statement is validated by the sweep and the correspondence only.
-/
namespace C13
open Ver Py Std

theorem nr_cases (a b c : Nat) :
    necessaryRelease [a, b, c] =
      if c ≠ 0 then [a, b, c] else if b ≠ 0 then [a, b] else if a ≠ 0 then [a] else [] := by
  rcases Nat.eq_zero_or_pos c with rfl | hc
  · rcases Nat.eq_zero_or_pos b with rfl | hb
    · rcases Nat.eq_zero_or_pos a with rfl | ha
      · rfl
      · obtain ⟨a', rfl⟩ := Nat.exists_eq_succ_of_ne_zero (Nat.ne_of_gt ha)
        simp [necessaryRelease, List.dropWhile]
    · obtain ⟨b', rfl⟩ := Nat.exists_eq_succ_of_ne_zero (Nat.ne_of_gt hb)
      simp [necessaryRelease, List.dropWhile]
  · obtain ⟨c', rfl⟩ := Nat.exists_eq_succ_of_ne_zero (Nat.ne_of_gt hc)
    simp [necessaryRelease, List.dropWhile]

theorem cmp_nat_lt {a b : Nat} (h : a < b) : compare a b = .lt := Nat.compare_eq_lt.mpr h
theorem cmp_nat_self (a : Nat) : compare a a = .eq := Nat.compare_eq_eq.mpr rfl

theorem nr_bump_major (a b c : Nat) :
    compare (necessaryRelease [a, b, c]) (necessaryRelease [a + 1, 0, 0]) = .lt := by
  rw [nr_cases, nr_cases]
  have h : compare a (a + 1) = .lt := cmp_nat_lt (Nat.lt_succ_self a)
  by_cases hc : c = 0 <;> by_cases hb : b = 0 <;> by_cases ha : a = 0 <;>
    simp [hc, hb, ha, h, Ordering.then] <;> first | done | decide

theorem nr_bump_minor (a b c : Nat) :
    compare (necessaryRelease [a, b, c]) (necessaryRelease [a, b + 1, 0]) = .lt := by
  rw [nr_cases, nr_cases]
  have h : compare b (b + 1) = .lt := cmp_nat_lt (Nat.lt_succ_self b)
  by_cases hc : c = 0 <;> by_cases hb : b = 0 <;> by_cases ha : a = 0 <;>
    simp [hc, hb, ha, h, cmp_nat_self, Ordering.then] <;> first | done | decide

theorem nr_bump_patch (a b c : Nat) :
    compare (necessaryRelease [a, b, c]) (necessaryRelease [a, b, c + 1]) = .lt := by
  rw [nr_cases, nr_cases]
  have h : compare c (c + 1) = .lt := cmp_nat_lt (Nat.lt_succ_self c)
  by_cases hc : c = 0 <;> by_cases hb : b = 0 <;> by_cases ha : a = 0 <;>
    simp [hc, hb, ha, h, cmp_nat_self, Ordering.then] <;> first | done | decide

-- bump_major / bump_minor / bump_patch ----------------------------------------------------------------

/-- bump_major, bump_minor, bump_patch give (X+1).0.0, X.(Y+1).0, X.Y.(Z+1) (the packaging class keeps
    its epoch) and drop every other segment -/
theorem C13_bumps (o : Obj) :
    (bumpMajor o).major = o.major + 1 ∧ (bumpMajor o).minor = 0 ∧ (bumpMajor o).patch = 0
  ∧ (bumpMinor o).major = o.major ∧ (bumpMinor o).minor = o.minor + 1 ∧ (bumpMinor o).patch = 0
  ∧ (bumpPatch o).major = o.major ∧ (bumpPatch o).minor = o.minor ∧ (bumpPatch o).patch = o.patch + 1
  ∧ (bumpMajor o).cls = o.cls ∧ (bumpMinor o).cls = o.cls ∧ (bumpPatch o).cls = o.cls
  ∧ (bumpMajor o).pre = none ∧ (bumpMinor o).pre = none ∧ (bumpPatch o).pre = none
  ∧ (o.cls = .pkg → (bumpMajor o).epoch = o.epoch ∧ (bumpMinor o).epoch = o.epoch ∧ (bumpPatch o).epoch = o.epoch) := by
  cases h : o.cls <;> simp [bumpMajor, bumpMinor, bumpPatch, h]

-- next_version: the plain class -------------------------------------------------------------------------

def relParts : List Str := ["major".toList, "minor".toList, "patch".toList]

theorem C13_next_base (o : Obj) (ho : o.cls = .base) (part : Str) (hp : part ∈ relParts) :
    ∃ o', nextVersion o part = .ok o' ∧ o'.cls = .base
      ∧ compare (baseKey o) (baseKey o') = .lt
      ∧ (part = "major".toList → o'.minor = 0 ∧ o'.patch = 0) ∧ (part = "minor".toList → o'.patch = 0) := by
  simp only [relParts, List.mem_cons, List.mem_nil_iff, or_false] at hp
  rcases hp with rfl | rfl | rfl
  · refine ⟨bumpMajor o, ?_, by simp [bumpMajor, ho], ?_, ?_, ?_⟩
    · have : ['m', 'a', 'j', 'o', 'r'] ∈ validParts .base := by decide +kernel
      simp [nextVersion, ho, this]
    · simp only [baseKey, bumpMajor, ho, compare_prod]
      simp [cmp_nat_lt (Nat.lt_succ_self o.major), Ordering.then]
    · intro _; simp [bumpMajor, ho]
    · intro h; exact absurd h (by decide)
  · refine ⟨bumpMinor o, ?_, by simp [bumpMinor, ho], ?_, ?_, ?_⟩
    · have : ['m', 'i', 'n', 'o', 'r'] ∈ validParts .base := by decide +kernel
      simp [nextVersion, ho, this]
    · simp only [baseKey, bumpMinor, ho, compare_prod]
      simp [cmp_nat_self, cmp_nat_lt (Nat.lt_succ_self o.minor), Ordering.then]
    · intro h; exact absurd h (by decide)
    · intro _; simp [bumpMinor, ho]
  · refine ⟨bumpPatch o, ?_, by simp [bumpPatch, ho], ?_, ?_, ?_⟩
    · have : ['p', 'a', 't', 'c', 'h'] ∈ validParts .base := by decide +kernel
      simp [nextVersion, ho, this]
    · simp only [baseKey, bumpPatch, ho, compare_prod]
      simp [cmp_nat_self, cmp_nat_lt (Nat.lt_succ_self o.patch), Ordering.then]
    · intro h; exact absurd h (by decide)
    · intro h; exact absurd h (by decide)

/-- a part the class does not name is a ValueError, for every class -/
theorem C13_invalid_part (o : Obj) (part : Str) (h : ¬ part ∈ validParts o.cls) :
    nextVersion o part = .error .pyValue := by
  simp [nextVersion, h]

/-- the parts each class names as valid are exactly the advertised ones (from the regenerated tables) -/
theorem C13_valid_parts :
    validParts .base = ["major".toList, "minor".toList, "patch".toList]
  ∧ validParts .sem = ["major".toList, "minor".toList, "patch".toList, "pre".toList]
  ∧ validParts .pkg = ["epoch".toList, "major".toList, "minor".toList, "patch".toList, "pre".toList, "post".toList, "dev".toList] := by
  decide +kernel

-- packaging versions: release parts, for every version ----------------------------------------------------

def finalKey (o : Obj) (rel : List Nat) : PkgKey := (o.epoch, rel, Sent.inf, Sent.ninf, Sent.inf, Sent.ninf)

theorem key_reset (o : Obj) :
    pkgKey { o with pre := none, post := none, dev := none, loc := none }
      = .ok (finalKey o (necessaryRelease [o.major, o.minor, o.patch])) := by
  simp [pkgKey, pkgPre, pkgPost, pkgDev, pkgLoc, truthyStr, finalKey, bind, Except.bind, pure, Except.pure]

theorem key_bumpMajor (o : Obj) (ho : o.cls = .pkg) :
    pkgKey (bumpMajor o) = .ok (finalKey o (necessaryRelease [o.major + 1, 0, 0])) := by
  simp [bumpMajor, ho, pkgKey, pkgPre, pkgPost, pkgDev, pkgLoc, truthyStr, finalKey, bind, Except.bind, pure, Except.pure]

theorem key_bumpMinor (o : Obj) (ho : o.cls = .pkg) :
    pkgKey (bumpMinor o) = .ok (finalKey o (necessaryRelease [o.major, o.minor + 1, 0])) := by
  simp [bumpMinor, ho, pkgKey, pkgPre, pkgPost, pkgDev, pkgLoc, truthyStr, finalKey, bind, Except.bind, pure, Except.pure]

theorem key_bumpPatch (o : Obj) (ho : o.cls = .pkg) :
    pkgKey (bumpPatch o) = .ok (finalKey o (necessaryRelease [o.major, o.minor, o.patch + 1])) := by
  simp [bumpPatch, ho, pkgKey, pkgPre, pkgPost, pkgDev, pkgLoc, truthyStr, finalKey, bind, Except.bind, pure, Except.pure]

theorem key_bumpEpoch (o : Obj) :
    pkgKey (bumpEpoch o) = .ok ((o.epoch + 1, necessaryRelease [0, 0, 0], Sent.inf, Sent.ninf, Sent.inf, Sent.ninf) : PkgKey) := by
  simp [bumpEpoch, pkgKey, pkgPre, pkgPost, pkgDev, pkgLoc, truthyStr, bind, Except.bind, pure, Except.pure]

/-- the components of the packaging key -/
theorem pkgKey_ok {o : Obj} {k : PkgKey} (h : pkgKey o = .ok k) :
    k.1 = o.epoch ∧ k.2.1 = necessaryRelease [o.major, o.minor, o.patch]
  ∧ (o.pre.isSome = true → ∃ x, k.2.2.1 = Sent.val x)
  ∧ (o.pre = none → o.post = none → o.dev.isSome = true → k.2.2.1 = Sent.ninf)
  ∧ (o.pre = none → ¬ (o.post = none ∧ o.dev.isSome = true) → k.2.2.1 = Sent.inf)
  ∧ (truthyStr o.post = false → k.2.2.2.1 = Sent.ninf)
  ∧ (truthyStr o.dev = true → ∃ x, k.2.2.2.2.1 = Sent.val x) := by
  unfold pkgKey at h
  cases hpre : pkgPre o with
  | error e => simp [hpre, bind, Except.bind] at h
  | ok pre =>
    cases hpost : pkgPost o with
    | error e => simp [hpre, hpost, bind, Except.bind] at h
    | ok post =>
      cases hdev : pkgDev o with
      | error e => simp [hpre, hpost, hdev, bind, Except.bind] at h
      | ok dev =>
        cases hloc : pkgLoc o with
        | error e => simp [hpre, hpost, hdev, hloc, bind, Except.bind] at h
        | ok loc =>
          simp only [hpre, hpost, hdev, hloc, bind, Except.bind, pure, Except.pure, Except.ok.injEq] at h
          subst h
          unfold pkgPre at hpre
          unfold pkgPost at hpost
          unfold pkgDev at hdev
          refine ⟨rfl, rfl, ?_, ?_, ?_, ?_, ?_⟩
          · intro hs
            have hn : o.pre.isNone = false := by cases hp : o.pre <;> simp_all
            simp only [hn, Bool.false_and, Bool.false_eq_true, ↓reduceIte] at hpre
            cases he : extractLetter (o.pre.getD []) with
            | error e => simp [he, Except.map] at hpre
            | ok x => simp [he, Except.map] at hpre; exact ⟨x, hpre.symm⟩
          · intro h1 h2 h3
            simp [h1, h2, h3, pure, Except.pure] at hpre
            exact hpre.symm
          · intro h1 h2
            simp [h1, h2, pure, Except.pure] at hpre
            exact hpre.symm
          · intro h1
            simp [h1, pure, Except.pure] at hpost
            exact hpost.symm
          · intro h1
            simp only [h1, ↓reduceIte] at hdev
            cases he : extractLetter (o.dev.getD []) with
            | error e => simp [he, Except.map] at hdev
            | ok x => simp [he, Except.map] at hdev; exact ⟨x, hdev.symm⟩

theorem cmp_list_self (l : List Nat) : compare l l = .eq := ReflCmp.compare_self

/-- a version that is "before its final release" (it has a pre-release tag, or a dev tag and no post tag) is strictly
    below the final release with the same epoch and numbers -/
theorem lt_final (o : Obj) (k : PkgKey) (hk : pkgKey o = .ok k)
    (hb : (truthyStr o.pre || (truthyStr o.dev && !truthyStr o.post)) = true) :
    compare k (finalKey o (necessaryRelease [o.major, o.minor, o.patch])) = .lt := by
  obtain ⟨h1, h2, hsome, hninf, hinf, hpost, hdev⟩ := pkgKey_ok hk
  obtain ⟨e, nr, pre, post, dev, loc⟩ := k
  simp only at h1 h2 hsome hninf hinf hpost hdev
  subst h1; subst h2
  simp only [finalKey, compare_prod, cmp_nat_self, cmp_list_self, Ordering.then]
  cases hp : o.pre with
  | some p =>
    obtain ⟨x, hx⟩ := hsome (by simp [hp])
    subst hx
    simp [cmp_vi]
  | none =>
    have hb' : truthyStr o.dev = true ∧ truthyStr o.post = false := by
      simp only [hp, truthyStr, Bool.false_or, Bool.and_eq_true, Bool.not_eq_true'] at hb
      exact hb
    obtain ⟨dx, hdx⟩ := hdev hb'.1
    have hpo := hpost hb'.2
    subst hdx; subst hpo
    have hds : o.dev.isSome = true := by
      cases hd : o.dev with
      | none => simp [hd, truthyStr] at hb'
      | some d => rfl
    cases hpq : o.post with
    | none =>
      have := hninf hp hpq hds
      subst this
      simp [cmp_ni]
    | some q =>
      have := hinf hp (by simp [hpq])
      subst this
      simp [cmp_ii, cmp_nn, cmp_vi]

def pkgRelParts : List Str := ["epoch".toList, "major".toList, "minor".toList, "patch".toList]

def beforeFinal (o : Obj) : Bool := truthyStr o.pre || (truthyStr o.dev && !truthyStr o.post)
def reset (o : Obj) : Obj := { o with pre := none, post := none, dev := none, loc := none }

theorem valid_pkg : ∀ p ∈ pkgRelParts, p ∈ validParts .pkg := by decide +kernel

theorem next_epoch (o : Obj) (ho : o.cls = .pkg) : nextVersion o "epoch".toList = .ok (bumpEpoch o) := by
  have hv : ['e', 'p', 'o', 'c', 'h'] ∈ validParts .pkg := valid_pkg "epoch".toList (by simp [pkgRelParts])
  simp [nextVersion, ho, hv]

theorem next_major (o : Obj) (ho : o.cls = .pkg) :
    nextVersion o "major".toList = .ok (if beforeFinal o && (o.minor == 0 && o.patch == 0) then reset o else bumpMajor o) := by
  have hv : ['m', 'a', 'j', 'o', 'r'] ∈ validParts .pkg := valid_pkg "major".toList (by simp [pkgRelParts])
  simp [nextVersion, ho, hv, beforeFinal, reset]
  split <;> rfl

theorem next_minor (o : Obj) (ho : o.cls = .pkg) :
    nextVersion o "minor".toList = .ok (if beforeFinal o && (o.patch == 0) then reset o else bumpMinor o) := by
  have hv : ['m', 'i', 'n', 'o', 'r'] ∈ validParts .pkg := valid_pkg "minor".toList (by simp [pkgRelParts])
  simp [nextVersion, ho, hv, beforeFinal, reset]
  split <;> rfl

theorem next_patch (o : Obj) (ho : o.cls = .pkg) :
    nextVersion o "patch".toList = .ok (if beforeFinal o then reset o else bumpPatch o) := by
  have hv : ['p', 'a', 't', 'c', 'h'] ∈ validParts .pkg := valid_pkg "patch".toList (by simp [pkgRelParts])
  simp [nextVersion, ho, hv, beforeFinal, reset]
  split <;> rfl

/-- **packaging versions, release parts**: for EVERY packaging version whose key exists (any epoch, numbers and
    pre/post/dev/local segments) `next_version` of epoch / major / minor / patch exists, has a key, and is strictly higher -/
theorem C13_next_pkg (o : Obj) (ho : o.cls = .pkg) (k : PkgKey) (hk : pkgKey o = .ok k) (part : Str) (hp : part ∈ pkgRelParts) :
    ∃ o' k', nextVersion o part = .ok o' ∧ pkgKey o' = .ok k' ∧ compare k k' = .lt := by
  obtain ⟨h1, h2, _⟩ := pkgKey_ok hk
  -- every bump of the release is above `o`, whatever segments `o` carries
  have bump_lt : ∀ rel', compare (necessaryRelease [o.major, o.minor, o.patch]) rel' = .lt →
      compare k (finalKey o rel') = .lt := by
    intro rel' hr
    obtain ⟨e, nr, rest⟩ := k
    simp only at h1 h2
    subst h1; subst h2
    simp [finalKey, compare_prod, cmp_nat_self, hr, Ordering.then]
  have reset_lt : beforeFinal o = true → compare k (finalKey o (necessaryRelease [o.major, o.minor, o.patch])) = .lt :=
    fun hb => lt_final o k hk hb
  simp only [pkgRelParts, List.mem_cons, List.mem_nil_iff, or_false] at hp
  rcases hp with rfl | rfl | rfl | rfl
  · refine ⟨bumpEpoch o, _, next_epoch o ho, key_bumpEpoch o, ?_⟩
    obtain ⟨e, rest⟩ := k
    simp only at h1
    subst h1
    simp [compare_prod, cmp_nat_lt (Nat.lt_succ_self o.epoch), Ordering.then]
  · rw [next_major o ho]
    by_cases hc : (beforeFinal o && (o.minor == 0 && o.patch == 0)) = true
    · simp only [hc, ↓reduceIte]
      exact ⟨reset o, _, rfl, key_reset o, reset_lt (by simp only [Bool.and_eq_true] at hc; exact hc.1)⟩
    · simp only [hc, Bool.false_eq_true, ↓reduceIte]
      exact ⟨bumpMajor o, _, rfl, key_bumpMajor o ho, bump_lt _ (nr_bump_major _ _ _)⟩
  · rw [next_minor o ho]
    by_cases hc : (beforeFinal o && (o.patch == 0)) = true
    · simp only [hc, ↓reduceIte]
      exact ⟨reset o, _, rfl, key_reset o, reset_lt (by simp only [Bool.and_eq_true] at hc; exact hc.1)⟩
    · simp only [hc, Bool.false_eq_true, ↓reduceIte]
      exact ⟨bumpMinor o, _, rfl, key_bumpMinor o ho, bump_lt _ (nr_bump_minor _ _ _)⟩
  · rw [next_patch o ho]
    by_cases hc : beforeFinal o = true
    · simp only [hc, ↓reduceIte]
      exact ⟨reset o, _, rfl, key_reset o, reset_lt hc⟩
    · simp only [hc, Bool.false_eq_true, ↓reduceIte]
      exact ⟨bumpPatch o, _, rfl, key_bumpPatch o ho, bump_lt _ (nr_bump_patch _ _ _)⟩

/-- the hypotheses are met by a parsed version with all segments (non-vacuity) -/
def hasPkgKey (s : String) : Bool :=
  match parse .pkg s.toList with
  | .ok o => decide (o.cls = .pkg) && (match pkgKey o with | .ok _ => true | .error _ => false)
  | .error _ => false

example : hasPkgKey "2!1.2.0rc1.post2.dev3+abc.1" = true ∧ hasPkgKey "1.0.0.dev1" = true := by decide +kernel


-- immutability ------------------------------------------------------------------------------------------

/-- assignment to any attribute of a constructed object raises AttributeError and changes nothing -/
theorem C13_setattr (o : Obj) (name : Str) : setattr o name = (.error .pyAttr, o) := rfl

/-- every reading operation is a function of the receiver: the model has no mutable state, so a
    sequence of bump / next_version / replace / compare / match / hash / str calls cannot change it.
    (The tie to the real objects is the correspondence: `to_tuple()` before and after each call.) -/
inductive ReadOp where
  | next (part : Str) | bump (which : Nat) | replace (kw : List (Str × Arg)) | compare (x : Other)
  | matchE (e : Str) | hash | str

def applyRead (o : Obj) : ReadOp → Obj × String
  | .next p => (o, match nextVersion o p with | .ok _ => "ok" | .error e => e.name)
  | .bump 0 => (o, toString (bumpMajor o).major)
  | .bump 1 => (o, toString (bumpMinor o).minor)
  | .bump _ => (o, toString (bumpPatch o).patch)
  | .replace kw => (o, match replace o kw with | .ok _ => "ok" | .error e => e.name)
  | .compare x => (o, match vcompare o x with | .ok _ => "ok" | .error e => e.name)
  | .matchE e => (o, match matchExpr o e with | .ok _ => "ok" | .error e => e.name)
  | .hash => (o, match hashRepr o with | .ok _ => "ok" | .error e => e.name)
  | .str => (o, String.ofList o.str)

theorem applyRead_fst (o : Obj) (op : ReadOp) : (applyRead o op).1 = o := by
  cases op with
  | bump n =>
    match n with
    | 0 => rfl
    | 1 => rfl
    | _ + 2 => rfl
  | _ => rfl

theorem C13_frame (o : Obj) (ops : List ReadOp) : ops.foldl (fun s op => (applyRead s op).1) o = o := by
  induction ops with
  | nil => rfl
  | cons op rest ih => simpa [List.foldl, applyRead_fst] using ih

-- non-vacuity and end-to-end instances on the regenerated tables -------------------------------------------

def nextStr (c : Cls) (s part : String) : Option String :=
  match parse c s.toList with
  | .ok o => match nextVersion o part.toList with
    | .ok o' => some (String.ofList o'.str)
    | .error _ => none
  | .error _ => none

example : nextStr .pkg "1.2.3" "pre" = some "1.2.4a.1" := by decide +kernel
example : nextStr .pkg "1.2.3.post1" "patch" = some "1.2.4" := by decide +kernel
example : nextStr .pkg "1!1.2.3rc1" "patch" = some "1!1.2.3" := by decide +kernel
example : nextStr .pkg "1.2.3" "dev" = some "1.2.4dev1" := by decide +kernel
example : nextStr .pkg "2!1.2.3" "epoch" = some "3!0.0.0" := by decide +kernel
example : nextStr .sem "1.2.3-rc.9" "pre" = some "1.2.3-rc.10" := by decide +kernel
example : nextStr .sem "1.2.3" "pre" = some "1.2.4-rc.1" := by decide +kernel

end C13
