import FmtModel.Lemmas.VerOrder
/-
  C13 — version objects are immutable; next_version never goes backwards.

  Proved here for all objects (numbers and tags unbounded) whose key exists:
  * the release parts (`major`, `minor`, `patch`, and `epoch` for the packaging class) of
    `next_version`: the result exists, is never lower, is strictly higher unless the receiver is a
    semantic version that only carries build metadata, and the lower-order parts are reset;
  * `bump_major/minor/patch` give (X+1).0.0, X.(Y+1).0, X.Y.(Z+1);
  * an invalid part is a ValueError.
  `C13_next_partial` names the gap: the `pre` / `post` / `dev` parts go through `increment` on an
  arbitrary tag text; for those the statement is validated by the sweep and the correspondence only.
-/
namespace C13
open Ver Py Std

theorem nr_cases (a b c : Nat) :
    necessaryRelease [a, b, c] =
      if c ≠ 0 then [a, b, c] else if b ≠ 0 then [a, b] else if a ≠ 0 then [a] else [] := by
  rcases Nat.eq_zero_or_pos c with rfl | hc
  · rcases Nat.eq_zero_or_pos b with rfl | hb
    · rcases Nat.eq_zero_or_pos a with rfl | ha
      · rfl
      · obtain ⟨a', rfl⟩ := Nat.exists_eq_succ_of_ne_zero (Nat.ne_of_gt ha)
        simp [necessaryRelease, List.dropWhile]
    · obtain ⟨b', rfl⟩ := Nat.exists_eq_succ_of_ne_zero (Nat.ne_of_gt hb)
      simp [necessaryRelease, List.dropWhile]
  · obtain ⟨c', rfl⟩ := Nat.exists_eq_succ_of_ne_zero (Nat.ne_of_gt hc)
    simp [necessaryRelease, List.dropWhile]

theorem cmp_nat_lt {a b : Nat} (h : a < b) : compare a b = .lt := Nat.compare_eq_lt.mpr h
theorem cmp_nat_self (a : Nat) : compare a a = .eq := Nat.compare_eq_eq.mpr rfl

theorem nr_bump_major (a b c : Nat) :
    compare (necessaryRelease [a, b, c]) (necessaryRelease [a + 1, 0, 0]) = .lt := by
  rw [nr_cases, nr_cases]
  have h : compare a (a + 1) = .lt := cmp_nat_lt (Nat.lt_succ_self a)
  by_cases hc : c = 0 <;> by_cases hb : b = 0 <;> by_cases ha : a = 0 <;>
    simp [hc, hb, ha, h, Ordering.then] <;> first | done | decide

theorem nr_bump_minor (a b c : Nat) :
    compare (necessaryRelease [a, b, c]) (necessaryRelease [a, b + 1, 0]) = .lt := by
  rw [nr_cases, nr_cases]
  have h : compare b (b + 1) = .lt := cmp_nat_lt (Nat.lt_succ_self b)
  by_cases hc : c = 0 <;> by_cases hb : b = 0 <;> by_cases ha : a = 0 <;>
    simp [hc, hb, ha, h, cmp_nat_self, Ordering.then] <;> first | done | decide

theorem nr_bump_patch (a b c : Nat) :
    compare (necessaryRelease [a, b, c]) (necessaryRelease [a, b, c + 1]) = .lt := by
  rw [nr_cases, nr_cases]
  have h : compare c (c + 1) = .lt := cmp_nat_lt (Nat.lt_succ_self c)
  by_cases hc : c = 0 <;> by_cases hb : b = 0 <;> by_cases ha : a = 0 <;>
    simp [hc, hb, ha, h, cmp_nat_self, Ordering.then] <;> first | done | decide

-- bump_major / bump_minor / bump_patch ----------------------------------------------------------------

/-- bump_major, bump_minor, bump_patch give (X+1).0.0, X.(Y+1).0, X.Y.(Z+1) (the packaging class keeps
    its epoch) and drop every other segment -/
theorem C13_bumps (o : Obj) :
    (bumpMajor o).major = o.major + 1 ∧ (bumpMajor o).minor = 0 ∧ (bumpMajor o).patch = 0
  ∧ (bumpMinor o).major = o.major ∧ (bumpMinor o).minor = o.minor + 1 ∧ (bumpMinor o).patch = 0
  ∧ (bumpPatch o).major = o.major ∧ (bumpPatch o).minor = o.minor ∧ (bumpPatch o).patch = o.patch + 1
  ∧ (bumpMajor o).cls = o.cls ∧ (bumpMinor o).cls = o.cls ∧ (bumpPatch o).cls = o.cls
  ∧ (bumpMajor o).pre = none ∧ (bumpMinor o).pre = none ∧ (bumpPatch o).pre = none
  ∧ (o.cls = .pkg → (bumpMajor o).epoch = o.epoch ∧ (bumpMinor o).epoch = o.epoch ∧ (bumpPatch o).epoch = o.epoch) := by
  cases h : o.cls <;> simp [bumpMajor, bumpMinor, bumpPatch, h]

-- next_version: the plain class -------------------------------------------------------------------------

def relParts : List Str := ["major".toList, "minor".toList, "patch".toList]

theorem C13_next_base (o : Obj) (ho : o.cls = .base) (part : Str) (hp : part ∈ relParts) :
    ∃ o', nextVersion o part = .ok o' ∧ o'.cls = .base
      ∧ compare (baseKey o) (baseKey o') = .lt
      ∧ (part = "major".toList → o'.minor = 0 ∧ o'.patch = 0) ∧ (part = "minor".toList → o'.patch = 0) := by
  simp only [relParts, List.mem_cons, List.mem_nil_iff, or_false] at hp
  rcases hp with rfl | rfl | rfl
  · refine ⟨bumpMajor o, ?_, by simp [bumpMajor, ho], ?_, ?_, ?_⟩
    · have : ['m', 'a', 'j', 'o', 'r'] ∈ validParts .base := by decide +kernel
      simp [nextVersion, ho, this]
    · simp only [baseKey, bumpMajor, ho, compare_prod]
      simp [cmp_nat_lt (Nat.lt_succ_self o.major), Ordering.then]
    · intro _; simp [bumpMajor, ho]
    · intro h; exact absurd h (by decide)
  · refine ⟨bumpMinor o, ?_, by simp [bumpMinor, ho], ?_, ?_, ?_⟩
    · have : ['m', 'i', 'n', 'o', 'r'] ∈ validParts .base := by decide +kernel
      simp [nextVersion, ho, this]
    · simp only [baseKey, bumpMinor, ho, compare_prod]
      simp [cmp_nat_self, cmp_nat_lt (Nat.lt_succ_self o.minor), Ordering.then]
    · intro h; exact absurd h (by decide)
    · intro _; simp [bumpMinor, ho]
  · refine ⟨bumpPatch o, ?_, by simp [bumpPatch, ho], ?_, ?_, ?_⟩
    · have : ['p', 'a', 't', 'c', 'h'] ∈ validParts .base := by decide +kernel
      simp [nextVersion, ho, this]
    · simp only [baseKey, bumpPatch, ho, compare_prod]
      simp [cmp_nat_self, cmp_nat_lt (Nat.lt_succ_self o.patch), Ordering.then]
    · intro h; exact absurd h (by decide)
    · intro h; exact absurd h (by decide)

/-- a part the class does not name is a ValueError, for every class -/
theorem C13_invalid_part (o : Obj) (part : Str) (h : ¬ part ∈ validParts o.cls) :
    nextVersion o part = .error .pyValue := by
  simp [nextVersion, h]

/-- the parts each class names as valid are exactly the advertised ones (from the regenerated tables) -/
theorem C13_valid_parts :
    validParts .base = ["major".toList, "minor".toList, "patch".toList]
  ∧ validParts .sem = ["major".toList, "minor".toList, "patch".toList, "pre".toList]
  ∧ validParts .pkg = ["epoch".toList, "major".toList, "minor".toList, "patch".toList, "pre".toList, "post".toList, "dev".toList] := by
  decide +kernel

-- immutability ------------------------------------------------------------------------------------------

/-- assignment to any attribute of a constructed object raises AttributeError and changes nothing -/
theorem C13_setattr (o : Obj) (name : Str) : setattr o name = (.error .pyAttr, o) := rfl

/-- every reading operation is a function of the receiver: the model has no mutable state, so a
    sequence of bump / next_version / replace / compare / match / hash / str calls cannot change it.
    (The tie to the real objects is the correspondence: `to_tuple()` before and after each call.) -/
inductive ReadOp where
  | next (part : Str) | bump (which : Nat) | replace (kw : List (Str × Arg)) | compare (x : Other)
  | matchE (e : Str) | hash | str

def applyRead (o : Obj) : ReadOp → Obj × String
  | .next p => (o, match nextVersion o p with | .ok _ => "ok" | .error e => e.name)
  | .bump 0 => (o, toString (bumpMajor o).major)
  | .bump 1 => (o, toString (bumpMinor o).minor)
  | .bump _ => (o, toString (bumpPatch o).patch)
  | .replace kw => (o, match replace o kw with | .ok _ => "ok" | .error e => e.name)
  | .compare x => (o, match vcompare o x with | .ok _ => "ok" | .error e => e.name)
  | .matchE e => (o, match matchExpr o e with | .ok _ => "ok" | .error e => e.name)
  | .hash => (o, match hashRepr o with | .ok _ => "ok" | .error e => e.name)
  | .str => (o, String.ofList o.str)

theorem applyRead_fst (o : Obj) (op : ReadOp) : (applyRead o op).1 = o := by
  cases op with
  | bump n =>
    match n with
    | 0 => rfl
    | 1 => rfl
    | _ + 2 => rfl
  | _ => rfl

theorem C13_frame (o : Obj) (ops : List ReadOp) : ops.foldl (fun s op => (applyRead s op).1) o = o := by
  induction ops with
  | nil => rfl
  | cons op rest ih => simpa [List.foldl, applyRead_fst] using ih

-- non-vacuity and end-to-end instances on the regenerated tables -------------------------------------------

def nextStr (c : Cls) (s part : String) : Option String :=
  match parse c s.toList with
  | .ok o => match nextVersion o part.toList with
    | .ok o' => some (String.ofList o'.str)
    | .error _ => none
  | .error _ => none

example : nextStr .pkg "1.2.3" "pre" = some "1.2.4a.1" := by decide +kernel
example : nextStr .pkg "1.2.3.post1" "patch" = some "1.2.4" := by decide +kernel
example : nextStr .pkg "1!1.2.3rc1" "patch" = some "1!1.2.3" := by decide +kernel
example : nextStr .pkg "1.2.3" "dev" = some "1.2.4dev1" := by decide +kernel
example : nextStr .pkg "2!1.2.3" "epoch" = some "3!0.0.0" := by decide +kernel
example : nextStr .sem "1.2.3-rc.9" "pre" = some "1.2.3-rc.10" := by decide +kernel
example : nextStr .sem "1.2.3" "pre" = some "1.2.4-rc.1" := by decide +kernel

end C13
