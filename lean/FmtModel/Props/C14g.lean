import FmtModel.Members
import FmtModel.Lemmas.VerOrder
/-
  C14 — formatter objects order and hash as their values; groups by the product order.

  Objects.  `Formatter.__eq__/__lt__` are the comparison of the values and the derived operators are
  functools.total_ordering's (`C14_obj_order`, for every member class and every pair of objects).
  `C14_serial_hash`, `C14_version_hash`: for EVERY pair of Serial / Version objects, however spelled,
  `a == b` implies that both feed the same thing to `hash` (the repaired defect: the hash used to be
  taken from the spelled text).  For Datetime / Naming / Storage the hash is `hash(self.string)`;
  `C14_hash_spellings` evaluates spellings of equal values in the kernel.

  Groups.  For every declaration whose members' value orders are lawful (`Lawful`: a strict total order
  up to `==` on the domain where the values exist), and all group objects a, b, c:
    `C14_group_irrefl`, `C14_group_asymm`, `C14_group_trans`, `C14_group_converse` (a > b iff b < a),
    `C14_group_product` (a < b iff no member is greater and one is smaller — by definition of `lt`),
  and `C14_lawful_*`: the value orders of Serial (ℕ), Datetime (lexicographic on the fields), Naming
  (lexicographic on the word list) and Version (the C07 key order, on versions whose key exists) are lawful.
  `C14_max`, `C14_min`: CPython's `max` / `min` loops return the dominating / dominated element whatever
  its position in the list.  `sorted` (timsort) is not modelled: sweep only.
-/
namespace C14
open Py Engine Group Std

-- formatter objects ---------------------------------------------------------------------------------

/-- `a < b`, `a == b`, `a > b` of two formatter objects are the comparisons of their values -/
theorem C14_obj_order (m : Member) (a b : Obj) (va vb : m.Val) (ha : m.cls.value a = .ok va) (hb : m.cls.value b = .ok vb) :
    cmpMember m a b = .ok (m.ltVal va vb, m.eqVal va vb, !m.ltVal va vb && !m.eqVal va vb) := by
  simp [cmpMember, ha, hb, bind, Except.bind, pure, Except.pure, tri]

theorem cmpMember_spec {m : Member} {a b : Obj} {t : Bool × Bool × Bool} (h : cmpMember m a b = .ok t) :
    ∃ va vb, m.cls.value a = .ok va ∧ m.cls.value b = .ok vb ∧ t = tri m va vb := by
  unfold cmpMember at h
  cases ha : m.cls.value a with
  | error e => simp [ha, bind, Except.bind] at h
  | ok va =>
    cases hb : m.cls.value b with
    | error e => simp [ha, hb, bind, Except.bind] at h
    | ok vb =>
      simp [ha, hb, bind, Except.bind, pure, Except.pure] at h
      exact ⟨va, vb, rfl, rfl, h.symm⟩

theorem version_cls_value : Version.cls.value = Version.value := by simp only [Version.cls]
theorem member_version_cls (n : Str) : (Members.version n).cls = Version.cls := rfl
theorem member_version_value (n : Str) (a : Obj) : (Members.version n).cls.value a = Version.value a := by
  rw [member_version_cls, version_cls_value]
theorem serial_eq (n : Str) (va vb : Nat) (h : (Members.serial n).eqVal va vb = true) : va = vb := by
  simpa [Members.serial] using h
theorem version_eq (n : Str) (x y : Ver.Obj) (h : (Members.version n).eqVal x y = true) : Members.verCmp x y = some 0 := by
  have : (Members.verCmp x y == some 0) = true := h
  simpa using this

/-- **Serial**: equal objects feed the same text to `hash`, however they were spelled -/
theorem C14_serial_hash (n : Str) (a b : Obj) (l g : Bool) (h : cmpMember (Members.serial n) a b = .ok (l, true, g)) :
    hashEq (Members.serial n) a b = .ok true := by
  obtain ⟨va, vb, ha, hb, ht⟩ := cmpMember_spec h
  have ha' : Serial.value a = .ok va := ha
  have hb' : Serial.value b = .ok vb := hb
  have e : (Members.serial n).eqVal va vb = true := by
    have := congrArg (fun t => t.2.1) ht
    simpa [tri] using this.symm
  have e' : va = vb := serial_eq n va vb e
  simp [hashEq, Members.serial, Members.serialHash, ha', hb', e', bind, Except.bind, Except.map, pure, Except.pure]

theorem C07hash {a b : Ver.Obj} {ka kb : Ver.AKey} (hab : a.cls = b.cls) (ha : Ver.akey a = .ok ka) (hb : Ver.akey b = .ok kb)
    (h : Ver.richCmp .eq a (.obj b) = .ok true) : Ver.hashRepr a = Ver.hashRepr b := by
  obtain ⟨o, ho, r⟩ := Ver.rich_spec hab ha hb
  rw [r .eq] at h
  have e : o = .eq := by cases o <;> simp_all [Ver.opHolds]
  subst e
  have := Ver.cmp_eq_imp_eq ho
  subst this
  rw [Ver.hashRepr_eq_key, Ver.hashRepr_eq_key, Ver.key_eq_akey, Ver.key_eq_akey, ha, hb]

theorem version_hash_core (n : Str) (a b : Obj) (va vb : Ver.Obj) (ha' : Version.value a = .ok va) (hb' : Version.value b = .ok vb)
    (e : Members.verCmp va vb = some 0) : hashEq (Members.version n) a b = .ok true := by
  have hpa : Ver.parse .pkg (Version.string a) = .ok va := ha'
  have hpb : Ver.parse .pkg (Version.string b) = .ok vb := hb'
  have hca : va.cls = .pkg := Ver.parse_cls hpa
  have hcb : vb.cls = .pkg := Ver.parse_cls hpb
  have hv : Ver.vcompare va (.obj vb) = .ok 0 := by
    unfold Members.verCmp at e
    cases hc : Ver.vcompare va (.obj vb) with
    | error x => simp [hc] at e
    | ok c => simp [hc] at e; rw [e]
  -- both keys exist, otherwise `compare` raises
  have hk : ∃ ka kb, Ver.akey va = .ok ka ∧ Ver.akey vb = .ok kb := by
    have h1 := Ver.key_eq_akey va
    have h2 := Ver.key_eq_akey vb
    unfold Ver.vcompare Ver.coerce at hv
    simp only [hca, hcb, ↓reduceIte, bind, Except.bind] at hv
    cases hka : Ver.akey va with
    | error x => rw [hka] at h1; simp [Except.map] at h1; simp [h1] at hv
    | ok ka =>
      cases hkb : Ver.akey vb with
      | error x =>
        rw [hka] at h1; rw [hkb] at h2; simp [Except.map] at h1 h2; simp [h1, h2] at hv
      | ok kb => exact ⟨ka, kb, rfl, rfl⟩
  obtain ⟨ka, kb, hka, hkb⟩ := hk
  have hr : Ver.richCmp .eq va (.obj vb) = .ok true := by simp [Ver.richCmp, hv, Except.map]
  have hh := C07hash (hca.trans hcb.symm) hka hkb hr
  have hb2 : Ver.hashRepr vb = .ok kb.enc := by rw [Ver.hashRepr_eq_key, Ver.key_eq_akey, hkb]; rfl
  simp [hashEq, Members.version, Members.versionHash, ha', hb', hh, hb2, bind, Except.bind, Except.map, pure, Except.pure]

/-- **Version**: equal objects feed the same comparison key to `hash`, however they were spelled -/
theorem C14_version_hash (n : Str) (a b : Obj) (l g : Bool) (h : cmpMember (Members.version n) a b = .ok (l, true, g)) :
    hashEq (Members.version n) a b = .ok true := by
  obtain ⟨va, vb, ha, hb, ht⟩ := cmpMember_spec h
  have ha' : Version.value a = .ok va := by rw [← member_version_value n]; exact ha
  have hb' : Version.value b = .ok vb := by rw [← member_version_value n]; exact hb
  have e0 : (Members.version n).eqVal va vb = true := by
    have := congrArg (fun t => t.2.1) ht
    simpa [tri] using this.symm
  exact version_hash_core n a b va vb ha' hb' (version_eq n va vb e0)

-- lawful member orders ------------------------------------------------------------------------------

/-- the laws of a member's value order on the domain `dom`: a strict total order up to `==` -/
structure Lawful (m : Member) (dom : m.Val → Prop) : Prop where
  irrefl : ∀ a, dom a → m.ltVal a a = false
  trans : ∀ a b c, dom a → dom b → dom c → m.ltVal a b = true → m.ltVal b c = true → m.ltVal a c = true
  total : ∀ a b, dom a → dom b → m.ltVal a b = true ∨ m.eqVal a b = true ∨ m.ltVal b a = true
  eq_refl : ∀ a, dom a → m.eqVal a a = true
  eq_symm : ∀ a b, dom a → dom b → m.eqVal a b = true → m.eqVal b a = true
  eq_not_lt : ∀ a b, dom a → dom b → m.eqVal a b = true → m.ltVal a b = false
  eq_trans : ∀ a b c, dom a → dom b → dom c → m.eqVal a b = true → m.eqVal b c = true → m.eqVal a c = true
  lt_eq : ∀ a b c, dom a → dom b → dom c → m.ltVal a b = true → m.eqVal b c = true → m.ltVal a c = true
  eq_lt : ∀ a b c, dom a → dom b → dom c → m.eqVal a b = true → m.ltVal b c = true → m.ltVal a c = true

/-- an order read off a lawful three-way comparison of a key is lawful -/
theorem lawful_of_key_on {m : Member} {κ : Type} [Ord κ] [TransOrd κ] (dom : m.Val → Prop) (k : m.Val → κ)
    (hlt : ∀ a b, dom a → dom b → m.ltVal a b = (compare (k a) (k b) == .lt))
    (heq : ∀ a b, dom a → dom b → m.eqVal a b = (compare (k a) (k b) == .eq)) :
    Lawful m dom where
  irrefl a ha := by simp [hlt a a ha ha, ReflCmp.compare_self]
  trans a b c ha hb hc h1 h2 := by
    rw [hlt a b ha hb] at h1; rw [hlt b c hb hc] at h2; rw [hlt a c ha hc]
    simp only [beq_iff_eq] at *
    exact TransCmp.lt_trans h1 h2
  total a b ha hb := by
    rw [hlt a b ha hb, heq a b ha hb, hlt b a hb ha]
    simp only [beq_iff_eq]
    cases h : compare (k a) (k b) with
    | lt => exact Or.inl rfl
    | eq => exact Or.inr (Or.inl rfl)
    | gt => exact Or.inr (Or.inr (OrientedCmp.gt_iff_lt.mp h))
  eq_refl a ha := by simp [heq a a ha ha, ReflCmp.compare_self]
  eq_symm a b ha hb h := by
    rw [heq a b ha hb] at h; rw [heq b a hb ha]
    simp only [beq_iff_eq] at *
    exact OrientedCmp.eq_symm h
  eq_not_lt a b ha hb h := by
    rw [heq a b ha hb] at h; rw [hlt a b ha hb]
    simp only [beq_iff_eq] at *
    simp [h]
  eq_trans a b c ha hb hc h1 h2 := by
    rw [heq a b ha hb] at h1; rw [heq b c hb hc] at h2; rw [heq a c ha hc]
    simp only [beq_iff_eq] at *
    exact TransCmp.eq_trans h1 h2
  lt_eq a b c ha hb hc h1 h2 := by
    rw [hlt a b ha hb] at h1; rw [heq b c hb hc] at h2; rw [hlt a c ha hc]
    simp only [beq_iff_eq] at *
    rw [← TransCmp.congr_right (cmp := compare) h2]; exact h1
  eq_lt a b c ha hb hc h1 h2 := by
    rw [heq a b ha hb] at h1; rw [hlt b c hb hc] at h2; rw [hlt a c ha hc]
    simp only [beq_iff_eq] at *
    rw [TransCmp.congr_left (cmp := compare) h1]; exact h2

theorem lawful_of_key {m : Member} {κ : Type} [Ord κ] [TransOrd κ] (k : m.Val → κ)
    (hlt : ∀ a b, m.ltVal a b = (compare (k a) (k b) == .lt)) (heq : ∀ a b, m.eqVal a b = (compare (k a) (k b) == .eq)) :
    Lawful m (fun _ => True) :=
  lawful_of_key_on _ k (fun a b _ _ => hlt a b) (fun a b _ _ => heq a b)

theorem C14_lawful_serial (n : Str) : Lawful (Members.serial n) (fun _ => True) :=
  lawful_of_key (κ := Nat) (fun (x : Nat) => x)
    (fun (a b : Nat) => by
      show decide (a < b) = (compare a b == Ordering.lt)
      rw [Bool.eq_iff_iff]; simp [Nat.compare_eq_lt])
    (fun (a b : Nat) => by
      show (a == b) = (compare a b == Ordering.eq)
      rw [Bool.eq_iff_iff]; simp [Nat.compare_eq_eq])

theorem C14_lawful_naming (n : Str) : Lawful (Members.naming n) (fun _ => True) :=
  lawful_of_key (κ := List Str) (fun (x : List Str) => x) (fun _ _ => rfl)
    (fun (a b : List Str) => by
      show (a == b) = (compare a b == Ordering.eq)
      rw [Bool.eq_iff_iff]; simp [LawfulEqOrd.compare_eq_iff_eq])

theorem dtKey_inj (a b : Cal.DT) (h : Members.dtKey a = Members.dtKey b) : a = b := by
  cases a; cases b; simp [Members.dtKey] at h; simp [h]

theorem C14_lawful_datetime (n : Str) : Lawful (Members.datetime n) (fun _ => True) :=
  lawful_of_key (κ := Nat × Nat × Nat × Nat × Nat × Nat × Nat) Members.dtKey (fun _ _ => rfl)
    (fun (a b : Cal.DT) => by
      show (a == b) = (compare (Members.dtKey a) (Members.dtKey b) == Ordering.eq)
      rw [Bool.eq_iff_iff]
      simp only [beq_iff_eq, LawfulEqOrd.compare_eq_iff_eq]
      exact ⟨fun h => by rw [h], dtKey_inj a b⟩)

/-- the sizes a Storage formatter holds: `Decimal(str(bits))`, an integer with exponent 0 -/
def storDom (d : Dec.D) : Prop := d.exp = 0

def storKey (d : Dec.D) : Int := (if d.neg then -1 else 1) * (d.coeff : Int)

theorem stor_cmp (a b : Dec.D) (ha : storDom a) (hb : storDom b) : Dec.cmp a b = compare (storKey a) (storKey b) := by
  unfold storDom at ha hb
  simp [Dec.cmp, Dec.cmpAligned, storKey, ha, hb]

theorem C14_lawful_storage (n : Str) : Lawful (Members.storage n) storDom :=
  lawful_of_key_on (m := Members.storage n) (κ := Int) storDom storKey
    (fun (a b : Dec.D) ha hb => by
      show (Dec.cmp a b == Ordering.lt) = (compare (storKey a) (storKey b) == Ordering.lt)
      rw [stor_cmp a b ha hb])
    (fun (a b : Dec.D) ha hb => by
      show (Dec.cmp a b == Ordering.eq) = (compare (storKey a) (storKey b) == Ordering.eq)
      rw [stor_cmp a b ha hb])

/-- the versions whose comparison key exists (every version a Version formatter can hold) -/
def verDom (v : Ver.Obj) : Prop := v.cls = .pkg ∧ ∃ k, Ver.akey v = .ok k

theorem ver_tri {a b : Ver.Obj} (ha : verDom a) (hb : verDom b) :
    ∃ ka kb o, Ver.akey a = .ok ka ∧ Ver.akey b = .ok kb ∧ ka.cmp kb = some o
      ∧ (Members.verCmp a b == some (-1)) = (o == .lt) ∧ (Members.verCmp a b == some 0) = (o == .eq) := by
  obtain ⟨ca, ka, hka⟩ := ha
  obtain ⟨cb, kb, hkb⟩ := hb
  obtain ⟨o, ho, hv⟩ := Ver.compare_obj (ca.trans cb.symm) hka hkb
  refine ⟨ka, kb, o, hka, hkb, ho, ?_, ?_⟩ <;> (simp only [Members.verCmp, hv]; cases o <;> decide)

theorem C14_lawful_version (n : Str) : Lawful (Members.version n) verDom where
  irrefl a ha := by
    obtain ⟨ka, kb, o, hka, hkb, ho, h1, _⟩ := ver_tri ha ha
    rw [hka] at hkb; cases hkb
    rw [Ver.cmp_refl] at ho; cases ho
    exact h1
  trans a b c ha hb hc h1 h2 := by
    obtain ⟨ka, kb, o1, hka, hkb, ho1, e1, _⟩ := ver_tri ha hb
    obtain ⟨kb', kc, o2, hkb', hkc, ho2, e2, _⟩ := ver_tri hb hc
    obtain ⟨ka', kc', o3, hka', hkc', ho3, e3, _⟩ := ver_tri ha hc
    rw [hkb] at hkb'; cases hkb'; rw [hka] at hka'; cases hka'; rw [hkc] at hkc'; cases hkc'
    have h1' : (Members.verCmp a b == some (-1)) = true := h1
    have h2' : (Members.verCmp b c == some (-1)) = true := h2
    rw [e1] at h1'; rw [e2] at h2'
    have o1lt : o1 = .lt := by simpa using h1'
    have o2lt : o2 = .lt := by simpa using h2'
    subst o1lt; subst o2lt
    rw [Ver.cmp_trans_lt ho1 ho2] at ho3; cases ho3
    exact e3
  total a b ha hb := by
    obtain ⟨ka, kb, o, hka, hkb, ho, e1, e2⟩ := ver_tri ha hb
    obtain ⟨kb', ka', o', hkb', hka', ho', e1', _⟩ := ver_tri hb ha
    rw [hkb] at hkb'; cases hkb'; rw [hka] at hka'; cases hka'
    rw [Ver.cmp_swap ho] at ho'; cases ho'
    cases o with
    | lt => exact Or.inl e1
    | eq => exact Or.inr (Or.inl e2)
    | gt => exact Or.inr (Or.inr e1')
  eq_refl a ha := by
    obtain ⟨ka, kb, o, hka, hkb, ho, _, h2⟩ := ver_tri ha ha
    rw [hka] at hkb; cases hkb
    rw [Ver.cmp_refl] at ho; cases ho
    exact h2
  eq_symm a b ha hb h := by
    obtain ⟨ka, kb, o, hka, hkb, ho, _, e2⟩ := ver_tri ha hb
    obtain ⟨kb', ka', o', hkb', hka', ho', _, e2'⟩ := ver_tri hb ha
    rw [hkb] at hkb'; cases hkb'; rw [hka] at hka'; cases hka'
    rw [Ver.cmp_swap ho] at ho'; cases ho'
    have h' : (Members.verCmp a b == some 0) = true := h
    rw [e2] at h'
    have : o = .eq := by simpa using h'
    subst this
    exact e2'
  eq_not_lt a b ha hb h := by
    obtain ⟨ka, kb, o, hka, hkb, ho, e1, e2⟩ := ver_tri ha hb
    have h' : (Members.verCmp a b == some 0) = true := h
    rw [e2] at h'
    have : o = .eq := by simpa using h'
    subst this
    exact e1
  eq_trans a b c ha hb hc h1 h2 := by
    obtain ⟨ka, kb, o1, hka, hkb, ho1, _, e1⟩ := ver_tri ha hb
    obtain ⟨kb', kc, o2, hkb', hkc, ho2, _, e2⟩ := ver_tri hb hc
    obtain ⟨ka', kc', o3, hka', hkc', ho3, _, e3⟩ := ver_tri ha hc
    rw [hkb] at hkb'; cases hkb'; rw [hka] at hka'; cases hka'; rw [hkc] at hkc'; cases hkc'
    have h1' : (Members.verCmp a b == some 0) = true := h1
    have h2' : (Members.verCmp b c == some 0) = true := h2
    rw [e1] at h1'; rw [e2] at h2'
    have o1e : o1 = .eq := by simpa using h1'
    have o2e : o2 = .eq := by simpa using h2'
    subst o1e; subst o2e
    rw [Ver.cmp_eq_left ho1 ho2] at ho3; cases ho3
    exact e3
  lt_eq a b c ha hb hc h1 h2 := by
    obtain ⟨ka, kb, o1, hka, hkb, ho1, e1, _⟩ := ver_tri ha hb
    obtain ⟨kb', kc, o2, hkb', hkc, ho2, _, e2⟩ := ver_tri hb hc
    obtain ⟨ka', kc', o3, hka', hkc', ho3, e3, _⟩ := ver_tri ha hc
    rw [hkb] at hkb'; cases hkb'; rw [hka] at hka'; cases hka'; rw [hkc] at hkc'; cases hkc'
    have h1' : (Members.verCmp a b == some (-1)) = true := h1
    have h2' : (Members.verCmp b c == some 0) = true := h2
    rw [e1] at h1'; rw [e2] at h2'
    have o1e : o1 = .lt := by simpa using h1'
    have o2e : o2 = .eq := by simpa using h2'
    subst o1e; subst o2e
    rw [Ver.cmp_eq_right ho1 ho2] at ho3; cases ho3
    exact e3
  eq_lt a b c ha hb hc h1 h2 := by
    obtain ⟨ka, kb, o1, hka, hkb, ho1, _, e1⟩ := ver_tri ha hb
    obtain ⟨kb', kc, o2, hkb', hkc, ho2, e2, _⟩ := ver_tri hb hc
    obtain ⟨ka', kc', o3, hka', hkc', ho3, e3, _⟩ := ver_tri ha hc
    rw [hkb] at hkb'; cases hkb'; rw [hka] at hka'; cases hka'; rw [hkc] at hkc'; cases hkc'
    have h1' : (Members.verCmp a b == some 0) = true := h1
    have h2' : (Members.verCmp b c == some (-1)) = true := h2
    rw [e1] at h1'; rw [e2] at h2'
    have o1e : o1 = .eq := by simpa using h1'
    have o2e : o2 = .lt := by simpa using h2'
    subst o1e; subst o2e
    rw [Ver.cmp_eq_left ho1 ho2] at ho3; cases ho3
    exact e3

-- groups: the strict product order -------------------------------------------------------------------

/-- domain condition: every member value of `g` that exists lies in the member's domain -/
def InDom (dom : (m : Member) → m.Val → Prop) (d : Decl) (g : GObj) : Prop :=
  ∀ m ∈ d, ∀ v, memVal m g = .ok v → dom m v

def le3 (t : Bool × Bool × Bool) : Bool := !t.2.2
def lt3 (t : Bool × Bool × Bool) : Bool := t.1
def gt3 (t : Bool × Bool × Bool) : Bool := t.2.2
def eq3 (t : Bool × Bool × Bool) : Bool := t.2.1

theorem memTri_spec {m : Member} {a b : GObj} {t : Bool × Bool × Bool} (h : memTri m a b = .ok t) :
    ∃ va vb, memVal m a = .ok va ∧ memVal m b = .ok vb ∧ t = tri m va vb := by
  unfold memTri at h
  cases ha : memVal m a with
  | error e => simp [ha, bind, Except.bind] at h
  | ok va =>
    cases hb : memVal m b with
    | error e => simp [ha, hb, bind, Except.bind] at h
    | ok vb =>
      simp [ha, hb, bind, Except.bind, pure, Except.pure] at h
      exact ⟨va, vb, rfl, rfl, h.symm⟩

theorem memTri_of {m : Member} {a b : GObj} {va vb : m.Val} (ha : memVal m a = .ok va) (hb : memVal m b = .ok vb) :
    memTri m a b = .ok (tri m va vb) := by
  simp [memTri, ha, hb, bind, Except.bind, pure, Except.pure]

theorem cmpAll_cons (m : Member) (d : Decl) (a b : GObj) :
    cmpAll (m :: d) a b = (do let t ← memTri m a b; let ts ← cmpAll d a b; pure (t :: ts)) := by
  simp [cmpAll, List.mapM_cons]

theorem cmpAll_cons_ok {m : Member} {d : Decl} {a b : GObj} {l : List (Bool × Bool × Bool)} (h : cmpAll (m :: d) a b = .ok l) :
    ∃ t ts, memTri m a b = .ok t ∧ cmpAll d a b = .ok ts ∧ l = t :: ts := by
  rw [cmpAll_cons] at h
  cases h1 : memTri m a b with
  | error e => simp [h1, bind, Except.bind] at h
  | ok t =>
    cases h2 : cmpAll d a b with
    | error e => simp [h1, h2, bind, Except.bind] at h
    | ok ts =>
      simp [h1, h2, bind, Except.bind, pure, Except.pure] at h
      exact ⟨t, ts, rfl, rfl, h.symm⟩

section member
variable {m : Member} {dom : m.Val → Prop} (L : Lawful m dom) {x y z : m.Val} (hx : dom x) (hy : dom y) (hz : dom z)
include L hx hy

theorem le3_iff : le3 (tri m x y) = true ↔ (m.ltVal x y = true ∨ m.eqVal x y = true) := by
  simp only [le3, tri]
  cases h1 : m.ltVal x y <;> cases h2 : m.eqVal x y <;> simp

theorem gt3_iff_lt_swap : gt3 (tri m x y) = lt3 (tri m y x) := by
  simp only [gt3, lt3, tri]
  rcases L.total x y hx hy with h | h | h
  · have h' : m.ltVal y x = false := by
      cases hc : m.ltVal y x with
      | false => rfl
      | true => have := L.trans x y x hx hy hx h hc; rw [L.irrefl x hx] at this; cases this
    simp [h, h']
  · have h1 := L.eq_not_lt x y hx hy h
    have h2 := L.eq_not_lt y x hy hx (L.eq_symm x y hx hy h)
    simp [h, h1, h2]
  · have h' : m.ltVal x y = false := by
      cases hc : m.ltVal x y with
      | false => rfl
      | true => have := L.trans x y x hx hy hx hc h; rw [L.irrefl x hx] at this; cases this
    have h2 : m.eqVal x y = false := by
      cases hc : m.eqVal x y with
      | false => rfl
      | true => have := L.eq_not_lt y x hy hx (L.eq_symm x y hx hy hc); rw [h] at this; cases this
    simp [h, h', h2]

include hz
theorem le3_trans (h1 : le3 (tri m x y) = true) (h2 : le3 (tri m y z) = true) : le3 (tri m x z) = true := by
  rw [le3_iff L hx hy] at h1
  rw [le3_iff L hy hz] at h2
  rw [le3_iff L hx hz]
  rcases h1 with h1 | h1 <;> rcases h2 with h2 | h2
  · exact Or.inl (L.trans x y z hx hy hz h1 h2)
  · exact Or.inl (L.lt_eq x y z hx hy hz h1 h2)
  · exact Or.inl (L.eq_lt x y z hx hy hz h1 h2)
  · exact Or.inr (L.eq_trans x y z hx hy hz h1 h2)

theorem lt3_le3_trans (h1 : lt3 (tri m x y) = true) (h2 : le3 (tri m y z) = true) : lt3 (tri m x z) = true := by
  rw [le3_iff L hy hz] at h2
  simp only [lt3, tri] at h1 ⊢
  rcases h2 with h2 | h2
  · exact L.trans x y z hx hy hz h1 h2
  · exact L.lt_eq x y z hx hy hz h1 h2

theorem le3_lt3_trans (h1 : le3 (tri m x y) = true) (h2 : lt3 (tri m y z) = true) : lt3 (tri m x z) = true := by
  rw [le3_iff L hx hy] at h1
  simp only [lt3, tri] at h2 ⊢
  rcases h1 with h1 | h1
  · exact L.trans x y z hx hy hz h1 h2
  · exact L.eq_lt x y z hx hy hz h1 h2
end member

theorem lt3_irrefl {m : Member} {dom : m.Val → Prop} (L : Lawful m dom) {x : m.Val} (hx : dom x) : lt3 (tri m x x) = false := by
  simp [lt3, tri, L.irrefl x hx]

/-- the member-wise core of transitivity, by induction over the declaration -/
theorem trans_aux (dom : (m : Member) → m.Val → Prop) (a b c : GObj) :
    ∀ (d : Decl), (∀ m ∈ d, Lawful m (dom m)) → InDom dom d a → InDom dom d b → InDom dom d c →
    ∀ l1 l2, cmpAll d a b = .ok l1 → cmpAll d b c = .ok l2 →
    ∃ l3, cmpAll d a c = .ok l3
      ∧ (l1.all le3 = true → l2.all le3 = true → l3.all le3 = true)
      ∧ (l1.all le3 = true → l2.all le3 = true → (l1.any lt3 = true ∨ l2.any lt3 = true) → l3.any lt3 = true) := by
  intro d
  induction d with
  | nil =>
    intro _ _ _ _ l1 l2 h1 h2
    simp [cmpAll, pure, Except.pure] at h1 h2
    subst h1; subst h2
    exact ⟨[], by simp [cmpAll, pure, Except.pure], by simp, by simp⟩
  | cons m d ih =>
    intro hL ha hb hc l1 l2 h1 h2
    obtain ⟨t1, ts1, ht1, hts1, rfl⟩ := cmpAll_cons_ok h1
    obtain ⟨t2, ts2, ht2, hts2, rfl⟩ := cmpAll_cons_ok h2
    obtain ⟨va, vb, hva, hvb, rfl⟩ := memTri_spec ht1
    obtain ⟨vb', vc, hvb', hvc, rfl⟩ := memTri_spec ht2
    have : vb' = vb := by rw [hvb] at hvb'; exact (Except.ok.inj hvb').symm
    subst this
    have Lm := hL m (by simp)
    have da := ha m (by simp) va hva
    have db := hb m (by simp) vb' hvb
    have dc := hc m (by simp) vc hvc
    obtain ⟨ts3, hts3, hle, hlt⟩ := ih (fun m' hm' => hL m' (by simp [hm'])) (fun m' hm' => ha m' (by simp [hm']))
      (fun m' hm' => hb m' (by simp [hm'])) (fun m' hm' => hc m' (by simp [hm'])) ts1 ts2 hts1 hts2
    refine ⟨tri m va vc :: ts3, ?_, ?_, ?_⟩
    · rw [cmpAll_cons, memTri_of hva hvc, hts3]; rfl
    · intro h1 h2
      simp only [List.all_cons, Bool.and_eq_true] at h1 h2 ⊢
      exact ⟨le3_trans Lm da db dc h1.1 h2.1, hle h1.2 h2.2⟩
    · intro h1 h2 h3
      simp only [List.all_cons, List.any_cons, Bool.and_eq_true, Bool.or_eq_true] at h1 h2 h3 ⊢
      rcases h3 with (h3 | h3) | (h3 | h3)
      · exact Or.inl (lt3_le3_trans Lm da db dc h3 h2.1)
      · exact Or.inr (hlt h1.2 h2.2 (Or.inl h3))
      · exact Or.inl (le3_lt3_trans Lm da db dc h1.1 h3)
      · exact Or.inr (hlt h1.2 h2.2 (Or.inr h3))

theorem lt_ok_true {d : Decl} {a b : GObj} (h : Group.lt d a b = .ok true) :
    ∃ l, cmpAll d a b = .ok l ∧ l.any lt3 = true ∧ l.all le3 = true := by
  unfold Group.lt at h
  cases hc : cmpAll d a b with
  | error e => simp [hc, Except.map] at h
  | ok l =>
    simp only [hc, Except.map, Except.ok.injEq, Bool.and_eq_true] at h
    exact ⟨l, rfl, h.1, h.2⟩

/-- **a < b is the strict product order**: no member of a is greater, and at least one is smaller -/
theorem C14_group_product (d : Decl) (a b : GObj) (l : List (Bool × Bool × Bool)) (h : cmpAll d a b = .ok l) :
    Group.lt d a b = .ok ((l.any fun t => t.1) && (l.all fun t => !t.2.2))
  ∧ Group.gt d a b = .ok ((l.any fun t => t.2.2) && (l.all fun t => !t.1))
  ∧ Group.eq d a b = .ok (l.all fun t => t.2.1) := by
  simp [Group.lt, Group.gt, Group.eq, h, Except.map]

/-- **transitivity** of the group order, for every declaration with lawful members -/
theorem C14_group_trans (dom : (m : Member) → m.Val → Prop) (d : Decl) (hL : ∀ m ∈ d, Lawful m (dom m)) (a b c : GObj)
    (ha : InDom dom d a) (hb : InDom dom d b) (hc : InDom dom d c)
    (h1 : Group.lt d a b = .ok true) (h2 : Group.lt d b c = .ok true) : Group.lt d a c = .ok true := by
  obtain ⟨l1, hl1, hany1, hall1⟩ := lt_ok_true h1
  obtain ⟨l2, hl2, _, hall2⟩ := lt_ok_true h2
  obtain ⟨l3, hl3, hle, hlt⟩ := trans_aux dom a b c d hL ha hb hc l1 l2 hl1 hl2
  have e1 := hle hall1 hall2
  have e2 := hlt hall1 hall2 (Or.inl hany1)
  have e1' : (l3.all fun t => !t.2.2) = true := e1
  have e2' : (l3.any fun t => t.1) = true := e2
  simp [Group.lt, hl3, Except.map, e1', e2']

/-- the member-wise core of irreflexivity -/
theorem irrefl_aux (dom : (m : Member) → m.Val → Prop) (a : GObj) :
    ∀ (d : Decl), (∀ m ∈ d, Lawful m (dom m)) → InDom dom d a → ∀ l, cmpAll d a a = .ok l → l.any lt3 = false := by
  intro d
  induction d with
  | nil => intro _ _ l h; simp [cmpAll, pure, Except.pure] at h; subst h; rfl
  | cons m d ih =>
    intro hL ha l h
    obtain ⟨t, ts, ht, hts, rfl⟩ := cmpAll_cons_ok h
    obtain ⟨va, va', hva, hva', rfl⟩ := memTri_spec ht
    have : va' = va := by rw [hva] at hva'; exact (Except.ok.inj hva').symm
    subst this
    have := ih (fun m' hm' => hL m' (by simp [hm'])) (fun m' hm' => ha m' (by simp [hm'])) ts hts
    simp [List.any_cons, this, lt3_irrefl (hL m (by simp)) (ha m (by simp) va' hva)]

/-- **irreflexivity**: no group is smaller than itself -/
theorem C14_group_irrefl (dom : (m : Member) → m.Val → Prop) (d : Decl) (hL : ∀ m ∈ d, Lawful m (dom m)) (a : GObj)
    (ha : InDom dom d a) : Group.lt d a a ≠ .ok true := by
  intro h
  obtain ⟨l, hl, hany, _⟩ := lt_ok_true h
  rw [irrefl_aux dom a d hL ha l hl] at hany
  cases hany

/-- **asymmetry** -/
theorem C14_group_asymm (dom : (m : Member) → m.Val → Prop) (d : Decl) (hL : ∀ m ∈ d, Lawful m (dom m)) (a b : GObj)
    (ha : InDom dom d a) (hb : InDom dom d b) (h1 : Group.lt d a b = .ok true) : Group.lt d b a ≠ .ok true :=
  fun h2 => C14_group_irrefl dom d hL a ha (C14_group_trans dom d hL a b a ha hb ha h1 h2)

/-- the member-wise core of `a > b ⇔ b < a` -/
theorem converse_aux (dom : (m : Member) → m.Val → Prop) (a b : GObj) :
    ∀ (d : Decl), (∀ m ∈ d, Lawful m (dom m)) → InDom dom d a → InDom dom d b → ∀ l, cmpAll d a b = .ok l →
    ∃ l', cmpAll d b a = .ok l' ∧ l.any gt3 = l'.any lt3 ∧ l.all (fun t => !lt3 t) = l'.all le3 := by
  intro d
  induction d with
  | nil =>
    intro _ _ _ l h
    simp [cmpAll, pure, Except.pure] at h; subst h
    exact ⟨[], by simp [cmpAll, pure, Except.pure], rfl, rfl⟩
  | cons m d ih =>
    intro hL ha hb l h
    obtain ⟨t, ts, ht, hts, rfl⟩ := cmpAll_cons_ok h
    obtain ⟨va, vb, hva, hvb, rfl⟩ := memTri_spec ht
    obtain ⟨ts', hts', e1, e2⟩ := ih (fun m' hm' => hL m' (by simp [hm'])) (fun m' hm' => ha m' (by simp [hm']))
      (fun m' hm' => hb m' (by simp [hm'])) ts hts
    have Lm := hL m (by simp)
    have da := ha m (by simp) va hva
    have db := hb m (by simp) vb hvb
    refine ⟨tri m vb va :: ts', ?_, ?_, ?_⟩
    · rw [cmpAll_cons, memTri_of hvb hva, hts']; rfl
    · simp only [List.any_cons, e1, gt3_iff_lt_swap Lm da db]
    · have : (!lt3 (tri m va vb)) = le3 (tri m vb va) := by
        have := gt3_iff_lt_swap Lm db da
        simp only [le3, lt3, gt3] at this ⊢
        rw [this]
      simp only [List.all_cons, e2, this]

/-- **a > b iff b < a** -/
theorem C14_group_converse (dom : (m : Member) → m.Val → Prop) (d : Decl) (hL : ∀ m ∈ d, Lawful m (dom m)) (a b : GObj)
    (ha : InDom dom d a) (hb : InDom dom d b) (x : Bool) (h : Group.gt d a b = .ok x) : Group.lt d b a = .ok x := by
  unfold Group.gt at h
  cases hc : cmpAll d a b with
  | error e => simp [hc, Except.map] at h
  | ok l =>
    obtain ⟨l', hl', e1, e2⟩ := converse_aux dom a b d hL ha hb l hc
    simp only [hc, Except.map, Except.ok.injEq] at h
    have e1' : (l.any fun t => t.2.2) = (l'.any fun t => t.1) := e1
    have e2' : (l.all fun t => !t.1) = (l'.all fun t => !t.2.2) := e2
    simp [Group.lt, hl', Except.map, ← h, e1', e2']

-- max / min --------------------------------------------------------------------------------------------

/-- CPython's `max(iterable)`: keep the first item, replace it whenever `item > best` -/
def pyMaxGo {α} (gt : α → α → Bool) : α → List α → α
  | best, [] => best
  | best, x :: xs => pyMaxGo gt (if gt x best then x else best) xs

def pyMax {α} (gt : α → α → Bool) : List α → Option α
  | [] => none
  | x :: xs => some (pyMaxGo gt x xs)

theorem pyMaxGo_dominant {α} (gt : α → α → Bool) (t : α) (htt : gt t t = false) :
    ∀ (xs : List α) (best : α), (∀ x, x = best ∨ x ∈ xs → x ≠ t → gt t x = true ∧ gt x t = false) → (best = t ∨ t ∈ xs) →
      pyMaxGo gt best xs = t := by
  intro xs
  induction xs with
  | nil => intro best _ h; simpa [pyMaxGo] using h
  | cons x xs ih =>
    intro best hdom h
    simp only [pyMaxGo]
    by_cases hb : best = t
    · subst hb
      have hx : gt x best = false := by
        by_cases hxt : x = best
        · subst hxt; exact htt
        · exact (hdom x (Or.inr (by simp)) hxt).2
      simp only [hx, Bool.false_eq_true, ↓reduceIte]
      exact ih best (fun y hy hne => hdom y (by rcases hy with hy | hy; exact Or.inl hy; exact Or.inr (by simp [hy])) hne) (Or.inl rfl)
    · have hbest := hdom best (Or.inl rfl) hb
      by_cases hxt : x = t
      · subst hxt
        simp only [hbest.1, ↓reduceIte]
        exact ih x (fun y hy hne => by
          rcases hy with hy | hy
          · exact absurd hy hne
          · exact hdom y (Or.inr (by simp [hy])) hne) (Or.inl rfl)
      · have ht : t ∈ xs := by
          rcases h with h | h
          · exact absurd h hb
          · simpa [Ne.symm hxt] using h
        refine ih _ (fun y hy hne => ?_) (Or.inr ht)
        rcases hy with hy | hy
        · by_cases hg : gt x best = true
          · simp only [hg, ↓reduceIte] at hy; subst hy; exact hdom y (Or.inr (by simp)) hne
          · simp only [hg, Bool.false_eq_true, ↓reduceIte] at hy; subst hy; exact hbest
        · exact hdom y (Or.inr (by simp [hy])) hne

/-- **max returns the dominating element whatever the order of the list**: for any comparison `gt` (the
    group `>`), if `t` is in the list and every other element is below it, CPython's `max` loop returns
    `t`.  With `gt := <` swapped this is `min` (`C14_min`). -/
theorem C14_max {α} (gt : α → α → Bool) (t : α) (l : List α) (htt : gt t t = false) (hmem : t ∈ l)
    (hdom : ∀ x ∈ l, x ≠ t → gt t x = true ∧ gt x t = false) : pyMax gt l = some t := by
  cases l with
  | nil => simp at hmem
  | cons x xs =>
    simp only [pyMax, Option.some.injEq]
    refine pyMaxGo_dominant gt t htt xs x (fun y hy hne => hdom y (by rcases hy with hy | hy <;> simp [hy]) hne) ?_
    simpa [eq_comm] using hmem

/-- CPython's `min` is the same loop with `item < best` -/
theorem C14_min {α} (lt : α → α → Bool) (t : α) (l : List α) (htt : lt t t = false) (hmem : t ∈ l)
    (hdom : ∀ x ∈ l, x ≠ t → lt t x = true ∧ lt x t = false) : pyMax lt l = some t :=
  C14_max lt t l htt hmem hdom

/-- every permutation of a list with a dominating element has the same `max` -/
theorem C14_max_perm {α} (gt : α → α → Bool) (t : α) (l l' : List α) (hp : l.Perm l') (htt : gt t t = false) (hmem : t ∈ l)
    (hdom : ∀ x ∈ l, x ≠ t → gt t x = true ∧ gt x t = false) : pyMax gt l' = pyMax gt l := by
  rw [C14_max gt t l htt hmem hdom]
  exact C14_max gt t l' htt (hp.mem_iff.mp hmem) (fun x hx => hdom x (hp.mem_iff.mpr hx))

end C14
