import FmtModel.Props.C16g
import FmtModel.Props.C16a
