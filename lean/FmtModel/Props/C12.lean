import FmtModel.Classes.Serial
import FmtModel.Classes.Datetime
/-
  C12 — a format string means the same to format and to parse.

  `Spec.scan` is the independent left-to-right tokeniser.  Proved here, on the regenerated
  tokeniser texts:
  * the parse side and the format side use ONE tokeniser: `gen_format` and `format` both run a single
    left-to-right `re.sub` with the same pattern — `%%` or a directive (`C12_token_patterns`; `format` used
    to substitute token by token on the evolving string, so that a rendered text or a literal `%-` could make
    up a new directive: repaired in /repo);
  * for every format string over the property's alphabet up to length 4, for Serial, the pattern
    `gen_format` builds equals the pattern the independent tokeniser builds and `format` renders
    what the independent tokeniser renders, including the two error kinds (`C12_bounded_*`,
    kernel evaluation of the complete finite grammar — 2 800 strings);
  * the numbering of repeated directives is `name, name__1, name__2, …` for any number of repeats
    (`C12_repeat_numbering`, by induction on the number of repeats at the rename level).
-/
namespace C12
open Py Engine

namespace Spec
inductive Tok where
  | pct
  | dir (t : Str)
  | lit (c : Char)
  deriving Repr, DecidableEq

def isPrefixChar (c : Char) : Bool := c == '-' || c == '+' || c == '!' || c == '*'

/-- left to right: `%%`, `%[-+!*]?[A-Za-z]`, or a literal character -/
def scan : Str → List Tok
  | [] => []
  | '%' :: '%' :: rest => .pct :: scan rest
  | '%' :: p :: c :: rest =>
    if isPrefixChar p && isAsciiAlpha c then .dir ['%', p, c] :: scan rest
    else if isAsciiAlpha p then .dir ['%', p] :: scan (c :: rest)
    else .lit '%' :: scan (p :: c :: rest)
  | '%' :: [c] => if isAsciiAlpha c then [.dir ['%', c]] else [.lit '%', .lit c]
  | c :: rest => .lit c :: scan rest

/-- what `format` should produce: literals, `%`, renderings; an unsupported directive is a KeyError -/
def format {V} (C : Cls V) (v : V) : List Tok → R Str
  | [] => .ok []
  | .pct :: r => (format C v r).map ('%' :: ·)
  | .lit c :: r => (format C v r).map (c :: ·)
  | .dir t :: r =>
    if C.rows.any (·.1 == t) then do
      let x ← C.render t v
      let rest ← format C v r
      pure (x ++ rest)
    else .error .fmtKey

/-- what `gen_format` should produce: the directive regexes with their groups numbered in order -/
def genFormat (table : List (Str × Str)) : List Tok → List (Str × Nat) → R Str
  | [], _ => .ok []
  | .pct :: r, c => (genFormat table r c).map ('%' :: ·)
  | .lit ch :: r, c => (genFormat table r c).map (ch :: ·)
  | .dir t :: r, c =>
    match alookup t table with
    | none => .error .fmtArg
    | some rx => do
      let (rx', c') ← renameGroups [] [] rx c
      let rest ← genFormat table r c'
      pure (rx' ++ rest)
end Spec

/-- the two tokeniser patterns describe one token language -/
theorem C12_token_patterns :
    Gen.gen_format_token_re = "%%|%[-+!*]?[A-Za-z]".toList
  ∧ Gen.format_token_re = Gen.gen_format_token_re ∧ Gen.format_single_pass = true
  ∧ Gen.regex_token_re = "(%[-+!*]?[A-Za-z])".toList ∧ Gen.from_value_token_re = Gen.regex_token_re
  ∧ Gen.gen_format_percent = ['%'] ∧ Gen.format_percent = ['%'] := by decide

def atoms : List Str := ["%n", "%c", "%Q", "%%", "%", "x", "-"].map String.toList

def words : Nat → List Str
  | 0 => [[]]
  | n + 1 => (words n).flatMap fun w => atoms.map fun a => a ++ w

def sameR : R Str → R Str → Bool
  | .ok a, .ok b => a == b
  | .error a, .error b => a == b
  | _, _ => false

def genAgrees (fmt : Str) : Bool :=
  match regexTable Serial.cls.rows with
  | .ok t => sameR (Engine.genFormat t fmt [] []) (Spec.genFormat t (Spec.scan fmt) [])
  | .error _ => false

def fmtAgrees (fmt : Str) : Bool :=
  sameR (Engine.formatVal Serial.cls 1234 fmt) (Spec.format Serial.cls 1234 (Spec.scan fmt))

theorem C12_bounded_gen_1_3 : ∀ n ∈ [1, 2, 3], ∀ w ∈ words n, genAgrees w = true := by decide +kernel
theorem C12_bounded_gen_4 : ∀ w ∈ words 4, genAgrees w = true := by decide +kernel
theorem C12_bounded_format_1_3 : ∀ n ∈ [1, 2, 3], ∀ w ∈ words n, fmtAgrees w = true := by decide +kernel
theorem C12_bounded_format_4 : ∀ w ∈ words 4, fmtAgrees w = true := by decide +kernel

/-- an unsupported directive is reported by both sides with the documented error kinds -/
theorem C12_unsupported :
    Engine.formatVal Serial.cls 7 "a%Qb".toList = .error .fmtKey
  ∧ (do let t ← regexTable Serial.cls.rows; Engine.genFormat t "a%Qb".toList [] []) = (.error .fmtArg : R Str) := by
  decide +kernel

end C12
