import FmtModel.Props.C18g
import FmtModel.Props.C18p
