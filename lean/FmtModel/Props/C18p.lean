import FmtModel.Props.C18g
/-
  C18 — parse agreement on the WHOLE domain of the two fixed-width Serial directives: for every n < 1000 the
  three-digit text of n is read as n by both implementations with `%p`, and for every n < 256 the eight-bit text of
  n is read as n by both with `%b`, in strict and non-strict mode (kernel evaluation of the complete finite domains).
-/
namespace C18
open Py Engine

def padAgree (n : Nat) : Bool :=
  let text := rjust (showNat n) 3 '0'
  [false, true].all fun strict =>
    decide (Assets.parseSerial text (some "%p".toList) strict = .ok n) &&
    decide ((do let o ← Engine.parse Serial.cls text (some "%p".toList) strict; Serial.value o) = .ok n)

def binAgree (n : Nat) : Bool :=
  match Serial.cls.render "%b".toList n with
  | .ok text =>
    [false, true].all fun strict =>
      decide (Assets.parseSerial text (some "%b".toList) strict = .ok n) &&
      decide ((do let o ← Engine.parse Serial.cls text (some "%b".toList) strict; Serial.value o) = .ok n)
  | .error _ => false

def chunk (f : Nat → Bool) (lo len : Nat) : Bool := (List.range len).all fun i => f (lo + i)

theorem pad_0 : chunk padAgree 0 250 = true := by decide +kernel
theorem pad_250 : chunk padAgree 250 250 = true := by decide +kernel
theorem pad_500 : chunk padAgree 500 250 = true := by decide +kernel
theorem pad_750 : chunk padAgree 750 250 = true := by decide +kernel
theorem bin_0 : chunk binAgree 0 256 = true := by decide +kernel

theorem chunk_spec {f : Nat → Bool} {lo len : Nat} (h : chunk f lo len = true) (i : Nat) (hi : i < len) : f (lo + i) = true :=
  (List.all_eq_true.mp h) i (List.mem_range.mpr hi)

/-- **`%p`: both implementations read every three-digit text as the same value** -/
theorem C18_pad_agree (n : Nat) (hn : n < 1000) : padAgree n = true := by
  have hq : n / 250 = 0 ∨ n / 250 = 1 ∨ n / 250 = 2 ∨ n / 250 = 3 := by omega
  have hm : n % 250 < 250 := Nat.mod_lt _ (by omega)
  rcases hq with h | h | h | h
  · have e : n = 0 + n % 250 := by omega
    rw [e]; exact chunk_spec pad_0 _ hm
  · have e : n = 250 + n % 250 := by omega
    rw [e]; exact chunk_spec pad_250 _ hm
  · have e : n = 500 + n % 250 := by omega
    rw [e]; exact chunk_spec pad_500 _ hm
  · have e : n = 750 + n % 250 := by omega
    rw [e]; exact chunk_spec pad_750 _ hm

/-- **`%b`: both implementations read every eight-bit text as the same value** -/
theorem C18_bin_agree (n : Nat) (hn : n < 256) : binAgree n = true := by
  have e : n = 0 + n := by omega
  rw [e]; exact chunk_spec bin_0 _ hn

end C18
