import FmtModel.Props.C15g
import FmtModel.Props.C15a
