import FmtModel.Props.C11a
namespace C11
theorem C11_pre_strict : ∀ lead ∈ ["", "."], ∀ l ∈ preLetters, ∀ i ∈ inners, preTerm lead l i "12" true = true := by
  decide +kernel
end C11
