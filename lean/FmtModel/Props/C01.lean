import FmtModel.Props.C09g
import FmtModel.Props.C02
import FmtModel.Classes.Version
import FmtModel.Classes.Naming
/-
  C01 — what a formatter prints, it reads back.

  * `C01_serial_n`  : for EVERY natural number n and both modes, `format` with `%n` prints `str(n)`,
                      `parse` with `%n` reads it back to an object of value n, and re-rendering that
                      object reproduces the text (regenerated tables; unbounded n).
  * the directive laws of C02 (`C02_law_*`) are the per-directive round trips of Datetime over the whole
                      range of every finite field.
  * `C01_roundtrip_*` : kernel-evaluated round trips (format → parse → re-render, value compared) for
                      each of the five formatters on multi-directive formats in both modes.
  The general statement for all values x all separator-inert formats needs the regex composition
  lemma (separator lemma) on the generated pattern text; it is validated by the sweep
  (harness/props/C01.py), not proved.
-/
namespace C01
open Py Engine

theorem replaceGo_no_head (old new : Str) (h : Char) (t : Str) (hold : old = h :: t) :
    ∀ (s : Str), (∀ c ∈ s, c ≠ h) → replaceGo old new none 0 s = s := by
  intro s
  induction s with
  | nil => intro _; rfl
  | cons c cs ih =>
    intro hs
    have hc : c ≠ h := hs c (by simp)
    have : old.isPrefixOf (c :: cs) = false := by
      subst hold
      simp [List.isPrefixOf, Ne.symm hc]
    simp only [replaceGo, this, Bool.and_false, Bool.false_eq_true, ↓reduceIte]
    rw [ih (fun x hx => hs x (by simp [hx]))]

/-- a text without the first character of `old` is untouched by `replace(old, new)` -/
theorem replaceAll_no_head (s old new : Str) (h : Char) (t : Str) (hold : old = h :: t) (hs : ∀ c ∈ s, c ≠ h) :
    replaceAll s old new = s := by
  unfold replaceAll
  subst hold
  simp only [List.isEmpty_cons, Bool.false_eq_true, ↓reduceIte]
  exact replaceGo_no_head (h :: t) new h t rfl s hs

theorem digit_ne_bracket {c : Char} (h : isAsciiDigit c = true) : c ≠ '[' := by
  intro e; subst e; simp [isAsciiDigit] at h

def finditerIs (pat s : Str) (want : List (Nat × Nat × Str × Caps)) : Bool :=
  match reOrErr pat with
  | .ok r => finditer r s == want
  | .error _ => false

theorem format_finditer_n : finditerIs Gen.format_token_re "%n".toList [(0, 2, "%n".toList, [])] = true := by decide +kernel

/-- `format("%n")` prints `str(n)` -/
theorem formatVal_n (n : Nat) : formatVal Serial.cls n "%n".toList = .ok (showNat n) := by
  unfold formatVal
  have hf := format_finditer_n
  unfold finditerIs at hf
  cases hr : reOrErr Gen.format_token_re with
  | error e => simp [hr] at hf
  | ok r =>
    simp only [hr] at hf
    have hf' : finditer r "%n".toList = [(0, 2, "%n".toList, [])] := by simpa using hf
    have hrow : (Serial.cls.rows.any fun r => r.1 == "%n".toList) = true := by decide +kernel
    have hr' : Serial.cls.render "%n".toList n = .ok (showNat n) := rfl
    have hne : ("%n".toList == ['%', '%']) = false := by decide
    simp only [bind, Except.bind, subFold, hf', List.foldlM, hne, Bool.false_eq_true, ↓reduceIte, hrow, hr', Except.map, pure, Except.pure]
    simp

/-- **Serial `%n` round trip, every n, both modes** -/
theorem C01_serial_n (n : Nat) (strict : Bool) :
    ∃ o, formatVal Serial.cls n "%n".toList = .ok (showNat n)
       ∧ Engine.parse Serial.cls (showNat n) (some "%n".toList) strict = .ok o
       ∧ Serial.value o = .ok n
       ∧ Engine.format Serial.cls o "%n".toList = .ok (showNat n) := by
  obtain ⟨o, hp, hv⟩ := C09.C09_serial_parse_decimal n strict
  refine ⟨o, formatVal_n n, hp, hv, ?_⟩
  have hv' : Serial.cls.value o = .ok n := hv
  simp only [Engine.format, hv', bind, Except.bind]
  exact formatVal_n n

-- kernel-evaluated round trips on multi-directive formats ------------------------------------------------

/-- format v with fmt, parse the text with fmt, re-render: same text, and the value is v -/
def roundTrip {V} [DecidableEq V] (C : Cls V) (v : V) (fmt : String) (strict : Bool) : Bool :=
  match formatVal C v fmt.toList with
  | .ok text =>
    (match Engine.parse C text (some fmt.toList) strict with
     | .ok o => C.value o == .ok v && Engine.format C o fmt.toList == .ok text
     | .error _ => false)
  | .error _ => false

theorem C01_roundtrip_serial : ∀ strict ∈ [false, true], ∀ n ∈ [0, 7, 10, 100, 999, 1000000, 9007199254740993],
    roundTrip Serial.cls n "%n-%c/%u #%b" strict = true ∧ (n < 1000 → roundTrip Serial.cls n "%p:%n" strict = true) := by
  decide +kernel

def tA : Cal.DT := { year := 2024, month := 2, day := 29, hour := 0, minute := 10, second := 20, micro := 300 }
def tB : Cal.DT := { year := 1999, month := 12, day := 31, hour := 12, minute := 0, second := 0, micro := 0 }
def tC : Cal.DT := { year := 9999, month := 10, day := 10, hour := 23, minute := 50, second := 59, micro := 999999 }

theorem C01_roundtrip_datetime : ∀ strict ∈ [false, true], ∀ t ∈ [tA, tB, tC],
    roundTrip Datetime.cls t "%Y-%m-%d %H:%M:%S.%f" strict = true
  ∧ roundTrip Datetime.cls t "%-d/%-m/%Y %-I:%-M:%-S %p %f" strict = true
  ∧ roundTrip Datetime.cls t "%n %f" strict = true
  ∧ roundTrip Datetime.cls t "%Y %j %H %M %S %f" strict = true
  ∧ roundTrip Datetime.cls t "%Y %U %w %H %M %S %f" strict = true
  ∧ roundTrip Datetime.cls t "%Y %W %u %I %p %M %S %f" strict = true
  ∧ roundTrip Datetime.cls t "%B %d %Y %H %M %S %f" strict = true := by decide +kernel

theorem C01_roundtrip_storage : ∀ strict ∈ [false, true], ∀ v ∈ [0, 8, 8192, 8388608, 123456789 * 8],
    roundTrip Storage.cls { coeff := v, exp := 0 } "%b" strict = true
  ∧ roundTrip Storage.cls { coeff := v, exp := 0 } "%B %b" strict = true := by decide +kernel

def nameOk (ws : List Str) (fmt : String) (strict : Bool) : Bool :=
  match formatVal Naming.cls ws fmt.toList with
  | .ok text =>
    (match Engine.parse Naming.cls text (some fmt.toList) strict with
     | .ok o => Naming.value o == .ok ws && Engine.format Naming.cls o fmt.toList == .ok text
     | .error _ => false)
  | .error _ => false

theorem C01_roundtrip_naming : ∀ strict ∈ [false, true], ∀ fmt ∈ ["%s", "%K/%a", "%c:%f", "%T;%v", "%n,%A", "%p=%F"],
    nameOk ["data".toList, "engineer".toList] fmt strict = true := by decide +kernel

def verOk (s fmt : String) (strict : Bool) : Bool :=
  match Ver.parse .pkg s.toList with
  | .ok v =>
    (match formatVal Version.cls v fmt.toList with
     | .ok text =>
       (match Engine.parse Version.cls text (some fmt.toList) strict with
        | .ok o =>
          (match Version.value o with
           | .ok v' => (match Ver.vcompare v (.obj v') with | .ok c => c == 0 | .error _ => false)
               && Engine.format Version.cls o fmt.toList == .ok text
           | .error _ => false)
        | .error _ => false)
     | .error _ => false)
  | .error _ => false

theorem C01_roundtrip_version : ∀ strict ∈ [false, true], ∀ s ∈ ["0.0.0", "1.2.3", "999.0.10", "10.999.99"],
    verOk s "%m.%n.%c" strict = true ∧ verOk s "%f" strict = true ∧ verOk s "%c %m %n" strict = true
  ∧ verOk ("2!" ++ s) "%e%m.%n.%c" strict = true ∧ verOk ("1!" ++ s) "%-e:%f" strict = true := by decide +kernel

end C01
