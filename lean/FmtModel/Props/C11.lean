import FmtModel.Props.C11a
import FmtModel.Props.C11b
import FmtModel.Props.C11c
import FmtModel.Props.C11d
namespace C11
open Py Engine

/-- the formatter's value is, by construction, what the version parser reads from the canonical string -/
theorem C11_value_is_parser (o : Obj) : Version.value o = Ver.parse .pkg (Version.string o) := by
  unfold Version.value; rfl


def canonPre (x : String) : String :=
  if x == "alpha" then "a" else if x == "beta" then "b" else if x == "c" || x == "pre" || x == "preview" then "rc" else x
def canonPost (x : String) : String := if x == "rev" || x == "r" then "post" else x

theorem C11_converter_pre : ∀ l ∈ ["a", "b", "c", "rc", "alpha", "beta", "pre", "preview"], ∀ i ∈ inners, ∀ n ∈ ["0", "7", "12"],
    Version.fromPrefix (l ++ i ++ n).toList = .ok (canonPre l ++ i ++ n).toList := by decide +kernel

theorem C11_converter_post : ∀ l ∈ ["post", "rev", "r"], ∀ i ∈ inners, ∀ n ∈ ["0", "7", "12"],
    Version.fromPrefix (l ++ i ++ n).toList = .ok (canonPost l ++ i ++ n).toList := by decide +kernel

theorem C11_converter_implicit : ∀ n ∈ ["0", "7", "12"], Version.fromPrefix ("-" ++ n).toList = .ok ("-" ++ n).toList := by
  decide +kernel

/-- segments combined with epoch and local label, zero numbers, release numbers at the bounds -/
theorem C11_combined : ∀ strict ∈ [false, true],
    mirrors "2!1.2.3_preview_12.post1.dev3+abc.1" "%e%m.%n.%c_%q.%p.%d%l" strict = true
  ∧ mirrors "0!0.0.0a0.post0.dev0+0" "%e%m.%n.%c%q.%p.%d%l" strict = true
  ∧ mirrors "1!999.999.999rc99-5.dev10+ubuntu.20" "%e%m.%n.%c%q%p.%d%l" strict = true
  ∧ mirrors "999.0.10-beta.2_rev-3-dev_4+a-b_c" "%m.%n.%c-%q_%p-%d%l" strict = true
  ∧ mirrors "10.20.30.post7+local" "%m.%n.%c.%p%l" strict = true
  ∧ mirrors "1.2.3c1.dev2" "%m.%n.%c%q.%d" strict = true
  ∧ mirrors "2!1.0.0" "%e%m.%n.%c" strict = true
  ∧ mirrors "1.2.3+abc" "%m.%n.%c%l" strict = true := by decide +kernel

end C11
