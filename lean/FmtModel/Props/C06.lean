import FmtModel.Members
import FmtModel.Assets
/-
  C06 — bad input is rejected completely and only with FormatterError.

  (a) whole string.  `C06_anchored` (general, any pattern `g`, any input): if the compiled pattern has
      the anchored shape `^ g \Z`, every successful search starts at the first character and leaves
      nothing unread — so an accepted string matches from first to last character and cannot be
      extended by a leading or trailing character (a newline included) unless the longer string itself
      matches.  `C06_anchors` pins the anchors `parse` really uses (classic engine, groups, asset
      engine) to `^` and `\Z` on the regenerated tables, and `C06_shape_base` checks the compiled
      pattern of every class's base format has that shape.  With `$` instead of `\Z` the theorem is
      false (witness: "12\n"); this was the defect repaired in /repo commit 8f80d0b.
  (b) exception family.  `C06_wrap` : whatever the constructor raises from Python's ValueError /
      ArithmeticError family (impossible dates, empty numbers, InvalidOperation, OverflowError) leaves
      `parse` as FormatterValueError; `C06_named` evaluates the impossible values the property names.
      That no OTHER foreign kind can arise from any string of any directive sequence is decided by
      the sweep over the pattern languages and by the correspondence (error kinds are compared).
-/
namespace C06
open Py Engine

theorem ms_eos (t : Nat) (s : Str) (c : Caps) : ∀ p ∈ ms .eos t s c, p.1 = [] := by
  intro p hp
  cases s with
  | nil => simp [ms] at hp; subst hp; rfl
  | cons x xs => simp [ms] at hp

/-- the right spine of a concatenation ends in `\Z` -/
def endsEos : RE → Bool
  | .eos => true
  | .seq _ b => endsEos b
  | _ => false

theorem ms_endsEos : ∀ (x : RE), endsEos x = true → ∀ (t : Nat) (s : Str) (c : Caps), ∀ p ∈ ms x t s c, p.1 = []
  | .eos, _, t, s, c => ms_eos t s c
  | .seq a b, h, t, s, c => by
    intro p hp
    simp only [ms, List.mem_flatMap] at hp
    obtain ⟨q, _, hq⟩ := hp
    exact ms_endsEos b (by simpa [endsEos] using h) t q.1 q.2 p hq
  | .eps, h, _, _, _ => by simp [endsEos] at h
  | .cls _ _, h, _, _, _ => by simp [endsEos] at h
  | .any, h, _, _, _ => by simp [endsEos] at h
  | .alt _ _, h, _, _, _ => by simp [endsEos] at h
  | .star _, h, _, _, _ => by simp [endsEos] at h
  | .rep _ _ _, h, _, _, _ => by simp [endsEos] at h
  | .plus _, h, _, _, _ => by simp [endsEos] at h
  | .grp _ _, h, _, _, _ => by simp [endsEos] at h
  | .cgrp _, h, _, _, _ => by simp [endsEos] at h
  | .nla _, h, _, _, _ => by simp [endsEos] at h
  | .bol, h, _, _, _ => by simp [endsEos] at h
  | .eol, h, _, _, _ => by simp [endsEos] at h

theorem ms_bol_seq (x : RE) (t : Nat) (s : Str) (c : Caps) (h : s.length ≠ t) : ms (.seq .bol x) t s c = [] := by
  simp [ms, h]

theorem ms_anchored_rest (x : RE) (hx : endsEos x = true) (t : Nat) (s : Str) (c : Caps) :
    ∀ p ∈ ms (.seq .bol x) t s c, p.1 = [] := by
  intro p hp
  simp only [ms.eq_def (.seq .bol x), List.mem_flatMap] at hp
  obtain ⟨q, _, hq⟩ := hp
  exact ms_endsEos x hx t q.1 q.2 p hq

/-- `searchFrom` on an anchored pattern: only offset 0 of the whole subject can match, and the match
    consumes everything -/
theorem searchFrom_anchored (x : RE) (hx : endsEos x = true) (tot : Nat) :
    ∀ (s : Str) (i : Nat) (st : Nat) (rest : Str) (caps : Caps), s.length + i = tot →
      searchFrom (.seq .bol x) tot i s = some (st, rest, caps) → st = 0 ∧ i = 0 ∧ rest = [] := by
  intro s
  induction s with
  | nil =>
    intro i st rest caps hl h
    simp only [searchFrom, matchAt] at h
    cases hm : (ms (.seq .bol x) tot [] []).head? with
    | none => simp [hm] at h
    | some p =>
      simp only [hm, Option.map_some, Option.some.injEq, Prod.mk.injEq] at h
      have hmem : p ∈ ms (.seq .bol x) tot [] [] := List.mem_of_mem_head? hm
      have hr := ms_anchored_rest x hx tot [] [] p hmem
      have hi : i = 0 := by
        cases i with
        | zero => rfl
        | succ k =>
          have : ([] : Str).length ≠ tot := by simp at hl ⊢; omega
          rw [ms_bol_seq _ _ _ _ this] at hmem
          simp at hmem
      obtain ⟨h1, h2, _⟩ := h
      exact ⟨by omega, hi, by rw [← h2]; exact hr⟩
  | cons y ys ih =>
    intro i st rest caps hl h
    simp only [searchFrom, matchAt] at h
    cases hm : (ms (.seq .bol x) tot (y :: ys) []).head? with
    | none =>
      simp only [hm] at h
      have := ih (i + 1) st rest caps (by simp at hl ⊢; omega) h
      omega
    | some p =>
      simp only [hm, Option.some.injEq, Prod.mk.injEq] at h
      have hmem : p ∈ ms (.seq .bol x) tot (y :: ys) [] := List.mem_of_mem_head? hm
      have hr := ms_anchored_rest x hx tot _ [] p hmem
      have hi : i = 0 := by
        cases i with
        | zero => rfl
        | succ k =>
          have : (y :: ys).length ≠ tot := by simp at hl ⊢; omega
          rw [ms_bol_seq _ _ _ _ this] at hmem
          simp at hmem
      obtain ⟨h1, h2, _⟩ := h
      exact ⟨by omega, hi, by rw [← h2]; exact hr⟩

/-- **whole string**: on a pattern of the shape `^ … \Z` a successful search spans the subject from its
    first to its last character, for every pattern body and every subject -/
theorem C06_anchored (x : RE) (hx : endsEos x = true) (s : Str) (st : Nat) (rest : Str) (caps : Caps)
    (h : search (.seq .bol x) s = some (st, rest, caps)) : st = 0 ∧ rest = [] := by
  have := searchFrom_anchored x hx s.length s 0 st rest caps (by simp) h
  exact ⟨this.1, this.2.2⟩

/-- the anchors `parse` uses: classic engine, groups and asset engine all search `^ … \Z` -/
theorem C06_anchors :
    Gen.parse_anchor_pre = ['^'] ∧ Gen.parse_anchor_post = ['\\', 'Z']
  ∧ Gen.group_anchor_pre = ['^'] ∧ Gen.group_anchor_post = ['\\', 'Z']
  ∧ Gen.asset_anchor_pre = ['^'] ∧ Gen.asset_anchor_post = ['\\', 'Z'] := by decide

def isAnchored : RE → Bool
  | .seq .bol x => endsEos x
  | _ => false

/-- the compiled pattern of every class's base format has the anchored shape -/
theorem C06_shape_base :
    (match patternFor Serial.cls Serial.cls.baseFmt with | .ok r => isAnchored r | .error _ => false) = true
  ∧ (match patternFor Datetime.cls Datetime.cls.baseFmt with | .ok r => isAnchored r | .error _ => false) = true
  ∧ (match patternFor Version.cls Version.cls.baseFmt with | .ok r => isAnchored r | .error _ => false) = true
  ∧ (match patternFor Naming.cls Naming.cls.baseFmt with | .ok r => isAnchored r | .error _ => false) = true
  ∧ (match patternFor Storage.cls Storage.cls.baseFmt with | .ok r => isAnchored r | .error _ => false) = true := by
  decide +kernel

/-- **`parse` accepts only whole-string matches**: for every formatter class, input, format and mode, if
    the compiled pattern is anchored (it is, for formats assembled from directives and inert separators:
    `C06_shape_base` and the sweep) then an accepted string matched from first to last character -/
theorem C06_whole_string {V} (C : Cls V) (s : Str) (fmt : Option Str) (strict : Bool) (o : Obj) (r : RE)
    (hr : patternFor C (fmtOrBase C fmt) = .ok r) (ha : isAnchored r = true)
    (h : Engine.parse C s fmt strict = .ok o) : ∃ caps, search r s = some (0, [], caps) := by
  unfold Engine.parse at h
  simp only [hr, bind, Except.bind, parseWith] at h
  cases hs : search r s with
  | none => simp [hs] at h
  | some m =>
    obtain ⟨st, rest, caps⟩ := m
    cases r with
    | seq a x =>
      cases a with
      | bol =>
        have hx : endsEos x = true := by simpa [isAnchored] using ha
        obtain ⟨h1, h2⟩ := C06_anchored x hx s st rest caps hs
        exact ⟨caps, by rw [h1, h2]⟩
      | _ => simp [isAnchored] at ha
    | _ => simp [isAnchored] at ha

/-- with `$` the statement is false: the witness that made the repair necessary -/
theorem C06_dollar_counterexample :
    (search (.seq .bol (.seq (.star (.cls [.range '0' '9'] false)) .eol)) "12\n".toList).isSome = true
  ∧ (search (.seq .bol (.seq (.star (.cls [.range '0' '9'] false)) .eos)) "12\n".toList).isSome = false := by
  decide +kernel

/-- **exception family, the mechanism**: nothing of Python's ValueError / ArithmeticError family leaves
    `parse`; it is reported as FormatterValueError -/
theorem C06_wrap {α} (r : R α) :
    wrapValueErrors r ≠ .error .pyValue ∧ wrapValueErrors r ≠ .error .decInvalid ∧ wrapValueErrors r ≠ .error .pyOverflow
  ∧ (∀ e, r = .error e → e.isFormatterError = true → wrapValueErrors r = r) ∧ (∀ a, r = .ok a → wrapValueErrors r = r) := by
  refine ⟨?_, ?_, ?_, ?_, ?_⟩
  · cases r with
    | ok a => simp [wrapValueErrors]
    | error e => cases e <;> simp [wrapValueErrors]
  · cases r with
    | ok a => simp [wrapValueErrors]
    | error e => cases e <;> simp [wrapValueErrors]
  · cases r with
    | ok a => simp [wrapValueErrors]
    | error e => cases e <;> simp [wrapValueErrors]
  · intro e he hf; subst he; cases e <;> simp_all [wrapValueErrors, Err.isFormatterError]
  · intro a ha; subst ha; rfl

def rejectedWith {V} (C : Cls V) (text fmt : String) (strict : Bool) : Option Err :=
  match (do let o ← Engine.parse C text.toList (some fmt.toList) strict; let _ ← C.value o; pure ()) with
  | .ok _ => none
  | .error e => some e

/-- the impossible values the property names are all reported with FormatterValueError -/
theorem C06_named : ∀ strict ∈ [false, true],
    rejectedWith Datetime.cls "2023-02-30" "%Y-%m-%d" strict = some .fmtValue
  ∧ rejectedWith Datetime.cls "25" "%H" strict = some .fmtValue
  ∧ rejectedWith Datetime.cls "61" "%M" strict = some .fmtValue
  ∧ rejectedWith Datetime.cls "39" "%d" strict = some .fmtValue
  ∧ rejectedWith Datetime.cls "0000" "%Y" strict = some .fmtValue
  ∧ rejectedWith Datetime.cls "2023 59 1" "%Y %U %w" strict = some .fmtValue
  ∧ rejectedWith Serial.cls "" "%b" strict = some .fmtValue
  ∧ rejectedWith Serial.cls "12\n" "%n" strict = some .fmtValue
  ∧ rejectedWith Storage.cls "" "%b" strict = some .fmtValue
  ∧ rejectedWith Storage.cls "B" "%B" strict = some .fmtValue
  ∧ rejectedWith Storage.cls "1x2" "%b" strict = some .fmtValue
  ∧ rejectedWith Version.cls "01.2.3" "%m.%n.%c" strict = some .fmtValue
  ∧ rejectedWith Datetime.cls "2023 09 Oct" "%Y %m %b" true = some .fmtValue := by decide +kernel

end C06
