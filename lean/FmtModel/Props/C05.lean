import FmtModel.Lemmas.Loop
import FmtModel.Classes.Serial
import FmtModel.Classes.Datetime
import FmtModel.Classes.Storage
import FmtModel.Classes.Naming
/-
  C05 — redundant information is cross-checked, independent of field order.

  * `C05_order` (general, every formatter class `C`, both modes): the object built from the captures
    does not depend on the order in which the captures arrive.  For captures with pairwise distinct
    names that carry no `__k` occurrence suffix, `init C caps' strict = init C caps strict` for
    every permutation `caps'` of `caps` — the priority loop walks the class's own priorities table and
    looks captures up by name (`priorityLoop_congr`), and `__validate_format` is the identity on
    such captures (`validateFormat_id`).
  * `C05_repeated_directive`: a directive repeated with different texts is rejected in BOTH modes
    (`__validate_format`), for every class, whatever the texts are.
  * kernel-evaluated instances of the cross-checks (strict rejects a disagreeing month name, a
    disagreeing day-of-year, binary vs decimal serial, bits vs bytes; always-checked: lone weekday,
    AM/PM, bits vs bytes, initials) on the regenerated tables.
  "Strict succeeds exactly when all statements agree" for all values is decided by the sweep with
  an independent statement semantics; the recorded exceptions are in Findings.C05.
-/
namespace C05
open Py Engine

-- order independence --------------------------------------------------------------------------------

theorem prioStep_congr {V} (C : Cls V) (f1 f2 : List (Str × Option Str)) (h : ∀ k, alookup k f1 = alookup k f2)
    (strict : Bool) (o : Obj) (e : Str × List Nat) : prioStep C f1 strict o e = prioStep C f2 strict o e := by
  unfold prioStep
  simp only [h]

theorem priorityLoop_congr {V} (C : Cls V) (f1 f2 : List (Str × Option Str)) (h : ∀ k, alookup k f1 = alookup k f2)
    (strict : Bool) (o : Obj) : priorityLoop C f1 strict o = priorityLoop C f2 strict o := by
  unfold priorityLoop
  have : prioStep C f1 strict = prioStep C f2 strict := by
    funext o e; exact prioStep_congr C f1 f2 h strict o e
  rw [this]

theorem alookup_none_of_not_mem {β} (k : Str) (l : List (Str × β)) (h : k ∉ l.map (·.1)) : alookup k l = none := by
  induction l with
  | nil => rfl
  | cons p rest ih =>
    simp only [List.map, List.mem_cons, not_or] at h
    simp only [alookup]
    rw [if_neg (fun e => h.1 e.symm)]
    exact ih h.2

/-- lookups in an association list with distinct keys do not depend on the order of the entries -/
theorem alookup_perm {β} (k : Str) {l1 l2 : List (Str × β)} (hp : l1.Perm l2) (hn : (l1.map (·.1)).Nodup) :
    alookup k l1 = alookup k l2 := by
  induction hp with
  | nil => rfl
  | cons x _ ih =>
    simp only [List.map, List.nodup_cons] at hn
    simp only [alookup]
    split
    · rfl
    · exact ih hn.2
  | swap x y l =>
    simp only [List.map, List.nodup_cons, List.mem_cons, not_or] at hn
    simp only [alookup]
    by_cases h1 : y.1 = k
    · by_cases h2 : x.1 = k
      · exact absurd (h1.trans h2.symm) hn.1.1
      · simp [h1, h2]
    · by_cases h2 : x.1 = k <;> simp [h1, h2]
  | trans p1 p2 ih1 ih2 =>
    have hn2 := (List.Perm.nodup_iff (List.Perm.map _ p1)).mp hn
    rw [ih1 hn, ih2 hn2]

/-- captures without an occurrence suffix -/
def Plain (gd : List (Str × Option Str)) : Prop := ∀ p ∈ gd, splitFirst p.1 ['_', '_'] = p.1

theorem validateStep_new (acc : List (Str × Option Str)) (p : Str × Option Str)
    (hk : splitFirst p.1 ['_', '_'] = p.1) (hnone : alookup p.1 acc = none) :
    validateStep acc p = .ok (acc ++ [p]) := by
  unfold validateStep
  simp only [hk, hnone]

theorem validateFormat_go (gd acc : List (Str × Option Str)) (hp : Plain gd)
    (hn : (gd.map (·.1)).Nodup) (hd : ∀ p ∈ gd, p.1 ∉ acc.map (·.1)) :
    gd.foldlM validateStep acc = .ok (acc ++ gd) := by
  induction gd generalizing acc with
  | nil => simp [List.foldlM, pure, Except.pure]
  | cons p rest ih =>
    have hk : splitFirst p.1 ['_', '_'] = p.1 := hp p (by simp)
    have hnone : alookup p.1 acc = none := alookup_none_of_not_mem _ _ (hd p (by simp))
    simp only [List.map, List.nodup_cons] at hn
    rw [foldlM_cons_ok _ _ _ _ _ (validateStep_new acc p hk hnone)]
    have := ih (acc ++ [p]) (fun q hq => hp q (by simp [hq])) hn.2 (by
      intro q hq
      simp only [List.map_append, List.map, List.mem_append, List.mem_singleton, not_or]
      refine ⟨hd q (by simp [hq]), ?_⟩
      intro e
      exact hn.1 (by rw [← e]; exact List.mem_map_of_mem (f := (·.1)) hq))
    simpa [List.append_assoc] using this

/-- `__validate_format` keeps captures that carry no occurrence suffix and have distinct names -/
theorem validateFormat_id (gd : List (Str × Option Str)) (hp : Plain gd) (hn : (gd.map (·.1)).Nodup) :
    validateFormat gd = .ok gd := by
  have := validateFormat_go gd [] hp hn (by simp)
  simpa [validateFormat] using this

/-- **order independence**: for every formatter class and both modes, permuting the captures does not
    change the object that is built (or the error that is raised) -/
theorem C05_order {V} (C : Cls V) (caps caps' : List (Str × Option Str)) (hperm : caps'.Perm caps)
    (hp : Plain caps) (hn : (caps.map (·.1)).Nodup) (strict : Bool) :
    init C caps' strict = init C caps strict := by
  have hp' : Plain caps' := fun p h => hp p (hperm.mem_iff.mp h)
  have hn' : (caps'.map (·.1)).Nodup := (List.Perm.nodup_iff (List.Perm.map _ hperm)).mpr hn
  unfold init
  rw [validateFormat_id caps hp hn, validateFormat_id caps' hp' hn']
  simp only [bind, Except.bind]
  rw [priorityLoop_congr C caps' caps (fun k => alookup_perm k hperm hn') strict]

/-- a directive repeated with two different texts is rejected in both modes, whatever the class:
    the second occurrence `name__1` is merged with `name` by `__validate_format` and must be equal -/
theorem C05_repeated_directive {V} (C : Cls V) (name occ : Str) (hname : splitFirst name ['_', '_'] = name)
    (hocc : splitFirst occ ['_', '_'] = name) (a b : Str) (hab : a ≠ b) (strict : Bool) :
    init C [(name, some a), (occ, some b)] strict = .error .fmtValue := by
  have h1 : validateStep [] (name, some a) = .ok [(name, some a)] := by
    simp [validateStep, hname, alookup]
  have h2 : validateStep [(name, some a)] (occ, some b) = .error .fmtValue := by
    simp [validateStep, hocc, alookup, hab]
  unfold init validateFormat
  rw [foldlM_cons_ok _ _ _ _ _ h1]
  simp [List.foldlM, h2, bind, Except.bind]

/-- the occurrence names `gen_format` produces do map back: `name__1`, `name__2`, … -/
theorem C05_occurrence_names :
    splitFirst "month_pad__1".toList ['_', '_'] = "month_pad".toList
  ∧ splitFirst "number__2".toList ['_', '_'] = "number".toList
  ∧ splitFirst "strings_snake__10".toList ['_', '_'] = "strings_snake".toList := by decide

-- the cross-checks themselves, on the regenerated tables (kernel evaluation) ---------------------------

def outcome {V} (C : Cls V) (text fmt : String) (strict : Bool) : Option Str :=
  match Engine.parse C text.toList (some fmt.toList) strict with
  | .ok o => some (C.string o)
  | .error .fmtValue => none
  | .error _ => some "FOREIGN".toList

/-- strict mode cross-checks different directives of one field; non-strict keeps the first statement -/
theorem C05_strict_cross_checks :
    outcome Datetime.cls "2023 09 Sep" "%Y %m %b" true = some "2023-09-01 00:00:00.000000".toList
  ∧ outcome Datetime.cls "2023 09 Oct" "%Y %m %b" true = none
  ∧ outcome Datetime.cls "2023 09 Oct" "%Y %m %b" false = some "2023-09-01 00:00:00.000000".toList
  ∧ outcome Datetime.cls "2023 251 09 08" "%Y %j %m %d" true = some "2023-09-08 00:00:00.000000".toList
  ∧ outcome Datetime.cls "2023 252 09 08" "%Y %j %m %d" true = none
  ∧ outcome Datetime.cls "19 07 PM" "%H %I %p" true = some "1900-01-01 19:00:00.000000".toList
  ∧ outcome Datetime.cls "18 07 PM" "%H %I %p" true = none
  ∧ outcome Serial.cls "5 00000101" "%n %b" true = some "5".toList
  ∧ outcome Serial.cls "5 00000110" "%n %b" true = none
  ∧ outcome Serial.cls "1000 1,000 1_000" "%n %c %u" true = some "1000".toList := by decide +kernel

/-- checked in non-strict mode too: a lone weekday, AM/PM, bits against bytes, initials / flat /
    vowel-less against the name -/
theorem C05_always_checked :
    outcome Datetime.cls "2023-09-08 5" "%Y-%m-%d %w" false = some "2023-09-08 00:00:00.000000".toList
  ∧ outcome Datetime.cls "2023-09-08 4" "%Y-%m-%d %w" false = none
  ∧ outcome Datetime.cls "19 PM" "%H %p" false = some "1900-01-01 19:00:00.000000".toList
  ∧ outcome Datetime.cls "19 AM" "%H %p" false = none
  ∧ outcome Storage.cls "8192 1KB" "%b %K" false = some "8192".toList
  ∧ outcome Storage.cls "8200 1KB" "%b %K" false = none
  ∧ outcome Naming.cls "data engineer/de" "%n/%a" false = some "data engineer".toList
  ∧ outcome Naming.cls "data engineer/dx" "%n/%a" false = none
  ∧ outcome Naming.cls "data_engineer/dataengineer" "%s/%f" false = some "data engineer".toList
  ∧ outcome Naming.cls "data_engineer/dtngnr" "%s/%v" false = some "data engineer".toList
  ∧ outcome Naming.cls "data_engineer/dtngnx" "%s/%v" false = none := by decide +kernel

end C05
