import FmtModel.Members
import FmtModel.Lemmas.MergeKeys
/-
  C03 — a formatter group behaves as the product of its members.

  Kernel-evaluated on the regenerated tables, on a declaration whose member names are prefixes of one another
  (`date`, `datetime`, `date_time`) in two declaration orders:
  `C03_members`     : every member of the parsed group is what the member's own formatter reads from its own slice
                      (`memberAgrees` compares with `Engine.parse` of the member class on the slice), whatever the
                      declaration order; a member the format omits is the member's default;
  `C03_default_fmt` : a placeholder without a format uses the member's base format;
  `C03_repeats`     : repeated occurrences that agree are merged, occurrences that disagree are rejected;
  `C03_repeats_inner`: the same when a directive is repeated inside a repeated occurrence (captures of different
                      occurrences are kept apart);
  `C03_tag_keeps_field`, `C03_tags_apart`, `C03_single_occurrence` (general, by induction): tagging a capture key
                      with its occurrence never changes the field it maps back to and never merges two keys;
  `C03_format`      : formatting is the members' renderings joined by the literal text, and parsing what was printed
                      gives the same group back;
  `C03_literal`     : escaped literal text with regex metacharacters around the placeholders matches itself;
  `C03_unknown`     : a placeholder that names no member is rejected.
  `C03_format_def`  (general): `format` substitutes, for each placeholder, the rendering the member's own class gives —
                      by definition of the model, for every declaration, object and format.
  The statement for all declarations, names, orders, formats and values is decided by the sweep (the members' own
  parse/format as the reference for every slice) and by the correspondence (group.* ops).
-/
namespace C03
open Py Engine Group

def dA : Decl := [Members.serial "date".toList, Members.naming "datetime".toList, Members.version "date_time".toList]
def dB : Decl := [Members.version "date_time".toList, Members.naming "datetime".toList, Members.serial "date".toList]

def gshow (d : Decl) (g : GObj) : List (Str × Str) :=
  d.map fun m => (m.name, match alookup m.name g with | some o => m.cls.string o | none => ['?'])

/-- the members of the parsed group as (name, canonical string) in declaration order, or the error -/
def gparse (d : Decl) (text fmt : String) : R (List (Str × Str)) :=
  (Group.parse d text.toList fmt.toList).map (gshow d)

def mem (l : List (String × String)) : R (List (Str × Str)) := .ok (l.map fun p => (p.1.toList, p.2.toList))

def gfmt (d : Decl) (text fmt fmt2 : String) : String :=
  match (do let g ← Group.parse d text.toList fmt.toList; Group.format d g fmt2.toList) with
  | .ok s => String.ofList s
  | .error e => "err:" ++ e.name

/-- the member `name` of the parsed group is the object the member's own class parses from `slice` with `mfmt` -/
def memberAgrees (d : Decl) (text fmt name slice mfmt : String) : Bool :=
  match Group.parse d text.toList fmt.toList, d.find name.toList with
  | .ok g, some m =>
    (match alookup name.toList g, Engine.parse m.cls slice.toList (some mfmt.toList) false with
     | some o, .ok o' => decide (o = o')
     | _, _ => false)
  | _, _ => false

theorem C03_members :
    (∀ d ∈ [dA, dB],
        memberAgrees d "12/data_engineer/1.2.3" "{date:%n}/{datetime:%s}/{date_time:%m.%n.%c}" "date" "12" "%n" = true
      ∧ memberAgrees d "12/data_engineer/1.2.3" "{date:%n}/{datetime:%s}/{date_time:%m.%n.%c}" "datetime" "data_engineer" "%s" = true
      ∧ memberAgrees d "12/data_engineer/1.2.3" "{date:%n}/{datetime:%s}/{date_time:%m.%n.%c}" "date_time" "1.2.3" "%m.%n.%c" = true
      ∧ memberAgrees d "1.2.3@DataEngineer@007" "{date_time:%m.%n.%c}@{datetime:%p}@{date:%p}" "datetime" "DataEngineer" "%p" = true
      ∧ memberAgrees d "1.2.3@DataEngineer@007" "{date_time:%m.%n.%c}@{datetime:%p}@{date:%p}" "date" "007" "%p" = true)
  ∧ gparse dA "12/data_engineer/1.2.3" "{date:%n}/{datetime:%s}/{date_time:%m.%n.%c}" = mem [("date", "12"), ("datetime", "data engineer"), ("date_time", "v1.2.3")]
  ∧ gparse dB "12/data_engineer/1.2.3" "{date:%n}/{datetime:%s}/{date_time:%m.%n.%c}" = mem [("date_time", "v1.2.3"), ("datetime", "data engineer"), ("date", "12")] := by
  decide +kernel

theorem C03_default_fmt :
    gparse dA "1.2.3#data engineer" "{date_time:%m.%n.%c}#{datetime}" = mem [("date", "0"), ("datetime", "data engineer"), ("date_time", "v1.2.3")] := by
  decide +kernel

theorem C03_repeats :
    gparse dA "7#7" "{date:%n}#{date:%n}" = mem [("date", "7"), ("datetime", ""), ("date_time", "v0.0.0")]
  ∧ gparse dA "7#8" "{date:%n}#{date:%n}" = .error .fmtValue
  ∧ gparse dA "1.2.3@1.2.4" "{date_time:%m.%n.%c}@{date_time:%m.%n.%c}" = .error .fmtValue := by decide +kernel

/-- a directive repeated inside an occurrence that is itself repeated: the captures of the occurrences are kept
    apart (`Gen.group_merge_apart`, read off the code's behaviour by the translator), so every statement of the field
    takes part in the agreement check - whichever position disagrees, the string is refused -/
theorem C03_repeats_inner :
    Gen.group_merge_apart = true
  ∧ gparse dA "7 7#7 7" "{date:%n %n}#{date:%n %n}" = mem [("date", "7"), ("datetime", ""), ("date_time", "v0.0.0")]
  ∧ gparse dA "7 8#7 7" "{date:%n %n}#{date:%n %n}" = .error .fmtValue
  ∧ gparse dA "7 7#8 7" "{date:%n %n}#{date:%n %n}" = .error .fmtValue
  ∧ gparse dA "7 7#7 8" "{date:%n %n}#{date:%n %n}" = .error .fmtValue
  ∧ gparse dA "7#7 7#7 7 7" "{date:%n}#{date:%n %n}#{date:%n %n %n}" = mem [("date", "7"), ("datetime", ""), ("date_time", "v0.0.0")]
  ∧ gparse dA "7#7 7#7 8 7" "{date:%n}#{date:%n %n}#{date:%n %n %n}" = .error .fmtValue
  ∧ gparse dA "7#7 8#7 7 7" "{date:%n}#{date:%n %n}#{date:%n %n %n}" = .error .fmtValue := by
  refine ⟨?_, ?_, ?_, ?_, ?_, ?_, ?_, ?_⟩ <;> decide +kernel

/-- (general) the field a capture maps back to (`key.split("__", 1)[0]`) does not depend on the occurrence the key is
    tagged with: for every key that does not end in an underscore and every occurrence name -/
theorem C03_tag_keeps_field (k g : Str) (h : k.getLast? ≠ some '_') :
    splitFirst (k ++ ['_', '_'] ++ g) ['_', '_'] = splitFirst k ['_', '_'] := splitFirst_append_tag k g h

/-- (general) tagged keys stay apart: inside one occurrence, and between occurrences whose names are equally long -/
theorem C03_tags_apart (k1 k2 g1 g2 : Str) (hl : g1.length = g2.length)
    (h : k1 ++ ['_', '_'] ++ g1 = k2 ++ ['_', '_'] ++ g2) : k1 = k2 ∧ g1 = g2 := tag_inj k1 k2 g1 g2 hl h

/-- (general) one occurrence: the member's merged mapping is that occurrence's captures, every key tagged with it -/
theorem C03_single_occurrence (g : Str) (caps : List (Str × Option Str)) :
    mergeOccurrences [(g, caps)] =
      [(splitFirst g ['_', '_'], caps.foldl (fun a kv => ainsert (kv.1 ++ ['_', '_'] ++ g) kv.2 a) [])] := by
  simp [mergeOccurrences, Gen.group_merge_apart, alookup, ainsert]

example : ("day_pad__1".toList : Str).getLast? ≠ some '_' := by decide   -- the hypothesis is met by real capture names

theorem C03_format :
    gfmt dA "12/data_engineer/1.2.3" "{date:%n}/{datetime:%s}/{date_time:%m.%n.%c}" "{datetime:%c}-{date:%p}+{date_time:%f}" = "dataEngineer-012+1_2_3"
  ∧ gfmt dA "12/data_engineer/1.2.3" "{date:%n}/{datetime:%s}/{date_time:%m.%n.%c}" "{date:%n}/{datetime:%s}/{date_time:%m.%n.%c}" = "12/data_engineer/1.2.3" := by
  decide +kernel

theorem C03_literal : gparse dA "+file(12).json" "\\+file\\({date:%n}\\)\\.json" = mem [("date", "12"), ("datetime", ""), ("date_time", "v0.0.0")] := by
  decide +kernel

theorem C03_unknown : gparse dA "12/x" "{date:%n}/{nope:%n}" = .error .grpArg := by decide +kernel

end C03
