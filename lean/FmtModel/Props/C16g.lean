import FmtModel.Arith
import FmtModel.Props.C09g
/-
  C16 — arithmetic on formatter objects mirrors arithmetic on their values.

  Serial (general, every object and every operand, unbounded):
    `C16_serial_add_int`, `C16_serial_sub_int`, `C16_serial_add_obj`, `C16_serial_sub_obj` : when the
    value-level result is a natural number the operator yields an object of exactly that value;
    `C16_serial_negative_*` : when it is negative the operator raises TypeError;
    `C16_serial_rsub` : `n - Serial(a)` is the plain number n - a.
  The proofs compose `from_value(n).value = n` for every n (C09_serial_from_value: regex calculus +
  digit-string lemmas on the regenerated Serial table) with the operator definitions.
  Datetime / Version / Naming: `C16_instances` evaluates the operators in the kernel on carries across
  day, month, year and leap day, version sums, name concatenation; the statement for all operands is
  decided by the sweep and the correspondence (model vs code on spelled operands).
  "No operand is modified" holds in the model by construction (operands are immutable values); on the
  real objects it is observed by the sweep (value, string and hash snapshots around every operation).
-/
namespace C16
open Py Engine Arith

theorem serialOfInt_nonneg (i : Int) (h : 0 ≤ i) : ∃ o, serialOfInt i = .ok o ∧ Serial.value o = .ok i.toNat := by
  unfold serialOfInt
  have : ¬ i < 0 := by omega
  simp only [this, ↓reduceIte]
  exact C09.C09_serial_from_value i.toNat

theorem serialOfInt_neg (i : Int) (h : i < 0) : serialOfInt i = .error .fmtValue := by
  simp [serialOfInt, h]

/-- `Serial(a) + n` and `n + Serial(a)` -/
theorem C16_serial_add_int (a : Obj) (v : Nat) (n : Int) (hv : Serial.value a = .ok v) (h : 0 ≤ (v : Int) + n) :
    ∃ o, serialAddInt a n = .ok o ∧ Serial.value o = .ok ((v : Int) + n).toNat := by
  obtain ⟨o, ho, hval⟩ := serialOfInt_nonneg _ h
  exact ⟨o, by simp [serialAddInt, hv, bind, Except.bind, ho, notImpl], hval⟩

theorem C16_serial_negative_add (a : Obj) (v : Nat) (n : Int) (hv : Serial.value a = .ok v) (h : (v : Int) + n < 0) :
    serialAddInt a n = .error .pyType := by
  simp [serialAddInt, hv, bind, Except.bind, serialOfInt_neg _ h, notImpl]

/-- `Serial(a) - n` -/
theorem C16_serial_sub_int (a : Obj) (v : Nat) (n : Int) (hv : Serial.value a = .ok v) (h : 0 ≤ (v : Int) - n) :
    ∃ o, serialSubInt a n = .ok o ∧ Serial.value o = .ok ((v : Int) - n).toNat := by
  obtain ⟨o, ho, hval⟩ := serialOfInt_nonneg _ h
  exact ⟨o, by simp [serialSubInt, hv, bind, Except.bind, ho, notImpl], hval⟩

theorem C16_serial_negative_sub (a : Obj) (v : Nat) (n : Int) (hv : Serial.value a = .ok v) (h : (v : Int) - n < 0) :
    serialSubInt a n = .error .pyType := by
  simp [serialSubInt, hv, bind, Except.bind, serialOfInt_neg _ h, notImpl]

/-- `Serial(a) + Serial(b)` -/
theorem C16_serial_add_obj (a b : Obj) (v w : Nat) (hv : Serial.value a = .ok v) (hw : Serial.value b = .ok w) :
    ∃ o, serialAddObj a b = .ok o ∧ Serial.value o = .ok (v + w) := by
  obtain ⟨o, ho, hval⟩ := serialOfInt_nonneg ((v : Int) + w) (by omega)
  refine ⟨o, by simp [serialAddObj, hv, hw, bind, Except.bind, ho], ?_⟩
  rw [hval]; congr 1

/-- `Serial(a) - Serial(b)` -/
theorem C16_serial_sub_obj (a b : Obj) (v w : Nat) (hv : Serial.value a = .ok v) (hw : Serial.value b = .ok w) (h : w ≤ v) :
    ∃ o, serialSubObj a b = .ok o ∧ Serial.value o = .ok (v - w) := by
  obtain ⟨o, ho, hval⟩ := serialOfInt_nonneg ((v : Int) - w) (by omega)
  refine ⟨o, by simp [serialSubObj, hv, hw, bind, Except.bind, ho, notImpl], ?_⟩
  rw [hval]; congr 1; omega

theorem C16_serial_negative_sub_obj (a b : Obj) (v w : Nat) (hv : Serial.value a = .ok v) (hw : Serial.value b = .ok w) (h : v < w) :
    serialSubObj a b = .error .pyType := by
  have : (v : Int) - w < 0 := by omega
  simp [serialSubObj, hv, hw, bind, Except.bind, serialOfInt_neg _ this, notImpl]

/-- `n - Serial(a)`: the plain number -/
theorem C16_serial_rsub (a : Obj) (v : Nat) (n : Int) (hv : Serial.value a = .ok v) : serialRsub n a = .ok (n - v) := by
  simp [serialRsub, hv, bind, Except.bind, pure, Except.pure]

/-- the hypotheses are satisfiable: an object of value 12 exists, and 12 - 12 = 0 is reached -/
example : ∃ a o, Serial.value a = .ok 12 ∧ serialSubInt a 12 = .ok o ∧ Serial.value o = .ok 0 := by
  obtain ⟨a, _, ha⟩ := C09.C09_serial_from_value 12
  obtain ⟨o, ho, hv⟩ := C16_serial_sub_int a 12 12 ha (by omega)
  exact ⟨a, o, ha, ho, by simpa using hv⟩

end C16
