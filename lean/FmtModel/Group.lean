import FmtModel.Engine
import FmtModel.Py.Cmp
/-
  FmtModel.Group — `FormatterGroup` / `make_group`: a dictionary member-name ↦ formatter class.
  `gen_format` rewrites `{name:fmt}` placeholders into named groups around the member's own
  generated pattern, `__parse` splits the captures back per member, `parse` merges repeated
  occurrences, `format` substitutes member renderings.
-/
namespace Group
open Py Engine

/-- what an object feeds to `hash`: a text (`hash(self.string)`, `hash(str(self.value))`) or a
    comparison key (`hash(self.value)` of a version).  Equal sources give equal hashes. -/
inductive HashSrc where
  | text (s : Str)
  | key (k : PV)
  deriving DecidableEq

/-- a formatter class with its value type hidden, plus the value order the group needs and the
    source of its hash -/
structure Member where
  name : Str
  Val : Type
  cls : Cls Val
  ltVal : Val → Val → Bool
  eqVal : Val → Val → Bool
  hash : Obj → R HashSrc

abbrev Decl := List Member

def Decl.find (d : Decl) (n : Str) : Option Member := d.find? fun m => m.name == n

/-- `FormatterGroup.gen_format(fmt)`: (regex text, [(group_index, member format)]) -/
def genFormat (d : Decl) (fmt : Str) : R (Str × List (Str × Str)) :=
  d.foldlM (fun (acc : Str × List (Str × Str)) (m : Member) => do
    let pat ← reOrErr (Gen.group_gen_pre ++ m.name ++ Gen.group_gen_post)
    let table ← regexTable m.cls.rows
    let ms := finditer pat acc.1
    let (out, getter, _) ← ms.foldlM (fun (st : Str × List (Str × Str) × Nat) mt => do
        let caps := mt.2.2.2
        let found := (alookup "found".toList caps).getD []
        let f0 := (alookup "format".toList caps).getD []
        let fstr := if f0.isEmpty then m.cls.baseFmt else f0
        let idx := st.2.2
        let gi := m.name ++ scache idx
        let fre ← Engine.genFormat table fstr (gi ++ "___".toList) (scache idx)
        let repl := "(?P<".toList ++ gi ++ ['>'] ++ fre ++ [')']
        pure (replaceFirst st.1 found repl, st.2.1 ++ [(gi, fstr)], idx + 1)) (acc.1, acc.2, 0)
    pure (out, getter)) (fmt, [])

/-- `__parse`: per group_index the captures that belong to it (prefix stripped) -/
def splitCaptures (getter : List (Str × Str)) (gd : List (Str × Option Str)) :
    List (Str × List (Str × Option Str)) :=
  (getter.foldl (fun (acc : List (Str × List (Str × Option Str)) × List (Str × Option Str)) (g : Str × Str) =>
    let pre := g.1 ++ "___".toList
    let rest := acc.2.filter fun kv => kv.1 != g.1
    let mine := rest.filter fun kv => startsWith kv.1 pre
    let others := rest.filter fun kv => !startsWith kv.1 pre
    (acc.1 ++ [(g.1, mine.map fun kv => (replaceFirst kv.1 pre [], kv.2))], others)) ([], gd)).1

/-- `parse`: merge occurrences on `name.split("__")[0]` (later captures override equal keys).  With
    `Gen.group_merge_apart` the key of a capture carries the occurrence it came from (`key__occurrence`), so captures
    of different occurrences never override one another; without it the counter of a directive repeated inside one
    occurrence (`number__1`) collides with the suffix of the next occurrence. -/
def mergeOccurrences (parts : List (Str × List (Str × Option Str))) : List (Str × List (Str × Option Str)) :=
  parts.foldl (fun acc p =>
    let k := splitFirst p.1 ['_', '_']
    let old := (alookup k acc).getD []
    ainsert k (p.2.foldl (fun a kv =>
      ainsert (if Gen.group_merge_apart then kv.1 ++ ['_', '_'] ++ p.1 else kv.1) kv.2 a) old) acc) []

/-- a parsed group: one object per declared member (defaults for members the format omits) -/
abbrev GObj := List (Str × Obj)

/-- `cls(formats=rs)`: default instance for every member, replaced by `member(captures)` -/
def construct (d : Decl) (rs : List (Str × List (Str × Option Str))) : R GObj := do
  let defaults ← d.mapM fun m => (init m.cls [] false).map fun o => (m.name, o)
  rs.foldlM (fun (acc : GObj) (kv : Str × List (Str × Option Str)) =>
    match d.find kv.1 with
    | none => .error .grpValue
    | some m => (init m.cls kv.2 false).map fun o => ainsert kv.1 o acc) defaults

/-- `FormatterGroup.parse(value, fmt)` -/
def parse (d : Decl) (value fmt : Str) : R GObj := do
  let (g, getter) ← genFormat d fmt
  let r ← compileRe (Gen.group_anchor_pre ++ g ++ Gen.group_anchor_post)
  match search r value with
  | none => .error .grpArg
  | some (_, _, caps) =>
    let parts := splitCaptures getter (groupdict r caps)
    match construct d (mergeOccurrences parts) with
    | .error .pyValue => .error .grpValue
    | .error .decInvalid => .error .grpValue
    | .error .pyOverflow => .error .grpValue
    | x => x

/-- `self.format(fmt)` -/
def format (d : Decl) (g : GObj) (fmt : Str) : R Str := do
  let pat ← reOrErr Gen.group_format_re
  (finditer pat fmt).foldlM (fun (acc : Str) mt => do
    let caps := mt.2.2.2
    let found := (alookup "found".toList caps).getD []
    let gname := (alookup "group".toList caps).getD []
    let f0 := (alookup "format".toList caps).getD []
    match d.find gname, alookup gname g with
    | some m, some o =>
      let fstr := if f0.isEmpty then m.cls.baseFmt else f0
      match Engine.format m.cls o fstr with
      | .ok text => pure (replaceFirst acc found text)
      | .error .fmtKey => .error .grpArg
      | .error e => .error e
    | _, _ => .error .grpValue) fmt

/-- (lt, eq, gt) of two values of one member; `gt` is `functools.total_ordering`'s `not lt and not eq` -/
def tri (m : Member) (x y : m.Val) : Bool × Bool × Bool :=
  (m.ltVal x y, m.eqVal x y, !m.ltVal x y && !m.eqVal x y)

/-- member-wise value comparison used by `__eq__`, `__lt__`, `__gt__` -/
def cmpMember (m : Member) (a b : Obj) : R (Bool × Bool × Bool) := do
  let va ← m.cls.value a
  let vb ← m.cls.value b
  pure (tri m va vb)

/-- `hash(a) == hash(b)` as far as the model can tell: the two objects feed the same thing to `hash` -/
def hashEq (m : Member) (a b : Obj) : R Bool := do
  let ha ← m.hash a
  let hb ← m.hash b
  pure (decide (ha = hb))

/-- the value of member `m` inside a group object -/
def memVal (m : Member) (g : GObj) : R m.Val :=
  match alookup m.name g with
  | some o => m.cls.value o
  | none => .error .pyKey

def memTri (m : Member) (a b : GObj) : R (Bool × Bool × Bool) := do
  let va ← memVal m a
  let vb ← memVal m b
  pure (tri m va vb)

def cmpAll (d : Decl) (a b : GObj) : R (List (Bool × Bool × Bool)) := d.mapM fun m => memTri m a b

/-- `a == b`: all members equal -/
def eq (d : Decl) (a b : GObj) : R Bool := (cmpAll d a b).map fun l => l.all (·.2.1)
/-- `a < b`: some member smaller and no member greater (the strict product order) -/
def lt (d : Decl) (a b : GObj) : R Bool := (cmpAll d a b).map fun l => l.any (·.1) && l.all (!·.2.2)
/-- `a > b` -/
def gt (d : Decl) (a b : GObj) : R Bool := (cmpAll d a b).map fun l => l.any (·.2.2) && l.all (!·.1)

end Group
