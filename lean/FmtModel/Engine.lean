import FmtModel.Py.ReParse
import FmtModel.Py.Num
import FmtModel.Generated.Fmt
/-
  FmtModel.Engine — model of `fmtutil.formatter.Formatter`: `regex()`, `gen_format`, `parse`,
  `__validate_format`, the priority loop of `__init__` with strict mode and `SlotLevel`, `format`,
  `from_value`.  Text level throughout: directives are replaced in the format *string* by regex
  *text*, exactly as the code does, and the result is parsed by `Py.ReParse` and run by `Py.Re`.
  The tokeniser regexes, anchors and sentinel come from `Gen` (regenerated from the source).
-/
namespace Engine
open Py

/-- `scache(n)` of utils.py -/
def scache (n : Nat) : Str := if n > 0 then '_' :: '_' :: showNat n else []

/-- one entry of `cls.formatter()`: key, cregex?, text -/
abbrev DirRow := Str × Bool × Str

def reOrErr (s : Str) : R RE :=
  match parseRegex s with
  | some r => .ok r
  | none => .error .reError

/-- the texts matched by `re.finditer(pattern, s)` in order -/
def tokens (pat : Str) (s : Str) : R (List Str) := do
  let r ← reOrErr pat
  pure ((finditer r s).map fun m => m.2.2.1)

/-- `cls.regex()`: plain regexes first, then composite ones expanded by first-occurrence replace -/
def expandCregex (results : List (Str × Str)) (cr : Str) : R Str := do
  let cr0 := replaceAll cr ['%', '%'] Gen.format_escape
  let toks ← tokens Gen.regex_token_re cr0
  let out ← toks.foldlM (fun (acc : Str) (cs : Str) =>
      match alookup cs results with
      | some rx => pure (replaceFirst acc cs rx)
      | none => .error .fmtArg) cr0
  pure (replaceAll out Gen.format_escape ['%', '%'])

def regexTable (rows : List DirRow) : R (List (Str × Str)) := do
  let plain := (rows.filter fun r => !r.2.1).map fun r => (r.1, r.2.2)
  let comp := (rows.filter fun r => r.2.1).map fun r => (r.1, r.2.2)
  comp.foldlM (fun (results : List (Str × Str)) (p : Str × Str) => do
      let cr ← expandCregex results p.2
      pure (ainsert p.1 cr results)) plain

/-- names of the named groups found by the inner pattern of `gen_format` in one directive regex -/
def innerAliases (regex : Str) : R (List Str) := do
  let r ← reOrErr Gen.gen_format_inner_re
  pure ((finditer r regex).map fun m => (alookup "alias".toList m.2.2.2).getD [])

def cacheGet (c : List (Str × Nat)) (k : Str) : Nat := (alookup k c).getD 0

/-- rename the groups of one directive regex: `(?P<alias>` ↦ `(?P<prefix alias scache suffix>` -/
def renameGroups (pre suf : Str) (regex : Str) (cache : List (Str × Nat)) : R (Str × List (Str × Nat)) := do
  let aliases ← innerAliases regex
  if aliases.isEmpty then .error .fmtValue
  else
    let p0 := (Gen.gen_format_alias_parts.getD 0 [])
    let p4 := (Gen.gen_format_alias_parts.getD 4 [])
    pure (aliases.foldl (fun (acc : Str × List (Str × Nat)) (al : Str) =>
        let n := cacheGet acc.2 al
        let old := p0 ++ al ++ p4
        let new := p0 ++ pre ++ al ++ scache n ++ suf ++ p4
        (replaceFirst acc.1 old new, ainsert al (n + 1) acc.2)) (regex, cache))

/-- `re.sub(pattern, f, s)` for a replacement *function* that may raise and that threads a state
    (the `_cache` counters): matches left to right, the text between matches is kept -/
def subFold {σ : Type} (r : RE) (s : Str) (f : σ → Str → R (Str × σ)) (st : σ) : R (Str × σ) := do
  let (out, cur, st') ← (finditer r s).foldlM (fun (acc : Str × Nat × σ) m => do
      let (rep, st2) ← f acc.2.2 m.2.2.1
      pure (acc.1 ++ (s.drop acc.2.1).take (m.1 - acc.2.1) ++ rep, m.2.1, st2)) (([] : Str), 0, st)
  pure (out ++ s.drop cur, st')

/-- `cls.gen_format(fmt, prefix=…, suffix=…)`: one left-to-right pass over `%%` and directives -/
def genFormat (table : List (Str × Str)) (fmt pre suf : Str) : R Str := do
  let r ← reOrErr Gen.gen_format_token_re
  let (out, _) ← subFold r fmt (fun (cache : List (Str × Nat)) (tok : Str) =>
      if tok == ['%', '%'] then pure (Gen.gen_format_percent, cache)
      else
        match alookup tok table with
        | none => .error .fmtArg
        | some rx => renameGroups pre suf rx cache) ([] : List (Str × Nat))
  pure out

/-- one step of `__validate_format`: a capture `name__k` joins `name`; a differing duplicate is rejected -/
def validateStep (acc : List (Str × Option Str)) (p : Str × Option Str) : R (List (Str × Option Str)) :=
  let k := splitFirst p.1 ['_', '_']
  match alookup k acc with
  | none => .ok (acc ++ [(k, p.2)])
  | some v => if v == p.2 then .ok acc else .error .fmtValue

/-- `__validate_format`: merge `name__k` captures; differing duplicates are rejected -/
def validateFormat (gd : List (Str × Option Str)) : R (List (Str × Option Str)) :=
  gd.foldlM validateStep []

/-- attribute values -/
inductive AV where
  | none
  | str (s : Str)
  | strs (l : List Str)
  | dec (neg : Nat) (coeff : Nat) (exp : Int)      -- Decimal: (-1)^neg × coeff × 10^exp
  deriving Repr, DecidableEq, Inhabited

structure Obj where
  attrs : List (Str × AV) := []
  level : List Bool := []
  deriving Repr, DecidableEq, Inhabited

def Obj.get (o : Obj) (k : Str) : AV := (alookup k o.attrs).getD .none
def Obj.set (o : Obj) (k : Str) (v : AV) : Obj := { o with attrs := ainsert k v o.attrs }
def Obj.getStr (o : Obj) (k : String) : Str := match o.get k.toList with | .str s => s | _ => []
def Obj.getStrs (o : Obj) (k : String) : List Str := match o.get k.toList with | .strs l => l | _ => []

/-- `self.level.update(numbers)`: level 0 is skipped, an out-of-range level is an error -/
def levelUpdate (lv : List Bool) (nums : List Nat) : R (List Bool) :=
  nums.foldlM (fun (acc : List Bool) (n : Nat) =>
    if n == 0 then pure acc
    else if n ≤ acc.length then pure (acc.set (n - 1) true)
    else .error .fmtValue) lv

/-- `self.level.checker(numbers)` -/
def levelChecker (lv : List Bool) (nums : List Nat) : Bool :=
  (nums.filter (· != 0)).all fun n => if n ≤ lv.length then lv.getD (n - 1) false else false

/-- `self.level.slot[i]` -/
def levelSlot (lv : List Bool) (i : Nat) : Bool := lv.getD i false

/-- what a formatter class supplies besides its tables -/
structure Cls (Val : Type) where
  name : Str
  rows : List DirRow
  priorities : List (Str × List Nat)
  baseFmt : Str
  baseLevel : Nat
  slots : List Str
  /-- `props.value(text)` for a capture name; may read and write the object (Datetime) -/
  conv : Str → Obj → Str → R (AV × Obj)
  /-- `caller(props.value)` for `_default` / `_fix` entries -/
  dflt : Str → Obj → R (AV × Obj)
  truthy : AV → Bool
  /-- `getter != p` in strict mode -/
  differs : AV → AV → Bool
  validate : Obj → R Obj
  string : Obj → Str
  value : Obj → R Val
  /-- renderer of one directive for a prepared value -/
  render : Str → Val → R Str

def isDefaultName (name : Str) : Bool :=
  endsWith name "_default".toList || endsWith name "_fix".toList

/-- one iteration of the priority loop of `Formatter.__init__` -/
def prioStep {Val} (C : Cls Val) (formats : List (Str × Option Str)) (strict : Bool) (o : Obj)
    (entry : Str × List Nat) : R Obj :=
  let name := entry.1
  let attr := splitFirst name ['_']
  let getter := o.get attr
  if C.truthy getter then
    if !strict then pure o
    else
      match alookup name formats with
      | some (some text) => do
        let (p, o') ← C.conv name o text
        if C.differs getter p then .error .fmtValue else pure o'
      | some none => .error .pyType
      | none => pure o
  else if isDefaultName name then do
    let (v, o') ← C.dflt name o
    let lv ← levelUpdate o'.level entry.2
    pure { (o'.set attr v) with level := lv }
  else
    match alookup name formats with
    | some (some text) => do
      let (v, o') ← C.conv name o text
      let lv ← levelUpdate o'.level entry.2
      pure { (o'.set attr v) with level := lv }
    | some none => .error .pyType
    | none => pure o

/-- the priority loop of `Formatter.__init__` -/
def priorityLoop {Val} (C : Cls Val) (formats : List (Str × Option Str)) (strict : Bool) (o : Obj) : R Obj :=
  C.priorities.foldlM (prioStep C formats strict) o

/-- `Formatter.__init__(formats, set_strict_mode)` -/
def init {Val} (C : Cls Val) (gd : List (Str × Option Str)) (strict : Bool) : R Obj := do
  let formats ← validateFormat gd
  let o0 : Obj := { attrs := (C.slots.filter (· != lower C.name)).map fun s => (s, AV.none),
                    level := List.replicate C.baseLevel false }
  let o ← priorityLoop C formats strict o0
  C.validate o

/-- foreign exceptions the fixed `parse` converts into FormatterValueError:
    ValueError and ArithmeticError (decimal.InvalidOperation, OverflowError) -/
def wrapValueErrors {α} (r : R α) : R α :=
  match r with
  | .error .pyValue => .error .fmtValue
  | .error .decInvalid => .error .fmtValue
  | .error .pyOverflow => .error .fmtValue
  | x => x

/-- the compiled pattern `parse` searches with: `^` + `gen_format(fmt)` + `\Z` -/
def patternFor {Val} (C : Cls Val) (f : Str) : R RE := do
  let table ← regexTable C.rows
  let g ← genFormat table f [] []
  compileRe (Gen.parse_anchor_pre ++ g ++ Gen.parse_anchor_post)

/-- `fmt or cls.base_fmt` -/
def fmtOrBase {Val} (C : Cls Val) (fmt : Option Str) : Str :=
  match fmt with | some f => if f.isEmpty then C.baseFmt else f | none => C.baseFmt

/-- what `parse` does once the pattern is compiled -/
def parseWith {Val} (C : Cls Val) (r : RE) (value : Str) (strict : Bool) : R Obj :=
  match search r value with
  | none => .error .fmtValue
  | some (_, _, caps) => wrapValueErrors (init C (groupdict r caps) strict)

/-- `cls.parse(value, fmt, strict=…)` -/
def parse {Val} (C : Cls Val) (value : Str) (fmt : Option Str) (strict : Bool) : R Obj := do
  let r ← patternFor C (fmtOrBase C fmt)
  parseWith C r value strict

/-- `self.format(fmt)` for a prepared value: one left-to-right pass (`re.sub`) over `%%` and directives; `%%` becomes
    a percent sign, a directive its rendering, an unsupported directive is FormatterKeyError; the text in between is kept -/
def formatVal {Val} (C : Cls Val) (v : Val) (fmt : Str) : R Str := do
  let r ← reOrErr Gen.format_token_re
  let (out, _) ← subFold r fmt (fun (_ : Unit) (tok : Str) =>
      if tok == ['%', '%'] then pure (Gen.format_percent, ())
      else if (C.rows.any fun r => r.1 == tok) then
        -- a renderer that yields `None` (Version `%l` without a local label; modelled as `.pyType`, which is what
        -- `str.replace(None)` raised before the repair) contributes nothing: `re.sub` drops a `None` replacement
        match C.render tok v with
        | .ok text => pure (text, ())
        | .error .pyType => pure ([], ())
        | .error e => .error e
      else .error .fmtKey) ()
  pure out

/-- `obj.format(fmt)` -/
def format {Val} (C : Cls Val) (o : Obj) (fmt : Str) : R Str := do
  let v ← C.value o
  formatVal C v fmt

/-- `cls.from_value(value)` for an already prepared value: render the directives of the base format
    (in `formatter()` order), join with "_", parse back -/
def fromValue {Val} (C : Cls Val) (v : Val) : R Obj := do
  let baseToks ← tokens Gen.from_value_token_re C.baseFmt
  let keys := (C.rows.map (·.1)).filter fun k => baseToks.contains k
  let vals ← keys.mapM fun k => C.render k v
  if keys.isEmpty then .error .pyValue
  else parse C (join ['_'] vals) (some (join ['_'] keys)) false

end Engine
