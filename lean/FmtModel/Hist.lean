import FmtModel.Engine
/-
  FmtModel.Hist — call histories against the one piece of process-wide state the library keeps: the
  `lru_cache` of `regex()`, keyed by the class (C17).  Classes are numbered in order of creation (the
  five formatters first; constants and groups created mid-history get the next number — a new class
  object per `dict2const` / `make_group` call, so equal names never share a cache entry).
  An operation on a class is ANY function of the class's regex table and the operation's own arguments
  (`parse`, `gen_format`, `regex`, `format`, the comparison operators: they reach shared state only
  through `cls.regex()`).  A step is atomic; a thread schedule is an interleaving of steps.
-/
namespace Hist
open Py Engine

abbrev Table := List (Str × Str)
abbrev Registry := List (List DirRow)
abbrev Cache := List (Nat × Table)

def clookup (i : Nat) : Cache → Option Table
  | [] => none
  | (j, t) :: rest => if j = i then some t else clookup i rest

/-- what `cls.regex()` computes without a cache -/
def regexOf (reg : Registry) (i : Nat) : R Table :=
  match reg[i]? with
  | some rows => regexTable rows
  | none => .error .pyKey

/-- `cls.regex()` through `lru_cache`: a hit returns the stored table, a miss computes and stores it
    (an exception is not cached) -/
def regexCached (reg : Registry) (cache : Cache) (i : Nat) : Cache × R Table :=
  match clookup i cache with
  | some t => (cache, .ok t)
  | none =>
    match regexOf reg i with
    | .ok t => ((i, t) :: cache, .ok t)
    | .error e => (cache, .error e)

inductive Op where
  | define (rows : List DirRow)                 -- a class is created (dict2const, make_group member, subclass)
  | call (cls : Nat) (k : R Table → R Str)      -- any operation: a function of regex() and its own arguments

structure St where
  reg : Registry
  cache : Cache

def step (st : St) : Op → St × Option (R Str)
  | .define rows => ({ st with reg := st.reg ++ [rows] }, none)
  | .call i k =>
    let (c', t) := regexCached st.reg st.cache i
    ({ st with cache := c' }, some (k t))

/-- the same operation with no cache at all -/
def stepPure (reg : Registry) : Op → Registry × Option (R Str)
  | .define rows => (reg ++ [rows], none)
  | .call i k => (reg, some (k (regexOf reg i)))

def run : St → List Op → List (Option (R Str))
  | _, [] => []
  | st, op :: ops => let (st', o) := step st op; o :: run st' ops

def runPure : Registry → List Op → List (Option (R Str))
  | _, [] => []
  | reg, op :: ops => let (reg', o) := stepPure reg op; o :: runPure reg' ops

end Hist
