import FmtModel.Engine
import FmtModel.Classes.Serial
import FmtModel.Py.Cal
/-
  FmtModel.Classes.Datetime — `fmtutil.formatter.Datetime`.  Attributes are kept as the *texts* the
  code keeps (`year := "2023"`, `month := "09"` …); numbers appear only through `value`.
  Month / weekday name tables and the renderer table come from `Gen`.
-/
namespace Datetime
open Py Py.Cal Engine

def str! (s : String) : Str := s.toList

def getS (o : Obj) (k : String) : Str := o.getStr k

/-- `self.string` -/
def string (o : Obj) : Str :=
  getS o "year" ++ ['-'] ++ getS o "month" ++ ['-'] ++ getS o "day" ++ [' '] ++ getS o "hour" ++ [':']
    ++ getS o "minute" ++ [':'] ++ getS o "second" ++ ['.'] ++ getS o "microsecond"

/-- `self.value` = `datetime.fromisoformat(self.string)` -/
def value (o : Obj) : R DT :=
  fromIso (getS o "year") (getS o "month") (getS o "day") (getS o "hour") (getS o "minute") (getS o "second")
    (getS o "microsecond")

def rj2 (x : Str) : Str := rjust x 2 '0'

def lookupTbl (t : List (Str × Str)) (k : Str) : R Str :=
  match alookup k t with
  | some v => .ok v
  | none => .error .pyKey

/-- `_sub_validate(level, checker, error)` : raises when the slot is set and the check fails;
    returns `not slot` -/
def subValidate (o : Obj) (level : Nat) (checker : Bool) : R Bool :=
  let sl := levelSlot o.level (level - 1)
  if sl && checker then .error .fmtValue else .ok (!sl)

/-- shared tail of `_from_day_year`, `_from_week_year_*`: validate / set month (and day) -/
def applyMonth (o : Obj) (t : DT) : R Obj := do
  let m := pad 2 t.month
  let setIt ← subValidate o 9 (o.get (str! "month") != .str m)
  pure (if setIt then o.set (str! "month") (.str m) else o)

def applyDay (o : Obj) (t : DT) : R Obj := do
  let d := pad 2 t.day
  let setIt ← subValidate o 8 (o.get (str! "day") != .str d)
  pure (if setIt then o.set (str! "day") (.str d) else o)

def intOf (s : Str) : R Int := pyInt s

/-- `_from_day_year` -/
def fromDayYear (o : Obj) (x : Str) : R (AV × Obj) := do
  let k ← intOf x
  let t ← yearPlusDays (getS o "year") (k - 1)
  let o' ← applyMonth o t
  pure (.str (pad 2 t.day), o')

/-- `_from_week_year_mon` / `_from_week_year_sun` -/
def fromWeekYear (mon : Bool) (o : Obj) (x : Str) : R (AV × Obj) := do
  let wk := match o.get (str! "week") with | .str s => s | _ => "None".toList
  let t ← strptimeWeek (getS o "year") x wk mon
  let o1 ← applyMonth o t
  let o2 ← applyDay o1 t
  pure (.str (showNat (weekdaySun (toOrdinal t.year t.month t.day))), o2)

/-- `_from_hour_12` (after the 12 AM / 12 PM repair) -/
def fromHour12 (o : Obj) (x : Str) : R (AV × Obj) :=
  let loc := getS o "locale"
  if levelSlot o.level 0 && !loc.isEmpty then do
    let h ← intOf x
    let hh : Int := h % 12 + (if loc == str! "PM" then 12 else 0)
    pure (.str (rjust (showInt hh) 2 '0'), o)
  else .ok (.str (rj2 x), o)

def conv (name : Str) (o : Obj) (x : Str) : R (AV × Obj) :=
  let is (s : String) : Bool := name == s.toList
  if is "locale" || is "year" || is "month_pad" || is "day_pad" || is "week" || is "hour_pad" || is "minute_pad"
      || is "second_pad" || is "microsecond_pad" then .ok (.str x, o)
  else if is "year_cut_pad" then .ok (.str ('1' :: '9' :: x), o)
  else if is "year_cut" then .ok (.str ('1' :: '9' :: rj2 x), o)
  else if is "month" || is "day" || is "hour" || is "minute" || is "second" then .ok (.str (rj2 x), o)
  else if is "month_short" then (lookupTbl Gen.months x).map fun v => (.str v, o)
  else if is "month_full" then (lookupTbl Gen.months (x.take 3)).map fun v => (.str v, o)
  else if is "day_year" || is "day_year_pad" then fromDayYear o x
  else if is "week_mon" then (intOf x).map fun i => (.str (showInt (i % 7)), o)
  else if is "week_short" then (lookupTbl Gen.weeks x).map fun v => (.str v, o)
  else if is "week_full" then (lookupTbl Gen.weeks (x.take 3)).map fun v => (.str v, o)
  else if is "weeks_year_mon_pad" then fromWeekYear true o x
  else if is "weeks_year_sun_pad" then fromWeekYear false o x
  else if is "hour_12" || is "hour_12_pad" then fromHour12 o x
  else .error .pyKey

def dflt (name : Str) (o : Obj) : R (AV × Obj) :=
  let is (s : String) : Bool := name == s.toList
  if is "year_default" then .ok (.str (str! "1900"), o)
  else if is "month_default" || is "day_default" then .ok (.str (str! "01"), o)
  else if is "hour_default" || is "minute_default" || is "second_default" then .ok (.str (str! "00"), o)
  else if is "microsecond_default" then .ok (.str (str! "000000"), o)
  else if is "week_default" then do
    let t ← strptimeYmd (getS o "year") (getS o "month") (getS o "day")
    pure (.str (showNat (weekdaySun (toOrdinal t.year t.month t.day))), o)
  else if is "locale_default" then do
    let h ← intOf (getS o "hour")
    pure (.str (if h ≥ 12 then str! "PM" else str! "AM"), o)
  else .error .pyKey

/-- `validate`: the weekday and AM/PM statements must agree with the date and the hour -/
def validate (o : Obj) : R Obj := do
  let t ← value o
  let w := showNat (weekdaySun (toOrdinal t.year t.month t.day))
  if o.get (str! "week") != .str w then .error .fmtValue
  else
    let p := if t.hour < 12 then str! "AM" else str! "PM"
    if o.get (str! "locale") != .str p then .error .fmtValue else pure o

/-- renderer: the regenerated table says which strftime directive a formatter directive delegates
    to and whether the leading zeros are removed afterwards -/
def render (key : Str) (t : DT) : R Str :=
  match Gen.datetime_renderers.find? fun r => r.1 == key with
  | some (_, strip, f) => .ok (if strip then Serial.removePad (strftime f t) else strftime f t)
  | none => .error .pyKey

def cls : Cls DT where
  name := Gen.datetime_name
  rows := Gen.datetime_formatter
  priorities := Gen.datetime_priorities
  baseFmt := Gen.datetime_base_fmt
  baseLevel := Gen.datetime_base_level
  slots := Gen.datetime_slots
  conv := conv
  dflt := dflt
  truthy := Serial.truthy
  differs := Serial.differs
  validate := validate
  string := string
  value := value
  render := render

end Datetime
