import FmtModel.Engine
import FmtModel.Classes.Serial
import FmtModel.Ver
/-
  FmtModel.Classes.Version — `fmtutil.formatter.Version`; its value is a `VersionPackage`
  (model: `Ver.Obj` of class `.pkg`).
-/
namespace Version
open Py Engine

def str! (s : String) : Str := s.toList
def getS (o : Obj) (k : String) : Str := o.getStr k
def truthyS (o : Obj) (k : String) : Bool := !(getS o k).isEmpty

/-- `self.string` -/
def string (o : Obj) : Str :=
  let rel := getS o "major" ++ ['.'] ++ getS o "minor" ++ ['.'] ++ getS o "micro"
  let r0 := if o.get (str! "epoch") != .str ['0'] then getS o "epoch" ++ ['!'] ++ rel else 'v' :: rel
  let r1 := if truthyS o "pre" then r0 ++ getS o "pre" else r0
  let r2 := if truthyS o "post" then r1 ++ getS o "post" else r1
  let r3 := if truthyS o "dev" then r2 ++ ['.'] ++ getS o "dev" else r2
  if truthyS o "local" then r3 ++ ['+'] ++ getS o "local" else r3

/-- `self.value` = `VersionPackage.parse(self.string)` -/
def value (o : Obj) : R Ver.Obj := Ver.parse .pkg (string o)

def matchesPrefix (word tail value : Str) : Bool :=
  match parseRegex (word ++ tail) with
  | some r => (matchAt r value.length value).isSome
  | none => false

/-- `__from_prefix` -/
def fromPrefixGo (value : Str) : List (Str × List Str) → Option Str
  | [] => none
  | (rep, letters) :: rest =>
    match letters.find? fun l => matchesPrefix l Gen.from_prefix_tail value with
    | some l => some (replaceAll value l rep)
    | none =>
      if matchesPrefix rep Gen.from_prefix_tail2 value then some value else fromPrefixGo value rest

def fromPrefix (value : Str) : R Str :=
  match fromPrefixGo value Gen.from_prefix_table with
  | some v => .ok v
  | none => if matchesPrefix [] Gen.from_prefix_implicit value then .ok value else .error .fmtValue

def conv (name : Str) (o : Obj) (x : Str) : R (AV × Obj) :=
  let is (s : String) : Bool := name == s.toList
  if is "epoch" then .ok (.str (removeSuffix x ['!']), o)
  else if is "epoch_num" || is "major" || is "minor" || is "micro" || is "post_num" || is "dev" || is "local_str" then
    .ok (.str x, o)
  else if is "pre" || is "post" then (fromPrefix x).map fun v => (.str v, o)
  else if is "local" then .ok (.str (removePrefix x ['+']), o)
  else .error .pyKey

def dflt (name : Str) (o : Obj) : R (AV × Obj) :=
  let is (s : String) : Bool := name == s.toList
  if is "epoch_default" || is "major_default" || is "minor_default" || is "micro_default" then .ok (.str ['0'], o)
  else .error .pyKey

/-- `validate` (added by the C06 repair): the assembled text must be a packaging version -/
def validate (o : Obj) : R Obj :=
  match Ver.parse .pkg (string o) with
  | .ok _ => .ok o
  | .error .pyValue => .error .fmtValue
  | .error e => .error e

/-- `v_pre` / `v_post` / `v_dev`: the number of a segment, `none` when the segment is absent -/
def segNum (seg : Option Str) : R (Option Int) :=
  if Ver.truthyStr seg then (Ver.extractLetter (seg.getD [])).map fun p => some p.2 else .ok none

def numOrEmpty (n : Option Int) : Str :=
  match n with
  | some k => if k == 0 then [] else showInt k
  | none => []

def render (key : Str) (v : Ver.Obj) : R Str :=
  let is (s : String) : Bool := key == s.toList
  if is "%f" || is "%-f" then .ok (showNat v.major ++ ['_'] ++ showNat v.minor ++ ['_'] ++ showNat v.patch)
  else if is "%m" then .ok (showNat v.major)
  else if is "%n" then .ok (showNat v.minor)
  else if is "%c" then .ok (showNat v.patch)
  else if is "%e" then .ok (showNat v.epoch ++ ['!'])
  else if is "%-e" then .ok (showNat v.epoch)
  else if is "%q" then (segNum v.pre).map numOrEmpty
  else if is "%p" || is "%-p" then (segNum v.post).map numOrEmpty
  else if is "%d" then (segNum v.dev).map numOrEmpty
  else if is "%l" then (match v.loc with | some l => .ok l | none => .error .pyType)
  else if is "%-l" then .ok ('+' :: (v.loc.getD "None".toList))
  else .error .pyKey

def cls : Cls Ver.Obj where
  name := Gen.version_name
  rows := Gen.version_formatter
  priorities := Gen.version_priorities
  baseFmt := Gen.version_base_fmt
  baseLevel := Gen.version_base_level
  slots := Gen.version_slots
  conv := conv
  dflt := dflt
  truthy := Serial.truthy
  differs := Serial.differs
  validate := validate
  string := string
  value := value
  render := render

end Version
