import FmtModel.Engine
import FmtModel.Py.Dec
/-
  FmtModel.Classes.Storage — `fmtutil.formatter.Storage`: bits and bytes as `decimal.Decimal`.
-/
namespace Storage
open Py Py.Dec Engine

def str! (s : String) : Str := s.toList

def toAV (d : D) : AV := .dec (if d.neg then 1 else 0) d.coeff d.exp

/-- Decimal of an attribute: `Decimal(self.byte or "0")` -/
def attrDec (o : Obj) (k : String) : D :=
  match o.get k.toList with
  | .dec n c e => { neg := n == 1, coeff := c, exp := e }
  | _ => { coeff := 0, exp := 0 }

def decOf (s : Str) : R D :=
  match ofStr s with
  | some d => .ok d
  | none => .error .decInvalid

/-- `round_up` = `round(value, storage_rounding)` for rounding 0 -/
def roundUp (d : D) : R D :=
  match quantize0 d with
  | some q => .ok q
  | none => .error .decInvalid

def sizeIndex (order : Str) : Option Nat := Gen.sizes.findIdx? (· == order)

/-- `Decimal(math.pow(1024, SIZE.index(order)))` -/
def factor (order : Str) : R D :=
  match sizeIndex order with
  | some k => .ok (Dec.ofNat (1024 ^ k))
  | none => .error .pyValue

/-- `str2byte(value, order)` -/
def str2byte (x order : Str) : R D := do
  let p ← factor order
  let v ← decOf (replaceAll x order [])
  roundUp (mul v p)

def byteOrders : List (String × String) :=
  [("byte", "B"), ("byte_kilo", "KB"), ("byte_mega", "MB"), ("byte_giga", "GB"), ("byte_tera", "TB"),
   ("byte_peta", "PB"), ("byte_exa", "EB"), ("byte_zetta", "ZB"), ("byte_yotta", "YB")]

def conv (name : Str) (o : Obj) (x : Str) : R (AV × Obj) :=
  if name == str! "bit" then (decOf x).map fun d => (toAV d, o)
  else
    match byteOrders.find? fun p => name == p.1.toList with
    | some (_, order) => (str2byte x order.toList).map fun d => (toAV d, o)
    | none => .error .pyKey

def dflt (name : Str) (o : Obj) : R (AV × Obj) :=
  if name == str! "bit_default" then .ok (toAV (mul (attrDec o "byte") (Dec.ofNat 8)), o)
  else if name == str! "byte_default" then
    match div (attrDec o "bit") (Dec.ofNat 8) with
    | some d => .ok (toAV d, o)
    | none => .error .decInvalid
  else .error .pyKey

def truthy : AV → Bool
  | .dec _ c _ => c != 0
  | .str s => !s.isEmpty
  | .strs l => !l.isEmpty
  | .none => false

def avDec : AV → Option D
  | .dec n c e => some { neg := n == 1, coeff := c, exp := e }
  | _ => none

/-- Decimal `!=` is numeric -/
def differs (a b : AV) : Bool :=
  match avDec a, avDec b with
  | some x, some y => !Dec.eq x y
  | _, _ => a != b

/-- `validate`: `byte2bit(self.byte) != self.bit` -/
def validate (o : Obj) : R Obj := do
  let b ← roundUp (mul (mul (attrDec o "byte") (Dec.ofNat 1)) (Dec.ofNat 8))
  if !Dec.eq b (attrDec o "bit") then .error .fmtValue else pure o

def string (o : Obj) : Str :=
  match o.get (str! "bit") with
  | .dec n c e => toStr { neg := n == 1, coeff := c, exp := e }
  | _ => "None".toList

def value (o : Obj) : R D := decOf (string o)

/-- `prepare_value(Decimal)`: non-negative, then `round_up(Decimal(str(value)))` -/
def prepare (d : D) : R D :=
  if d.neg && d.coeff != 0 then .error .fmtValue else roundUp d

def render (key : Str) (v : D) : R Str := do
  let size ← prepare v
  if key == str! "%b" then pure (toStr size)
  else if key == str! "%B" then
    match div size (Dec.ofNat 8) with
    | some q => pure (showInt (roundInt q) ++ ['B'])
    | none => .error .decInvalid
  else
    let orders : List (String × String) := [("%K", "KB"), ("%M", "MB"), ("%G", "GB"), ("%T", "TB"), ("%P", "PB"),
      ("%E", "EB"), ("%Z", "ZB"), ("%Y", "YB")]
    match orders.find? fun p => key == p.1.toList with
    | some (_, order) => do
      let p ← factor order.toList
      match div size (Dec.ofNat 8) with
      | some q =>
        match div q p with
        | some q2 => do
          let r ← roundUp q2
          pure (toStr r ++ order.toList)
        | none => .error .decInvalid
      | none => .error .decInvalid
    | none => .error .pyKey

def cls : Cls D where
  name := Gen.storage_name
  rows := Gen.storage_formatter
  priorities := Gen.storage_priorities
  baseFmt := Gen.storage_base_fmt
  baseLevel := Gen.storage_base_level
  slots := Gen.storage_slots
  conv := conv
  dflt := dflt
  truthy := truthy
  differs := differs
  validate := validate
  string := string
  value := value
  render := render

end Storage
