import FmtModel.Engine
/-
  FmtModel.Classes.Serial — `fmtutil.formatter.Serial`: converters, renderers, value.
  Value type: a natural number (after the `prepare_value` repair integers are kept exact).
-/
namespace Serial
open Py Engine

/-- `remove_pad` of utils.py (after the repair): strip leading zeros, keep one "0" -/
def removePad (s : Str) : Str :=
  match s.dropWhile (· == '0') with
  | [] => ['0']
  | r => r

def conv (name : Str) (o : Obj) (x : Str) : R (AV × Obj) :=
  if name == "number".toList then .ok (.str x, o)
  else if name == "number_pad".toList then .ok (.str (removePad x), o)
  else if name == "number_binary".toList then (pyInt2 x).map fun i => (.str (showInt i), o)
  else if name == "number_comma".toList then .ok (.str (replaceAll x [','] []), o)
  else if name == "number_underscore".toList then .ok (.str (replaceAll x ['_'] []), o)
  else .error .pyKey

def dflt (name : Str) (o : Obj) : R (AV × Obj) :=
  if name == "number_default".toList then .ok (.str ['0'], o) else .error .pyKey

def truthy : AV → Bool
  | .str s => !s.isEmpty
  | .strs l => !l.isEmpty
  | .dec _ c _ => c != 0
  | .none => false

def differs (a b : AV) : Bool := a != b

def string (o : Obj) : Str := o.getStr "number"

/-- `int(self.string)` -/
def value (o : Obj) : R Nat := do
  let i ← pyInt (string o)
  if i < 0 then .error .pyValue else pure i.toNat

/-- `to_padding` -/
def toPadding (w : Nat) (s : Str) : Str := if s.isEmpty then [] else rjust s w '0'

def render (padW binW : Nat) (key : Str) (n : Nat) : R Str :=
  if key == "%n".toList then .ok (showNat n)
  else if key == "%p".toList then .ok (toPadding padW (showNat n))
  else if key == "%b".toList then .ok (showBinPad binW n)
  else if key == "%c".toList then .ok (showThousands ',' n)
  else if key == "%u".toList then .ok (showThousands '_' n)
  else .error .pyKey

/-- the Serial class over the regenerated tables -/
def cls : Cls Nat where
  name := Gen.serial_name
  rows := Gen.serial_formatter
  priorities := Gen.serial_priorities
  baseFmt := Gen.serial_base_fmt
  baseLevel := Gen.serial_base_level
  slots := Gen.serial_slots
  conv := conv
  dflt := dflt
  truthy := truthy
  differs := differs
  validate := fun o => .ok o
  string := string
  value := value
  render := render Gen.serial_max_padding Gen.serial_max_binary

end Serial
