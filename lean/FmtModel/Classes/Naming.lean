import FmtModel.Engine
import FmtModel.Classes.Serial
/-
  FmtModel.Classes.Naming — `fmtutil.formatter.Naming`.  Attributes are lists of words
  (`strings`), `[flat]`, the list of initials (`shorts`), `[vowel-less]`.
-/
namespace Naming
open Py Engine

def str! (s : String) : Str := s.toList

def isVowel (c : Char) : Bool := c == 'a' || c == 'e' || c == 'i' || c == 'o' || c == 'u'
def isVowelU (c : Char) : Bool := c == 'A' || c == 'E' || c == 'I' || c == 'O' || c == 'U'

/-- `re.sub(r"[aeiou]", "", s)` -/
def dropVowels (s : Str) : Str := s.filter (!isVowel ·)

def concat (l : List Str) : Str := l.foldr (· ++ ·) []

/-- `__split_pascal_case` -/
def splitPascal (x : Str) : List Str :=
  splitWs (x.flatMap fun c => if isAsciiUpper c then [' ', lowerC c] else [c])

/-- `word[idx:].index(s)` for a one-character (or any) needle -/
def indexFrom (word : Str) (idx : Nat) (s : Str) : Option Nat := indexOf (word.drop idx) s

/-- `__validate_word_with_short(word, shorts)`: True = the initials are NOT a subsequence -/
def validateWordShort (word : Str) : List Str → Nat → Bool
  | [], _ => false
  | s :: rest, idx =>
    match indexFrom word idx s with
    | none => true
    | some k => validateWordShort word rest (idx + k + 1)

/-- `__extract_from_word_with_short(word, shorts)`: cut `word` at the (non-advancing) positions of
    the initials; `none` = ValueError from `.index` -/
def extractPositions (word : Str) : List Str → Nat → Option (List Nat)
  | [], _ => some []
  | s :: rest, idx =>
    match indexFrom word idx s with
    | none => none
    | some k => (extractPositions word rest (idx + k)).map ((idx + k) :: ·)

def sliceBy (word : Str) : List Nat → List Str
  | [] => []
  | [i] => [word.drop i]
  | i :: j :: rest => ((word.drop i).take (j - i)) :: sliceBy word (j :: rest)

def extractFromWordShort (word : Str) (shorts : List Str) : R (List Str) :=
  match extractPositions word shorts 0 with
  | some ps => .ok (sliceBy word ps)
  | none => .error .pyValue

def getL (o : Obj) (k : String) : List Str := o.getStrs k

def firstChars (ws : List Str) : R (List Str) :=
  ws.mapM fun w => match w with | c :: _ => pure [c] | [] => .error .pyIndex

def fromFlats (o : Obj) (x : Str) : R (AV × Obj) :=
  if levelChecker o.level [5] && [concat (getL o "strings")] != [x] then .error .fmtValue
  else .ok (.strs [x], o)

def fromShorts (o : Obj) (x : Str) : R (AV × Obj) := do
  let v := x.map fun c => [c]
  if levelChecker o.level [5] then
    let fc ← firstChars (getL o "strings")
    if fc != v then .error .fmtValue else pure (.strs v, o)
  else pure (.strs v, o)

def fromVowels (o : Obj) (x : Str) : R (AV × Obj) :=
  if levelChecker o.level [5] && [dropVowels (concat (getL o "strings"))] != [x] then .error .fmtValue
  else .ok (.strs [x], o)

def conv (name : Str) (o : Obj) (x : Str) : R (AV × Obj) :=
  let is (s : String) : Bool := name == s.toList
  if is "strings" || is "strings_lower" then .ok (.strs (splitWs x), o)
  else if is "strings_upper" || is "strings_title" then .ok (.strs (splitWs (lower x)), o)
  else if is "strings_camel" || is "strings_pascal" then .ok (.strs (splitPascal x), o)
  else if is "strings_kebab" then .ok (.strs (splitOn x ['-']), o)
  else if is "strings_kebab_upper" || is "strings_train" then .ok (.strs (splitOn (lower x) ['-']), o)
  else if is "strings_snake" then .ok (.strs (splitOn x ['_']), o)
  else if is "strings_snake_upper" || is "strings_snake_title" then .ok (.strs (splitOn (lower x) ['_']), o)
  else if is "flats" then fromFlats o x
  else if is "flats_upper" then fromFlats o (lower x)
  else if is "shorts" then fromShorts o x
  else if is "shorts_upper" then fromShorts o (lower x)
  else if is "vowels" then fromVowels o x
  else if is "vowels_upper" then fromVowels o (lower x)
  else .error .pyKey

/-- the `__default(logic)` closures: nothing unless the name itself was parsed (level 5) -/
def dflt (name : Str) (o : Obj) : R (AV × Obj) :=
  let is (s : String) : Bool := name == s.toList
  let have5 := levelSlot o.level 4
  let ws := getL o "strings"
  if is "strings_default" then .ok (.strs [], o)
  else if is "flats_default" then .ok (.strs (if have5 then [concat ws] else []), o)
  else if is "shorts_default" then
    if have5 then (firstChars ws).map fun fc => (.strs fc, o) else .ok (.strs [], o)
  else if is "vowels_default" then .ok (.strs (if have5 then [dropVowels (concat ws)] else []), o)
  else .error .pyKey

def validate (o : Obj) : R Obj := do
  let flats := getL o "flats"
  let shorts := getL o "shorts"
  let vowels := getL o "vowels"
  let flat0 := flats.headD []
  let o1 ←
    if levelChecker o.level [3, 2] then
      if validateWordShort flat0 shorts 0 then .error .fmtValue
      else if !levelChecker o.level [5] then do
        let ws ← extractFromWordShort flat0 shorts
        pure (o.set (str! "strings") (.strs ws))
      else pure o
    else pure o
  if levelChecker o1.level [1, 3] && [dropVowels flat0] != vowels then .error .fmtValue
  else if levelChecker o1.level [1, 2]
      && validateWordShort (vowels.headD []) (shorts.filter fun x => !(contains "aeiou".toList x)) 0 then
    .error .fmtValue
  else pure o1

def string (o : Obj) : Str :=
  let strings := getL o "strings"
  let flats := getL o "flats"
  let shorts := getL o "shorts"
  let vowels := getL o "vowels"
  if !strings.isEmpty then join [' '] strings
  else if !flats.isEmpty then flats.headD []
  else if !shorts.isEmpty then join [' '] shorts
  else if !vowels.isEmpty then vowels.headD []
  else []

def value (o : Obj) : R (List Str) := .ok (splitWs (string o))

/-- `prepare_value(list)`: drop everything but `-`, `.`, word characters and whitespace -/
def prepareWord (w : Str) : Str := w.filter fun c => c == '-' || c == '.' || isWordU c || isSpaceU c

/-- `pascal_case(snake)`: `re.sub(r"(?:^|_)(.)", upper)` -/
def pascalGo : Str → Str
  | [] => []
  | '_' :: c :: rest => if c != '\n' then upperC c :: pascalGo rest else '_' :: pascalGo (c :: rest)
  | c :: rest => c :: pascalGo rest

def pascalCase (s : Str) : Str :=
  match s with
  | [] => []
  | c :: rest => if c != '\n' then upperC c :: pascalGo rest else pascalGo s

def camelCase (s : Str) : Str :=
  match s with
  | [] => []
  | c :: _ => lowerC c :: (pascalCase s).drop 1

def firstOrEmpty (w : Str) : Str := match w with | c :: _ => [c] | [] => []

def render (key : Str) (ws0 : List Str) : R Str :=
  let ws := ws0.map prepareWord
  let is (s : String) : Bool := key == s.toList
  if is "%n" || is "%l" then .ok (join [' '] ws)
  else if is "%N" || is "%u" then .ok (join [' '] (ws.map upper))
  else if is "%-N" || is "%t" then .ok (join [' '] (ws.map capitalize))
  else if is "%a" then .ok (concat (ws.map firstOrEmpty))
  else if is "%A" then .ok (concat (ws.map fun w => upper (firstOrEmpty w)))
  else if is "%c" then .ok (camelCase (join ['_'] ws))
  else if is "%-c" || is "%p" then .ok (pascalCase (join ['_'] ws))
  else if is "%k" then .ok (join ['-'] ws)
  else if is "%K" then .ok (join ['-'] (ws.map upper))
  else if is "%-K" || is "%T" then .ok (join ['-'] (ws.map capitalize))
  else if is "%f" then .ok (concat ws)
  else if is "%F" then .ok (concat (ws.map upper))
  else if is "%s" then .ok (join ['_'] ws)
  else if is "%S" then .ok (join ['_'] (ws.map upper))
  else if is "%-S" then .ok (join ['_'] (ws.map capitalize))
  else if is "%v" then .ok (dropVowels (concat ws))
  else if is "%V" then .ok ((upper (concat ws)).filter (!isVowelU ·))
  else .error .pyKey

def truthy : AV → Bool := Serial.truthy

def cls : Cls (List Str) where
  name := Gen.naming_name
  rows := Gen.naming_formatter
  priorities := Gen.naming_priorities
  baseFmt := Gen.naming_base_fmt
  baseLevel := Gen.naming_base_level
  slots := Gen.naming_slots
  conv := conv
  dflt := dflt
  truthy := truthy
  differs := Serial.differs
  validate := validate
  string := string
  value := value
  render := render

end Naming
