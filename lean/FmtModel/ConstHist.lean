import FmtModel.Const
/-
  FmtModel.ConstHist — constant classes inside a call history (C15).

  Every dictionary lives in a store; the caller holds some of them (the mappings it created and the
  dictionaries a class handed out) and may change those at any point.  A constant class refers to the
  dictionary its pattern is generated from and the one it renders from.  `dict2const` copies its
  argument (`fmt = dict(fmt)`), `values()` and `regex()` hand out copies: whether they really do is
  probed on the real code by the translator on every run (`Gen.const_aliases_source`,
  `Gen.const_values_aliases`, `Gen.const_regex_aliases`); with a flag set the class shares the
  caller's dictionary instead.
-/
namespace ConstHist
open Py Engine

abbrev Map := List (Str × Str)

structure ClsRef where
  pat : Nat
  ren : Nat
  name : Str
  base : Option Str
  deriving DecidableEq

structure St where
  maps : List Map := []
  held : List Nat := []
  classes : List ClsRef := []

inductive Op where
  | newMap (m : Map)                                  -- the caller builds a mapping
  | create (src : Nat) (name : Str) (base : Option Str)  -- `dict2const(maps[src], name, base_fmt=base)`
  | handValues (c : Nat)                              -- `instance.values()` / `cls.formatter()`
  | handRegex (c : Nat)                               -- `cls.regex()`
  | set (h : Nat) (k v : Str)                         -- `d[k] = v` on a dictionary the caller holds
  | del (h : Nat) (k : Str)                           -- `del d[k]`
  | parse (c : Nat) (text fmt : Str) (strict : Bool)  -- observation
  | render (c : Nat) (text fmt fmt2 : Str)            -- observation: parse, then format

def adelete (k : Str) (m : Map) : Map := m.filter fun p => p.1 != k

/-- the class as the engine sees it at this point of the history -/
def clsOf (st : St) (c : ClsRef) : Cls (List Str) :=
  let mp := st.maps.getD c.pat []
  let mr := st.maps.getD c.ren []
  { Const.mk mp c.name c.base with render := fun key _ => match alookup key mr with | some v => .ok v | none => .error .pyKey }

def observeParse (st : St) (c : Nat) (text fmt : Str) (strict : Bool) : Option (R Str) :=
  (st.classes[c]?).map fun cr => (Const.parse (clsOf st cr) text (some fmt) strict).map (clsOf st cr).string

def observeRender (st : St) (c : Nat) (text fmt fmt2 : Str) : Option (R Str) :=
  (st.classes[c]?).map fun cr => do
    let o ← Const.parse (clsOf st cr) text (some fmt) false
    Engine.format (clsOf st cr) o fmt2

/-- one step: the new state and, for an observation, its outcome -/
def step (aliasSrc aliasVals aliasRegex : Bool) (st : St) : Op → St × Option (R Str)
  | .newMap m => ({ st with maps := st.maps ++ [m], held := st.maps.length :: st.held }, none)
  | .create src name base =>
    if src ∈ st.held then
      if aliasSrc then ({ st with classes := st.classes ++ [{ pat := src, ren := src, name := name, base := base }] }, none)
      else
        let n := st.maps.length
        ({ st with maps := st.maps ++ [st.maps.getD src []],
                   classes := st.classes ++ [{ pat := n, ren := n, name := name, base := base }] }, none)
    else (st, none)
  | .handValues c =>
    match st.classes[c]? with
    | none => (st, none)
    | some cr =>
      if aliasVals then ({ st with held := cr.ren :: st.held }, none)
      else ({ st with maps := st.maps ++ [st.maps.getD cr.ren []], held := st.maps.length :: st.held }, none)
  | .handRegex c =>
    match st.classes[c]? with
    | none => (st, none)
    | some cr =>
      if aliasRegex then ({ st with held := cr.pat :: st.held }, none)
      else ({ st with maps := st.maps ++ [st.maps.getD cr.pat []], held := st.maps.length :: st.held }, none)
  | .set h k v =>
    if h ∈ st.held then ({ st with maps := st.maps.set h (ainsert k v (st.maps.getD h [])) }, none) else (st, none)
  | .del h k =>
    if h ∈ st.held then ({ st with maps := st.maps.set h (adelete k (st.maps.getD h [])) }, none) else (st, none)
  | .parse c text fmt strict => (st, observeParse st c text fmt strict)
  | .render c text fmt fmt2 => (st, observeRender st c text fmt fmt2)

/-- run a history, collecting the observations -/
def run (a b c : Bool) : St → List Op → St × List (Option (R Str))
  | st, [] => (st, [])
  | st, op :: ops =>
    let (st1, o) := step a b c st op
    let (st2, os) := run a b c st1 ops
    (st2, match op with
          | .parse .. => o :: os
          | .render .. => o :: os
          | _ => os)

/-- the real code's behaviour: flags probed from /repo -/
def runReal : St → List Op → St × List (Option (R Str)) :=
  run Gen.const_aliases_source Gen.const_values_aliases Gen.const_regex_aliases

end ConstHist
