import FmtModel.Assets
import FmtModel.Drv.Fmt
open Py Wire Engine

namespace Drv

def astDispatch (op : String) (a : List Str) : Option String :=
  match op, a with
  | "aserial.parse", [value, fmt, strict] =>
    some (showR (fun n => toString n) (Assets.parseSerial value (readOpt fmt) (strict == "1".toList)))
  | "aserial.format", [n, fmt] =>
    some (showR esc (Assets.formatWith Gen.asset_serial_rows Assets.renderSerial (natOfStr n) fmt))
  | "adatetime.parse", [value, fmt, strict] =>
    some (showR showDT (Assets.parseDatetime value (readOpt fmt) (strict == "1".toList)))
  | "adatetime.format", [t, fmt] =>
    some (showR esc (Assets.formatWith Gen.asset_datetime_rows Assets.renderDatetime (readDT t) fmt))
  | "aserial.regex", [] =>
    some (showR (fun t => String.intercalate "," (t.map fun (k, v) => esc k ++ "=" ++ esc v)) (Assets.regexTable Gen.asset_serial_rows))
  | "adatetime.regex", [] =>
    some (showR (fun t => String.intercalate "," (t.map fun (k, v) => esc k ++ "=" ++ esc v)) (Assets.regexTable Gen.asset_datetime_rows))
  | _, _ => none

end Drv
