import FmtModel.Wire
import FmtModel.Members
import FmtModel.Drv.Fmt
open Py Wire Engine

namespace Drv

/-- `k=v,k=v` with escaped fields -/
def readMap (s : Str) : List (Str × Str) :=
  if s.isEmpty then [] else (splitOn s [',']).map fun item =>
    (unesc (item.takeWhile (· != '=')), unesc ((item.dropWhile (· != '=')).drop 1))

/-- one member: `name:kind` or `name:const:<cname>:<base|~>:<map with ';' between pairs>` -/
def readMember (s : Str) : Option Group.Member :=
  match splitOn s [':'] with
  | [n, k] =>
    let nm := unesc n
    if k == "serial".toList then some (Members.serial nm)
    else if k == "datetime".toList then some (Members.datetime nm)
    else if k == "version".toList then some (Members.version nm)
    else if k == "naming".toList then some (Members.naming nm)
    else if k == "storage".toList then some (Members.storage nm)
    else none
  | [n, _, cname, base, mp] =>
    let m := (if mp.isEmpty then [] else (splitOn mp [';']).map fun item =>
      (unesc (item.takeWhile (· != '=')), unesc ((item.dropWhile (· != '=')).drop 1)))
    some (Members.const (unesc n) m (unesc cname) (readOpt base))
  | _ => none

def readDecl (s : Str) : Group.Decl := (splitOn s ['|']).filterMap readMember

def showG (d : Group.Decl) (g : Group.GObj) : String :=
  String.intercalate ";" (d.map fun m => esc m.name ++ "=" ++
    (match alookup m.name g with | some o => esc (m.cls.string o) | none => "?"))

def grpDispatch (op : String) (a : List Str) : Option String :=
  match op, a with
  | "const.parse", [mp, name, base, value, fmt, strict] =>
    let C := Const.mk (readMap mp) name (readOpt base)
    some (showR (fun o => esc (C.string o)) (Const.parse C value (readOpt fmt) (strict == "1".toList)))
  | "const.parse_format", [mp, name, base, value, fmt, fmt2] =>
    let C := Const.mk (readMap mp) name (readOpt base)
    some (showR esc (do let o ← Const.parse C value (readOpt fmt) false; Engine.format C o fmt2))
  | "const.gen_format", [mp, name, base, fmt] =>
    let C := Const.mk (readMap mp) name (readOpt base)
    some (showR esc (do let t ← regexTable C.rows; genFormat t fmt [] []))
  | "convert_fmt_str", [f] => some (esc (Const.convertFmtStr f))
  | "group.gen_format", [decl, fmt] =>
    some (showR (fun (p : Str × List (Str × Str)) => esc p.1 ++ "|" ++
      String.intercalate "," (p.2.map fun (k, v) => esc k ++ "=" ++ esc v)) (Group.genFormat (readDecl decl) fmt))
  | "group.parse", [decl, value, fmt] =>
    let d := readDecl decl
    some (showR (showG d) (Group.parse d value fmt))
  | "group.parse_format", [decl, value, fmt, fmt2] =>
    let d := readDecl decl
    some (showR esc (do let g ← Group.parse d value fmt; Group.format d g fmt2))
  | "obj.cmp", [kind, v1, f1, v2, f2] =>
    (match readMember ("x:".toList ++ kind) with
     | none => none
     | some m =>
       some (showR (fun (t : (Bool × Bool × Bool) × Bool) =>
           s!"{showBool t.1.1},{showBool t.1.2.1},{showBool t.1.2.2},{showBool t.2}")
         (do let a ← Engine.parse m.cls v1 (readOpt f1) false
             let b ← Engine.parse m.cls v2 (readOpt f2) false
             let c ← Group.cmpMember m a b
             let h ← Group.hashEq m a b
             pure (c, h))))
  | "group.cmp", [decl, v1, f1, v2, f2] =>
    let d := readDecl decl
    some (showR (fun (t : Bool × Bool × Bool) => s!"{showBool t.1},{showBool t.2.1},{showBool t.2.2}")
      (do let a ← Group.parse d v1 f1
          let b ← Group.parse d v2 f2
          let l ← Group.lt d a b
          let e ← Group.eq d a b
          let g ← Group.gt d a b
          pure (l, e, g)))
  | _, _ => none

end Drv
