import FmtModel.Wire
import FmtModel.Members
import FmtModel.Drv.Fmt
import FmtModel.ConstHist
open Py Wire Engine

namespace Drv

/-- `k=v,k=v` with escaped fields -/
def readMap (s : Str) : List (Str × Str) :=
  if s.isEmpty then [] else (splitOn s [',']).map fun item =>
    (unesc (item.takeWhile (· != '=')), unesc ((item.dropWhile (· != '=')).drop 1))

/-- one member: `name:kind` or `name:const:<cname>:<base|~>:<map with ';' between pairs>` -/
def readMember (s : Str) : Option Group.Member :=
  match splitOn s [':'] with
  | [n, k] =>
    let nm := unesc n
    if k == "serial".toList then some (Members.serial nm)
    else if k == "datetime".toList then some (Members.datetime nm)
    else if k == "version".toList then some (Members.version nm)
    else if k == "naming".toList then some (Members.naming nm)
    else if k == "storage".toList then some (Members.storage nm)
    else none
  | [n, _, cname, base, mp] =>
    let m := (if mp.isEmpty then [] else (splitOn mp [';']).map fun item =>
      (unesc (item.takeWhile (· != '=')), unesc ((item.dropWhile (· != '=')).drop 1)))
    some (Members.const (unesc n) m (unesc cname) (readOpt base))
  | _ => none

def readDecl (s : Str) : Group.Decl := (splitOn s ['|']).filterMap readMember

def showG (d : Group.Decl) (g : Group.GObj) : String :=
  String.intercalate ";" (d.map fun m => esc m.name ++ "=" ++
    (match alookup m.name g with | some o => esc (m.cls.string o) | none => "?"))

/-- `k=v;k=v` with escaped fields -/
def readMapSemi (s : Str) : List (Str × Str) :=
  if s.isEmpty then [] else (splitOn s [';']).map fun item =>
    (unesc (item.takeWhile (· != '=')), unesc ((item.dropWhile (· != '=')).drop 1))

/-- one operation of a constant-class history: comma-separated fields, first field the kind -/
def readHistOp (s : Str) : Option ConstHist.Op :=
  match splitOn s [','] with
  | [['N'], m] => some (.newMap (readMapSemi m))
  | [['C'], src, name, base] => some (.create (natOfStr src) (unesc name) (readOpt base))
  | [['V'], c] => some (.handValues (natOfStr c))
  | [['X'], c] => some (.handRegex (natOfStr c))
  | [['S'], h, k, v] => some (.set (natOfStr h) (unesc k) (unesc v))
  | [['D'], h, k] => some (.del (natOfStr h) (unesc k))
  | [['P'], c, text, fmt, strict] => some (.parse (natOfStr c) (unesc text) (unesc fmt) (strict == ['1']))
  | [['R'], c, text, fmt, fmt2] => some (.render (natOfStr c) (unesc text) (unesc fmt) (unesc fmt2))
  | _ => none

def showObs (o : Option (R Str)) : String :=
  match o with
  | none => "none"
  | some r => showR esc r

/-- `make_obj(value).to_const().parse(text, fmt).format(fmt2)` -/
def toConstRun {V} (C : Cls V) (v : V) (text fmt fmt2 : Str) : String :=
  showR esc (do
    let K ← Const.ofInstance C v
    let o ← Const.parse K text (some fmt) false
    Engine.format K o fmt2)

def grpDispatch (op : String) (a : List Str) : Option String :=
  match op, a with
  | "const.parse", [mp, name, base, value, fmt, strict] =>
    let C := Const.mk (readMap mp) name (readOpt base)
    some (showR (fun o => esc (C.string o)) (Const.parse C value (readOpt fmt) (strict == "1".toList)))
  | "const.parse_format", [mp, name, base, value, fmt, fmt2] =>
    let C := Const.mk (readMap mp) name (readOpt base)
    some (showR esc (do let o ← Const.parse C value (readOpt fmt) false; Engine.format C o fmt2))
  | "const.gen_format", [mp, name, base, fmt] =>
    let C := Const.mk (readMap mp) name (readOpt base)
    some (showR esc (do let t ← regexTable C.rows; genFormat t fmt [] []))
  | "toconst", [kind, v, text, fmt, fmt2] =>
    if kind == "serial".toList then some (toConstRun Serial.cls (natOfStr v) text fmt fmt2)
    else if kind == "datetime".toList then some (toConstRun Datetime.cls (readDT v) text fmt fmt2)
    else if kind == "naming".toList then some (toConstRun Naming.cls (readWords v) text fmt fmt2)
    else if kind == "storage".toList then some (toConstRun Storage.cls (readDec v) text fmt fmt2)
    else if kind == "version".toList then some (toConstRun Version.cls (readObj v) text fmt fmt2)
    else none
  | "const.history", [h] =>
    let ops := (if h.isEmpty then [] else splitOn h ['|']).map readHistOp
    if ops.any Option.isNone then some "bad-history"
    else some (String.intercalate "|" ((ConstHist.runReal {} (ops.filterMap id)).2.map showObs))
  | "convert_fmt_str", [f] => some (esc (Const.convertFmtStr f))
  | "group.gen_format", [decl, fmt] =>
    some (showR (fun (p : Str × List (Str × Str)) => esc p.1 ++ "|" ++
      String.intercalate "," (p.2.map fun (k, v) => esc k ++ "=" ++ esc v)) (Group.genFormat (readDecl decl) fmt))
  | "group.parse", [decl, value, fmt] =>
    let d := readDecl decl
    some (showR (showG d) (Group.parse d value fmt))
  | "group.parse_format", [decl, value, fmt, fmt2] =>
    let d := readDecl decl
    some (showR esc (do let g ← Group.parse d value fmt; Group.format d g fmt2))
  | "obj.cmp", [kind, v1, f1, v2, f2] =>
    (match readMember ("x:".toList ++ kind) with
     | none => none
     | some m =>
       some (showR (fun (t : (Bool × Bool × Bool) × Bool) =>
           s!"{showBool t.1.1},{showBool t.1.2.1},{showBool t.1.2.2},{showBool t.2}")
         (do let a ← Engine.parse m.cls v1 (readOpt f1) false
             let b ← Engine.parse m.cls v2 (readOpt f2) false
             let c ← Group.cmpMember m a b
             let h ← Group.hashEq m a b
             pure (c, h))))
  | "group.cmp", [decl, v1, f1, v2, f2] =>
    let d := readDecl decl
    some (showR (fun (t : Bool × Bool × Bool) => s!"{showBool t.1},{showBool t.2.1},{showBool t.2.2}")
      (do let a ← Group.parse d v1 f1
          let b ← Group.parse d v2 f2
          let l ← Group.lt d a b
          let e ← Group.eq d a b
          let g ← Group.gt d a b
          pure (l, e, g)))
  | _, _ => none

end Drv
