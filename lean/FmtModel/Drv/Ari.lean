import FmtModel.Arith
import FmtModel.Esc
import FmtModel.Drv.Grp
open Py Wire Engine

namespace Drv

def readIntS (s : Str) : Int :=
  match s with
  | '-' :: r => -((natOfStr r : Nat) : Int)
  | _ => ((natOfStr s : Nat) : Int)

def showValNat (o : R Obj) : String :=
  showR (fun n => toString n) (do let x ← o; Serial.value x)

def hexBytes : Str → List Nat
  | a :: b :: r => (hexVal a * 16 + hexVal b) :: hexBytes r
  | _ => []

def ariDispatch (op : String) (a : List Str) : Option String :=
  match op, a with
  | "re_escape", [t] => some (esc (Esc.reEscape t))
  | "unescape", [t] => some (esc (Esc.unescape t))
  | "escape_fmt_group", [t] => some (match Esc.escapeFmtGroup t with | some r => esc r | none => "err:re.error")
  | "utf8_decode", [h] => some (showR esc (Esc.decode (hexBytes h)))
  | "utf8_encode", [t] => some (String.intercalate " " ((Esc.encode t).map toString))
  | "arith.serial.int", [v1, f1, o, n] =>
    let A := Engine.parse Serial.cls v1 (readOpt f1) false
    let k := readIntS n
    if o == "add".toList || o == "radd".toList then some (showValNat (do Arith.serialAddInt (← A) k))
    else if o == "sub".toList then some (showValNat (do Arith.serialSubInt (← A) k))
    else if o == "rsub".toList then some (showR (fun (i : Int) => String.ofList (showInt i)) (do Arith.serialRsub k (← A)))
    else none
  | "arith.serial.obj", [v1, f1, o, v2, f2] =>
    let A := Engine.parse Serial.cls v1 (readOpt f1) false
    let B := Engine.parse Serial.cls v2 (readOpt f2) false
    if o == "add".toList then some (showValNat (do Arith.serialAddObj (← A) (← B)))
    else if o == "sub".toList then some (showValNat (do Arith.serialSubObj (← A) (← B)))
    else none
  | "arith.datetime.delta", [v1, f1, o, us] =>
    let d := readIntS us
    some (showR showDT (do
      let A ← Engine.parse Datetime.cls v1 (readOpt f1) false
      let r ← Arith.datetimeAddUs A (if o == "sub".toList then -d else d)
      Datetime.value r))
  | "arith.datetime.obj", [v1, f1, v2, f2] =>
    some (showR (fun (i : Int) => String.ofList (showInt i)) (do
      let A ← Engine.parse Datetime.cls v1 (readOpt f1) false
      let B ← Engine.parse Datetime.cls v2 (readOpt f2) false
      Arith.datetimeSubObj A B))
  | "arith.version", [v1, f1, x, y, z] =>
    some (showR (fun (v : Ver.Obj) => s!"{v.major}.{v.minor}.{v.patch}") (do
      let A ← Engine.parse Version.cls v1 (readOpt f1) false
      let r ← Arith.versionAdd A (readIntS x) (readIntS y) (readIntS z)
      Version.value r))
  | "arith.naming", [v1, f1, v2, f2] =>
    some (showR showWords (do
      let A ← Engine.parse Naming.cls v1 (readOpt f1) false
      let B ← Engine.parse Naming.cls v2 (readOpt f2) false
      let r ← Arith.namingAdd A B
      Naming.value r))
  | _, _ => none

end Drv
