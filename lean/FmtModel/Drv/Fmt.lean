import FmtModel.Wire
import FmtModel.Classes.Serial
import FmtModel.Classes.Datetime
open Py Wire Engine

namespace Drv

def showAV : AV → String
  | .none => "~"
  | .str s => "=" ++ esc s
  | .strs l => "[" ++ String.intercalate "," (l.map esc) ++ "]"
  | .dec c e => s!"D{c}e{e}"

def showFObj (o : Engine.Obj) : String :=
  String.intercalate ";" (o.attrs.map fun (k, v) => esc k ++ showAV v) ++ "|" ++
    String.ofList (o.level.map fun b => if b then '1' else '0')

def optFmt (s : Str) : Option Str := readOpt s

/-- generic operations of one formatter class: parse → (string, value text, re-format) -/
def clsOps {Val} (C : Cls Val) (showVal : Val → String) (op : String) (a : List Str) : Option String :=
  match op, a with
  | "parse", [value, fmt, strict] =>
    some (match Engine.parse C value (optFmt fmt) (strict == "1".toList) with
      | .error e => "err:" ++ e.name
      | .ok o =>
        match C.value o with
        | .error e => "valerr:" ++ e.name
        | .ok v => "ok:" ++ esc (C.string o) ++ "|" ++ showVal v)
  | "parse_format", [value, fmt, strict, fmt2] =>
    some (showR esc (do let o ← Engine.parse C value (optFmt fmt) (strict == "1".toList); Engine.format C o fmt2))
  | "gen_format", [fmt, pre, suf] =>
    some (showR esc (do let t ← regexTable C.rows; genFormat t fmt pre suf))
  | "regex", [] =>
    some (showR (fun t => String.intercalate "," (t.map fun (k, v) => esc k ++ "=" ++ esc v)) (regexTable C.rows))
  | _, _ => none

def showNatS (n : Nat) : String := toString n

def showDT (t : Cal.DT) : String :=
  String.ofList (Cal.pad 4 t.year ++ ['-'] ++ Cal.pad 2 t.month ++ ['-'] ++ Cal.pad 2 t.day ++ [' '] ++ Cal.pad 2 t.hour
    ++ [':'] ++ Cal.pad 2 t.minute ++ [':'] ++ Cal.pad 2 t.second ++ ['.'] ++ Cal.pad 6 t.micro)

def readDT (s : Str) : Cal.DT :=
  match (splitOn s [',']).map natOfStr with
  | [y, m, d, h, mi, sec, us] => { year := y, month := m, day := d, hour := h, minute := mi, second := sec, micro := us }
  | _ => default

def fmtDispatch (op : String) (a : List Str) : Option String :=
  match op.splitOn ".", a with
  | ["datetime", sub], _ =>
    (match sub, a with
     | "format", [t, fmt] =>
       some (showR esc (do let o ← Engine.fromValue Datetime.cls (readDT t); Engine.format Datetime.cls o fmt))
     | "from_value", [t] =>
       some (showR (fun o => esc (Datetime.string o)) (Engine.fromValue Datetime.cls (readDT t)))
     | "strftime", [t, fmt] => some (esc (Cal.strftime fmt (readDT t)))
     | _, _ => clsOps Datetime.cls showDT sub a)
  | ["serial", sub], _ =>
    (match sub, a with
     | "format", [n, fmt] =>
       some (showR esc (do let o ← Engine.fromValue Serial.cls (natOfStr n); Engine.format Serial.cls o fmt))
     | "from_value", [n] =>
       some (showR (fun o => esc (Serial.string o)) (Engine.fromValue Serial.cls (natOfStr n)))
     | _, _ => clsOps Serial.cls showNatS sub a)
  | _, _ => none

end Drv
