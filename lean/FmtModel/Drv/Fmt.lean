import FmtModel.Wire
import FmtModel.Classes.Serial
import FmtModel.Classes.Datetime
import FmtModel.Classes.Naming
import FmtModel.Classes.Version
import FmtModel.Classes.Storage
open Py Wire Engine

namespace Drv

def showAV : AV → String
  | .none => "~"
  | .str s => "=" ++ esc s
  | .strs l => "[" ++ String.intercalate "," (l.map esc) ++ "]"
  | .dec n c e => s!"D{n}:{c}e{e}"

def showFObj (o : Engine.Obj) : String :=
  String.intercalate ";" (o.attrs.map fun (k, v) => esc k ++ showAV v) ++ "|" ++
    String.ofList (o.level.map fun b => if b then '1' else '0')

def optFmt (s : Str) : Option Str := readOpt s

/-- generic operations of one formatter class: parse → (string, value text, re-format) -/
def clsOps {Val} (C : Cls Val) (showVal : Val → String) (op : String) (a : List Str) : Option String :=
  match op, a with
  | "parse", [value, fmt, strict] =>
    some (match Engine.parse C value (optFmt fmt) (strict == "1".toList) with
      | .error e => "err:" ++ e.name
      | .ok o =>
        match C.value o with
        | .error e => "valerr:" ++ e.name
        | .ok v => "ok:" ++ esc (C.string o) ++ "|" ++ showVal v)
  | "parse_format", [value, fmt, strict, fmt2] =>
    some (showR esc (do let o ← Engine.parse C value (optFmt fmt) (strict == "1".toList); Engine.format C o fmt2))
  | "gen_format", [fmt, pre, suf] =>
    some (showR esc (do let t ← regexTable C.rows; genFormat t fmt pre suf))
  | "regex", [] =>
    some (showR (fun t => String.intercalate "," (t.map fun (k, v) => esc k ++ "=" ++ esc v)) (regexTable C.rows))
  | _, _ => none

def showNatS (n : Nat) : String := toString n

def showDT (t : Cal.DT) : String :=
  String.ofList (Cal.pad 4 t.year ++ ['-'] ++ Cal.pad 2 t.month ++ ['-'] ++ Cal.pad 2 t.day ++ [' '] ++ Cal.pad 2 t.hour
    ++ [':'] ++ Cal.pad 2 t.minute ++ [':'] ++ Cal.pad 2 t.second ++ ['.'] ++ Cal.pad 6 t.micro)

def readDT (s : Str) : Cal.DT :=
  match (splitOn s [',']).map natOfStr with
  | [y, m, d, h, mi, sec, us] => { year := y, month := m, day := d, hour := h, minute := mi, second := sec, micro := us }
  | _ => default

def readWords (s : Str) : List Str := if s.isEmpty then [] else (splitOn s [',']).map unesc
def showWords (l : List Str) : String := String.intercalate "," (l.map esc)

def showDec (d : Dec.D) : String := s!"D{if d.neg then "-" else ""}{d.coeff}e{d.exp}"
def readDec (s : Str) : Dec.D := (Dec.ofStr s).getD { coeff := 0, exp := 0 }

def fmtDispatch (op : String) (a : List Str) : Option String :=
  match op.splitOn ".", a with
  | ["storage", sub], _ =>
    (match sub, a with
     | "format", [v, fmt] =>
       some (showR esc (do let o ← Engine.fromValue Storage.cls (readDec v); Engine.format Storage.cls o fmt))
     | "from_value", [v] =>
       some (showR (fun o => esc (Storage.string o)) (Engine.fromValue Storage.cls (readDec v)))
     | "render", [v, key] => some (showR esc (Storage.render key (readDec v)))
     | "dec", [s] => some (match Dec.ofStr s with | some d => showDec d ++ " " ++ esc (Dec.toStr d) | none => "invalid")
     | "decdiv", [x, y] => some (match Dec.div (readDec x) (readDec y) with | some d => showDec d | none => "invalid")
     | "decmul", [x, y] => some (showDec (Dec.mul (readDec x) (readDec y)))
     | "decq0", [x] => some (match Dec.quantize0 (readDec x) with | some d => showDec d | none => "invalid")
     | _, _ => clsOps Storage.cls showDec sub a)
  | ["version", sub], _ =>
    (match sub, a with
     | "format", [v, fmt] =>
       some (showR esc (do let o ← Engine.fromValue Version.cls (readObj v); Engine.format Version.cls o fmt))
     | "from_value", [v] =>
       some (showR (fun o => esc (Version.string o)) (Engine.fromValue Version.cls (readObj v)))
     | "render", [v, key] => some (showR esc (Version.render key (readObj v)))
     | _, _ => clsOps Version.cls showObj sub a)
  | ["naming", sub], _ =>
    (match sub, a with
     | "format", [ws, fmt] =>
       some (showR esc (do let o ← Engine.fromValue Naming.cls (readWords ws); Engine.format Naming.cls o fmt))
     | "from_value", [ws] =>
       some (showR (fun o => esc (Naming.string o)) (Engine.fromValue Naming.cls (readWords ws)))
     | "render", [ws, key] => some (showR esc (Naming.render key (readWords ws)))
     | _, _ => clsOps Naming.cls showWords sub a)
  | ["datetime", sub], _ =>
    (match sub, a with
     | "format", [t, fmt] =>
       some (showR esc (do let o ← Engine.fromValue Datetime.cls (readDT t); Engine.format Datetime.cls o fmt))
     | "from_value", [t] =>
       some (showR (fun o => esc (Datetime.string o)) (Engine.fromValue Datetime.cls (readDT t)))
     | "strftime", [t, fmt] => some (esc (Cal.strftime fmt (readDT t)))
     | _, _ => clsOps Datetime.cls showDT sub a)
  | ["serial", sub], _ =>
    (match sub, a with
     | "format", [n, fmt] =>
       some (showR esc (do let o ← Engine.fromValue Serial.cls (natOfStr n); Engine.format Serial.cls o fmt))
     | "from_value", [n] =>
       some (showR (fun o => esc (Serial.string o)) (Engine.fromValue Serial.cls (natOfStr n)))
     | _, _ => clsOps Serial.cls showNatS sub a)
  | _, _ => none

end Drv
