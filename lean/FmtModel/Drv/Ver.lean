import FmtModel.Wire
open Py Wire

namespace Drv

def readOther (kind payload : Str) : Ver.Other :=
  if kind == "obj".toList then .obj (readObj payload)
  else if kind == "str".toList then .str payload
  else if kind == "tuple".toList then .tuple (readArgs payload)
  else if kind == "dict".toList then .dict (readKw payload)
  else .bad

def readOp (s : Str) : Ver.Op :=
  if s == "eq".toList then .eq else if s == "ne".toList then .ne else if s == "lt".toList then .lt
  else if s == "le".toList then .le else if s == "gt".toList then .gt else .ge

def readToken (s : Str) : Option Str := readOpt s

def showPair (p : Str × Int) : String := esc p.1 ++ "," ++ showIntS p.2

def verDispatch (op : String) (a : List Str) : Option String :=
  match op, a with
  | "ver_parse", [c, s, opt] => some (showR showObj (Ver.parse (readCls c) s (opt == "1".toList)))
  | "ver_new", [c, args] => some (showR showObj (Ver.construct (readCls c) (readArgs args)))
  | "ver_newkw", [c, kw] => some (showR showObj (Ver.constructKw (readCls c) (readKw kw)))
  | "ver_compare", [o, kind, payload] =>
    some (showR showIntS (Ver.vcompare (readObj o) (readOther kind payload)))
  | "ver_op", [opn, o, kind, payload] =>
    some (showR showBool (Ver.richCmp (readOp opn) (readObj o) (readOther kind payload)))
  | "ver_hasheq", [x, y] =>
    some (match Ver.hashRepr (readObj x), Ver.hashRepr (readObj y) with
      | .ok hx, .ok hy => "ok:" ++ showBool (pvEq hx hy)
      | .error e, _ => "err:" ++ e.name
      | _, .error e => "err:" ++ e.name)
  | "ver_str", [o] => some (esc (readObj o).str)
  | "ver_next", [o, part] => some (showR showObj (Ver.nextVersion (readObj o) part))
  | "ver_bump", [o, which, token] =>
    let x := readObj o
    let w := String.ofList which
    some (match w with
      | "major" => "ok:" ++ showObj (Ver.bumpMajor x)
      | "minor" => "ok:" ++ showObj (Ver.bumpMinor x)
      | "patch" => "ok:" ++ showObj (Ver.bumpPatch x)
      | "epoch" => "ok:" ++ showObj (Ver.bumpEpoch x)
      | "pre" => "ok:" ++ showObj (Ver.bumpPre x (readToken token))
      | "post" => "ok:" ++ showObj (Ver.bumpPost x)
      | "dev" => "ok:" ++ showObj (Ver.bumpDev x)
      | "local" => "ok:" ++ showObj (Ver.bumpLocal x)
      | "build" => "ok:" ++ showObj (Ver.bumpBuild x (readToken token))
      | _ => "bad-op")
  | "ver_replace", [o, kw] => some (showR showObj (Ver.replace (readObj o) (readKw kw)))
  | "ver_match", [o, expr] => some (showR showBool (Ver.matchExpr (readObj o) expr))
  | "ver_wild", [c, expr] =>
    some (showR (fun (p : Ver.Obj × Option Ver.Obj) =>
      showObj p.1 ++ "|" ++ (match p.2 with | some h => showObj h | none => "Inf"))
      (Ver.extractWildcard (readCls c) expr))
  | "ver_setattr", [o, name] => some (showR showObj (Ver.setattr (readObj o) name).1)
  | "increment", [s] => some (esc (Ver.increment s))
  | "extract_letter", [s] => some (showR showPair (Ver.extractLetter s))
  | "necessary_release", [x, y, z] =>
    some (String.intercalate "," ((Ver.necessaryRelease [natOfStr x, natOfStr y, natOfStr z]).map toString))
  | _, _ => none

end Drv
