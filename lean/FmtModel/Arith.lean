import FmtModel.Members
/-
  FmtModel.Arith — arithmetic on formatter objects (C16): `Formatter.__add__/__radd__/__sub__/__rsub__`
  go through `from_value(self.value ∘ other)`; `Datetime` accepts timedeltas and other Datetimes;
  `Version.__add__` adds a triple; `Naming`, `Storage`, `Constant` restrict the operators.
  A `FormatterValueError` inside `from_value` becomes `NotImplemented`, which Python turns into
  `TypeError` (model: `.pyType`).
-/
namespace Arith
open Py Engine

def notImpl {α} (r : R α) : R α :=
  match r with
  | .error .fmtValue => .error .pyType
  | x => x

-- Serial -----------------------------------------------------------------------------------------------

/-- `Serial.from_value(i)` for an `int` (negative: FormatterValueError) -/
def serialOfInt (i : Int) : R Obj := if i < 0 then .error .fmtValue else fromValue Serial.cls i.toNat

/-- `a + n`, `n + a` -/
def serialAddInt (a : Obj) (n : Int) : R Obj := do
  let v ← Serial.value a
  notImpl (serialOfInt ((v : Int) + n))

/-- `a + b` -/
def serialAddObj (a b : Obj) : R Obj := do
  let v ← Serial.value a
  let w ← Serial.value b
  serialOfInt ((v : Int) + w)

/-- `a - n` -/
def serialSubInt (a : Obj) (n : Int) : R Obj := do
  let v ← Serial.value a
  notImpl (serialOfInt ((v : Int) - n))

/-- `a - b` -/
def serialSubObj (a b : Obj) : R Obj := do
  let v ← Serial.value a
  let w ← Serial.value b
  notImpl (serialOfInt ((v : Int) - w))

/-- `n - a`: a plain number -/
def serialRsub (n : Int) (a : Obj) : R Int := do
  let v ← Serial.value a
  pure (n - v)

-- Datetime ---------------------------------------------------------------------------------------------

def usPerDay : Int := 86400 * 1000000

/-- microseconds since 0001-01-01 00:00:00 minus one day (ordinal 1 is day 1) -/
def dtToUs (t : Cal.DT) : Int :=
  ((Cal.toOrdinal t.year t.month t.day : Nat) : Int) * usPerDay
    + (((t.hour * 3600 + t.minute * 60 + t.second : Nat) : Int) * 1000000 + (t.micro : Nat))

/-- the inverse, `OverflowError` outside 0001-01-01 … 9999-12-31 -/
def dtOfUs (us : Int) : R Cal.DT :=
  let ord := us / usPerDay          -- floor division (`Int./` rounds toward −∞ for a positive divisor)
  let rest := (us % usPerDay).toNat
  if ord < 1 || ord > 3652059 then .error .pyOverflow
  else
    let (y, m, d) := Cal.ofOrdinal ord.toNat
    let secs := rest / 1000000
    .ok { year := y, month := m, day := d, hour := secs / 3600, minute := secs % 3600 / 60, second := secs % 60,
          micro := rest % 1000000 }

/-- `a + timedelta`, `timedelta + a`, `a - timedelta` (delta in microseconds, sign applied by the caller) -/
def datetimeAddUs (a : Obj) (dUs : Int) : R Obj := do
  let t ← Datetime.value a
  let r ← dtOfUs (dtToUs t + dUs)
  fromValue Datetime.cls r

/-- `a - b`: a timedelta, in microseconds -/
def datetimeSubObj (a b : Obj) : R Int := do
  let t ← Datetime.value a
  let u ← Datetime.value b
  pure (dtToUs t - dtToUs u)

-- Version ----------------------------------------------------------------------------------------------

/-- `a + (x, y, z)`: the parts whose addend is a positive int are replaced by the sum -/
def versionAdd (a : Obj) (x y z : Int) : R Obj := do
  let v ← Version.value a
  let w : Ver.Obj := { v with major := if x > 0 then v.major + x.toNat else v.major,
                               minor := if y > 0 then v.minor + y.toNat else v.minor,
                               patch := if z > 0 then v.patch + z.toNat else v.patch }
  fromValue Version.cls w

-- Naming -----------------------------------------------------------------------------------------------

/-- `a + b`: the concatenated word lists -/
def namingAdd (a b : Obj) : R Obj := do
  let v ← Naming.value a
  let w ← Naming.value b
  fromValue Naming.cls (v ++ w)

end Arith
