/- GENERATED: all regenerated tables. -/
import FmtModel.Generated.Assets
import FmtModel.Generated.Esc
import FmtModel.Generated.Fmt
import FmtModel.Generated.State
import FmtModel.Generated.Ver
