import FmtModel.Engine
import FmtModel.Generated.Assets
import FmtModel.Classes.Serial
/-
  FmtModel.Const — `dict2const` / `make_const` / `Constant`, and `convert_fmt_str` of utils.py.
  A constant class is determined by its (frozen) mapping directive ↦ text, its name and base format.
-/
namespace Const
open Py Engine

def natoNames : List (Char × String) :=
  [('A', "alpha"), ('B', "bravo"), ('C', "charlie"), ('D', "delta"), ('E', "echo"), ('F', "foxtrot"), ('G', "golf"),
   ('H', "hotel"), ('I', "india"), ('J', "juliet"), ('K', "kilo"), ('L', "lima"), ('M', "mike"), ('N', "november"),
   ('O', "oscar"), ('P', "papa"), ('Q', "quebec"), ('R', "romeo"), ('S', "sierra"), ('T', "tango"), ('U', "uniform"),
   ('V', "victor"), ('W', "whiskey"), ('X', "xray"), ('Y', "yankee"), ('Z', "zulu")]

def prefixName (c : Char) : Option String :=
  if c == '-' then some "minus" else if c == '+' then some "plus" else if c == '!' then some "exclamation"
  else if c == '*' then some "asterisk" else none

def letterName (c : Char) : Option Str :=
  if isAsciiUpper c then (natoNames.find? (·.1 == c)).map fun p => p.2.toList ++ "upper".toList
  else if isAsciiLower c then (natoNames.find? (·.1 == upperC c)).map fun p => p.2.toList
  else none

/-- `convert_fmt_str(fmt)` -/
def convertFmtStr (f : Str) : Str :=
  match f with
  | ['%', c] => (letterName c).getD f
  | ['%', p, c] =>
    (match prefixName p, letterName c with
     | some pn, some ln => ln ++ pn.toList
     | _, _ => f)
  | _ => f

/-- `escape_const`: a backslash in front of every regex special character of the text -/
def escapeConst (v : Str) : Str := v.flatMap fun c => if Gen.const_escape_chars.contains c then ['\\', c] else [c]

/-- the rows of `CustomConstant.formatter()` -/
def rows (m : List (Str × Str)) : List DirRow :=
  m.map fun (k, v) => (k, false, "(?P<".toList ++ convertFmtStr k ++ ['>'] ++ escapeConst v ++ [')'])

def concatKeys (m : List (Str × Str)) : Str := m.foldr (fun p acc => p.1 ++ acc) []

/-- `dict2const(fmt, name, base_fmt=…)` as an engine class; the value is the list of parsed texts -/
def mk (m : List (Str × Str)) (name : Str) (baseFmt : Option Str) : Cls (List Str) where
  name := name
  rows := rows m
  priorities := m.map fun (k, _) => (convertFmtStr k, [1])
  baseFmt := match baseFmt with | some b => if b.isEmpty then concatKeys m else b | none => concatKeys m
  baseLevel := 1
  slots := lower name :: "_constant".toList :: m.map fun (k, _) => convertFmtStr k
  conv := fun _ o x => .ok (.str x, o)
  dflt := fun _ _ => .error .pyKey
  truthy := Serial.truthy
  differs := Serial.differs
  validate := fun o => .ok o
  string := fun o => join ['|'] (o.attrs.filterMap fun (_, v) => match v with | .str s => if s.isEmpty then none else some s | _ => none)
  value := fun o => .ok (o.attrs.filterMap fun (_, v) => match v with | .str s => if s.isEmpty then none else some s | _ => none)
  render := fun key _ => match alookup key m with | some v => .ok v | none => .error .pyKey

/-- `instance.to_const()` = `dict2const(self.values(), name=<Class>Const, base_fmt=self.base_fmt)`: the mapping is
    directive ↦ rendering of the instance's value -/
def ofInstance {V} (C : Cls V) (v : V) : R (Cls (List Str)) := do
  let m ← C.rows.mapM fun r => (C.render r.1 v).map fun t => (r.1, t)
  pure (mk m (C.name ++ "Const".toList) (some C.baseFmt))

/-- `Constant.parse(value, fmt)`: a format is mandatory -/
def parse (C : Cls (List Str)) (value : Str) (fmt : Option Str) (strict : Bool) : R Obj :=
  match fmt with
  | none => .error .pyNotImpl
  | some f => Engine.parse C value (some f) strict

end Const
