import FmtModel.Engine
import FmtModel.Generated.Assets
import FmtModel.Classes.Serial
import FmtModel.Classes.Datetime
/-
  FmtModel.Assets — the asset-defined engine of `fmtutil/__assets.py` and its Serial / Datetime.
  The asset engine repeats the classic tokenisers; its tables come from `Gen.asset_*`.
-/
namespace Assets
open Py Engine

abbrev ARow := Str × Str × Bool × Str      -- key, alias, cregex?, text

/-- `cls.regex()`: a plain entry is wrapped into its alias group -/
def regexTable (rows : List ARow) : R (List (Str × Str)) :=
  Engine.regexTable (rows.map fun (k, al, isC, t) =>
    (k, isC, if isC then t else "(?P<".toList ++ al ++ ['>'] ++ t ++ [')']))

/-- `__init_parsing__`: first statement of an attribute wins; in strict mode later ones must agree -/
def initParsing (rows : List ARow) (conv : Str → Str → R Str) (parsing : List (Str × Option Str)) (strict : Bool) :
    R (List (Str × Str)) :=
  (rows.filter fun r => !r.2.2.1).foldlM (fun (rs : List (Str × Str)) (r : ARow) =>
    let name := r.2.1
    let attr := splitFirst name ['_']
    match alookup attr rs with
    | some getter =>
      if !getter.isEmpty then
        if !strict then pure rs
        else
          match alookup name parsing with
          | some (some text) => do
            let p ← conv name text
            if getter != p then .error .fmtValue else pure rs
          | some none => .error .pyType
          | none => pure rs
      else
        match alookup name parsing with
        | some (some text) => (conv name text).map fun p => ainsert attr p rs
        | some none => .error .pyType
        | none => pure rs
    | none =>
      match alookup name parsing with
      | some (some text) => (conv name text).map fun p => ainsert attr p rs
      | some none => .error .pyType
      | none => pure rs) []

/-- shared `parse`: returns the keyword arguments handed to the class constructor -/
def parseKw (rows : List ARow) (conv : Str → Str → R Str) (dfltFmt : Str) (value : Str) (fmt : Option Str)
    (strict : Bool) : R (List (Str × Str)) := do
  let f := match fmt with | some f => if f.isEmpty then dfltFmt else f | none => dfltFmt
  let table ← regexTable rows
  let g ← genFormat table f [] []
  let r ← compileRe (Gen.asset_anchor_pre ++ g ++ Gen.asset_anchor_post)
  match search r value with
  | none => .error .fmtValue
  | some (_, _, caps) => do
    let formats ← validateFormat (groupdict r caps)
    initParsing rows conv formats strict

-- Serial -------------------------------------------------------------------------------------------

def serialConv (name x : Str) : R Str :=
  if name == "number".toList then .ok x
  else if name == "number_pad".toList then .ok (Serial.removePad x)
  else if name == "number_binary".toList then (pyInt2 x).map showInt
  else if name == "number_comma".toList then .ok (replaceAll x [','] [])
  else if name == "number_underscore".toList then .ok (replaceAll x ['_'] [])
  else .error .pyKey

/-- `Serial.prepare_value(text)`: `can_int` then `int` -/
def serialPrepare (s : Str) : R Nat :=
  match pyIntBase 10 s with
  | some i => if i < 0 then .error .fmtValue else .ok i.toNat
  | none => .error .fmtValue

def parseSerial (value : Str) (fmt : Option Str) (strict : Bool) : R Nat :=
  wrapValueErrors (do
    let kw ← parseKw Gen.asset_serial_rows serialConv Gen.asset_serial_default_fmt value fmt strict
    match alookup "number".toList kw with
    | some s => serialPrepare s
    | none => pure 0)

def renderSerial (key : Str) (n : Nat) : R Str :=
  if (Gen.asset_serial_rows.any fun r => r.1 == key) then
    Serial.render Gen.asset_serial_max_padding Gen.asset_serial_max_binary key n
  else .error .pyKey

-- Datetime -----------------------------------------------------------------------------------------

def intOr (kw : List (Str × Str)) (k : String) (d : Nat) : R Nat :=
  match alookup k.toList kw with
  | some s => if s.isEmpty then pure d else
      (match pyIntBase 10 s with
       | some i => if i < 0 then .error .pyValue else pure i.toNat
       | none => .error .pyValue)
  | none => pure d

def parseDatetime (value : Str) (fmt : Option Str) (strict : Bool) : R Cal.DT :=
  wrapValueErrors (do
    let kw ← parseKw Gen.asset_datetime_rows (fun _ x => .ok x) Gen.asset_datetime_default_fmt value fmt strict
    let y ← intOr kw "year" Gen.asset_datetime_default_year
    let m ← intOr kw "month" 1
    let d ← intOr kw "day" 1
    let h ← intOr kw "hour" 0
    let mi ← intOr kw "minute" 0
    let s ← intOr kw "second" 0
    if Cal.validDate y m d && h ≤ 23 && mi ≤ 59 && s ≤ 59 then
      pure { year := y, month := m, day := d, hour := h, minute := mi, second := s }
    else .error .pyValue)

def datetimeFmtOf (key : Str) : Option Str :=
  if key == "%n".toList then some "%Y%m%d_%H%M%S".toList
  else if (Gen.asset_datetime_rows.any fun r => r.1 == key) then some key else none

def renderDatetime (key : Str) (t : Cal.DT) : R Str :=
  match datetimeFmtOf key with
  | some f => .ok (Cal.strftime f t)
  | none => .error .pyKey

/-- `format` of the asset engine: the same single left-to-right pass as the classic engine -/
def formatWith {V} (rows : List ARow) (render : Str → V → R Str) (v : V) (fmt : Str) : R Str := do
  let r ← reOrErr Gen.asset_format_token_re
  let (out, _) ← subFold r fmt (fun (_ : Unit) (tok : Str) =>
      if tok == ['%', '%'] then pure (Gen.format_percent, ())
      else if rows.any fun r => r.1 == tok then (render tok v).map fun text => (text, ())
      else .error .fmtKey) ()
  pure out

end Assets
