import FmtModel.Py.Cmp
/-
  FmtModel.Lemmas.OrderKey — Python's tuple comparison (`Py.Cmp`) on encodings of structured keys
  coincides with the lexicographic `compare` of the key type, which Lean's core library proves to
  be a lawful linear preorder (`Std.TransOrd`).  Every order law of C04/C07/C10/C13/C14 is a
  corollary of the `Faith*` lemmas below.
-/
namespace Py
open Std

def ordInt : Ordering → Int
  | .lt => -1
  | .eq => 0
  | .gt => 1

/-- element-level faithfulness: equality always, `<`/`>` whenever the elements differ
    (Python's tuple comparison only applies `<`/`>` to the first differing pair) -/
structure FaithE {κ : Type} [Ord κ] (e : κ → PV) : Prop where
  eq : ∀ a b, pvEq (e a) (e b) = (compare a b == .eq)
  lt : ∀ a b, compare a b ≠ .eq → pvLt (e a) (e b) = some (compare a b == .lt)
  gt : ∀ a b, compare a b ≠ .eq → pvGt (e a) (e b) = some (compare a b == .gt)

/-- sequence-level faithfulness (tuple bodies): total -/
structure FaithS {κ : Type} [Ord κ] (e : κ → PVs) : Prop where
  eq : ∀ a b, pvsEq (e a) (e b) = (compare a b == .eq)
  lt : ∀ a b, pvsLt (e a) (e b) = some (compare a b == .lt)
  gt : ∀ a b, pvsGt (e a) (e b) = some (compare a b == .gt)

theorem faithE_int : FaithE (fun i : Int => PV.int i) where
  eq a b := by
    simp only [pvEq, Int.compare_eq_ite_lt]
    by_cases h : a = b
    · subst h; simp
    · by_cases h2 : a < b
      · simp [h2]; omega
      · have : b < a := by omega
        simp [h2, this]; omega
  lt a b _ := by
    simp only [pvLt, Int.compare_eq_ite_lt]
    by_cases h2 : a < b
    · simp [h2]
    · by_cases h3 : b < a <;> simp [h2, h3]
  gt a b _ := by
    simp only [pvGt, Int.compare_eq_ite_lt]
    by_cases h2 : a < b
    · have : ¬ (a > b) := by omega
      simp [h2, this]
    · by_cases h3 : b < a
      · have : a > b := h3
        simp [h2, h3, this]
      · have : ¬ (a > b) := by omega
        simp [h2, h3, this]

theorem faithE_nat : FaithE (fun n : Nat => PV.int (n : Int)) where
  eq a b := by
    simp only [pvEq, Nat.compare_eq_ite_lt]
    by_cases h : a = b
    · subst h; simp
    · by_cases h2 : a < b
      · simp [h2]; omega
      · have : b < a := by omega
        simp [h2, this]; omega
  lt a b _ := by
    simp only [pvLt, Nat.compare_eq_ite_lt]
    by_cases h2 : a < b
    · have : (a : Int) < (b : Int) := by omega
      simp [h2, this]
    · have : ¬ ((a : Int) < (b : Int)) := by omega
      by_cases h3 : b < a <;> simp [h2, h3, this]
  gt a b _ := by
    simp only [pvGt, Nat.compare_eq_ite_lt]
    by_cases h2 : a < b
    · have : ¬ ((a : Int) > (b : Int)) := by omega
      simp [h2, this]
    · by_cases h3 : b < a
      · have : (a : Int) > (b : Int) := by omega
        simp [h2, h3, this]
      · have : ¬ ((a : Int) > (b : Int)) := by omega
        simp [h2, h3, this]

theorem faithE_str : FaithE (fun s : Str => PV.str s) where
  eq a b := by
    simp only [pvEq]
    by_cases h : a = b
    · subst h; simp [ReflCmp.compare_self]
    · have h0 : compare a b ≠ .eq := fun hc => h (LawfulEqOrd.eq_of_compare hc)
      have h1 : (a == b) = false := beq_eq_false_iff_ne.mpr h
      have h2 : (compare a b == Ordering.eq) = false := by
        cases hc : compare a b <;> first | rfl | exact absurd hc h0
      rw [h1, h2]
  lt a b _ := by simp [pvLt, strLt]
  gt a b _ := by
    simp only [pvGt, strLt]
    rw [OrientedOrd.eq_swap (a := b) (b := a)]
    cases compare a b <;> simp [Ordering.swap]

theorem faithS_single {κ : Type} [Ord κ] {e : κ → PV} (he : FaithE e) :
    FaithS (fun a => PVs.cons (e a) .nil) where
  eq a b := by simp [pvsEq, he.eq]
  lt a b := by
    simp only [pvsLt, he.eq]
    by_cases h : compare a b = .eq
    · simp [h]
    · simp [h, he.lt a b h]
  gt a b := by
    simp only [pvsGt, he.eq]
    by_cases h : compare a b = .eq
    · simp [h]
    · simp [h, he.gt a b h]

theorem compare_prod {α β : Type} [Ord α] [Ord β] (p q : α × β) :
    compare p q = (compare p.1 q.1).then (compare p.2 q.2) := rfl

theorem faithS_cons {α β : Type} [Ord α] [Ord β] {e : α → PV} {es : β → PVs}
    (he : FaithE e) (hes : FaithS es) :
    FaithS (fun p : α × β => PVs.cons (e p.1) (es p.2)) where
  eq p q := by
    simp only [pvsEq, he.eq, hes.eq, compare_prod]
    cases compare p.1 q.1 <;> simp [Ordering.then]
  lt p q := by
    simp only [pvsLt, he.eq, compare_prod]
    by_cases h : compare p.1 q.1 = .eq
    · simp [h, hes.lt, Ordering.then]
    · rw [he.lt _ _ h]
      cases hc : compare p.1 q.1 <;> simp_all [Ordering.then]
  gt p q := by
    simp only [pvsGt, he.eq, compare_prod]
    by_cases h : compare p.1 q.1 = .eq
    · simp [h, hes.gt, Ordering.then]
    · rw [he.gt _ _ h]
      cases hc : compare p.1 q.1 <;> simp_all [Ordering.then]

theorem faithS_list {α : Type} [Ord α] {e : α → PV} (he : FaithE e) :
    FaithS (fun l : List α => PVs.ofList (l.map e)) where
  eq a := by
    induction a with
    | nil => intro b; cases b <;> simp [PVs.ofList, pvsEq]
    | cons x xs ih =>
      intro b
      cases b with
      | nil => simp [PVs.ofList, pvsEq]
      | cons y ys =>
        simp only [List.map, PVs.ofList, pvsEq, he.eq, ih ys, List.compare_cons_cons]
        cases compare x y <;> simp [Ordering.then]
  lt a := by
    induction a with
    | nil => intro b; cases b <;> simp [PVs.ofList, pvsLt]
    | cons x xs ih =>
      intro b
      cases b with
      | nil => simp [PVs.ofList, pvsLt]
      | cons y ys =>
        simp only [List.map, PVs.ofList, pvsLt, he.eq, List.compare_cons_cons]
        by_cases h : compare x y = .eq
        · simp [h, ih ys, Ordering.then]
        · rw [he.lt _ _ h]
          cases hc : compare x y <;> simp_all [Ordering.then]
  gt a := by
    induction a with
    | nil => intro b; cases b <;> simp [PVs.ofList, pvsGt]
    | cons x xs ih =>
      intro b
      cases b with
      | nil => simp [PVs.ofList, pvsGt]
      | cons y ys =>
        simp only [List.map, PVs.ofList, pvsGt, he.eq, List.compare_cons_cons]
        by_cases h : compare x y = .eq
        · simp [h, ih ys, Ordering.then]
        · rw [he.gt _ _ h]
          cases hc : compare x y <;> simp_all [Ordering.then]

theorem faithE_tup {κ : Type} [Ord κ] {es : κ → PVs} (hes : FaithS es) :
    FaithE (fun k => PV.tup (es k)) where
  eq a b := by simp [pvEq, hes.eq]
  lt a b _ := by simp [pvLt, hes.lt]
  gt a b _ := by simp [pvGt, hes.gt]

/-- a value that is not one of the sentinels -/
def Plain (v : PV) : Prop := v ≠ .inf ∧ v ≠ .ninf

theorem plain_tup (l : PVs) : Plain (.tup l) := ⟨by simp, by simp⟩
theorem plain_int (i : Int) : Plain (.int i) := ⟨by simp, by simp⟩
theorem plain_str (s : Str) : Plain (.str s) := ⟨by simp, by simp⟩

section SentCompare
variable {α : Type} [Ord α]
theorem cmp_nn : compare (Sent.ninf : Sent α) .ninf = .eq := rfl
theorem cmp_nv (b : α) : compare (Sent.ninf : Sent α) (.val b) = .lt := rfl
theorem cmp_ni : compare (Sent.ninf : Sent α) .inf = .lt := rfl
theorem cmp_vn (a : α) : compare (Sent.val a) .ninf = .gt := rfl
theorem cmp_vv (a b : α) : compare (Sent.val a) (.val b) = compare a b := rfl
theorem cmp_vi (a : α) : compare (Sent.val a) .inf = .lt := rfl
theorem cmp_in : compare (Sent.inf : Sent α) .ninf = .gt := rfl
theorem cmp_iv (b : α) : compare (Sent.inf : Sent α) (.val b) = .gt := rfl
theorem cmp_ii : compare (Sent.inf : Sent α) .inf = .eq := rfl
end SentCompare

theorem pvEq_ninf_plain {v : PV} (h : Plain v) : pvEq .ninf v = false := by
  cases v <;> simp_all [Plain, pvEq]
theorem pvEq_plain_ninf {v : PV} (h : Plain v) : pvEq v .ninf = false := by
  cases v <;> simp_all [Plain, pvEq]
theorem pvEq_inf_plain {v : PV} (h : Plain v) : pvEq .inf v = false := by
  cases v <;> simp_all [Plain, pvEq]
theorem pvEq_plain_inf {v : PV} (h : Plain v) : pvEq v .inf = false := by
  cases v <;> simp_all [Plain, pvEq]
theorem pvLt_plain_inf {v : PV} (h : Plain v) : pvLt v .inf = some true := by
  cases v <;> simp_all [Plain, pvLt]
theorem pvLt_plain_ninf {v : PV} (h : Plain v) : pvLt v .ninf = some false := by
  cases v <;> simp_all [Plain, pvLt]
theorem pvGt_plain_inf {v : PV} (h : Plain v) : pvGt v .inf = some false := by
  cases v <;> simp_all [Plain, pvGt]
theorem pvGt_plain_ninf {v : PV} (h : Plain v) : pvGt v .ninf = some true := by
  cases v <;> simp_all [Plain, pvGt]
theorem pvLt_inf (v : PV) : pvLt .inf v = some false := by cases v <;> simp [pvLt]
theorem pvLt_ninf (v : PV) : pvLt .ninf v = some true := by cases v <;> simp [pvLt]
theorem pvGt_inf (v : PV) : pvGt .inf v = some true := by cases v <;> simp [pvGt]
theorem pvGt_ninf (v : PV) : pvGt .ninf v = some false := by cases v <;> simp [pvGt]

/-- sentinels around a faithful encoding of plain values -/
theorem faithE_sent {α : Type} [Ord α] {e : α → PV} (he : FaithE e) (hp : ∀ a, Plain (e a)) :
    FaithE (Sent.enc e) where
  eq a b := by
    cases a with
    | ninf =>
      cases b with
      | ninf => simp [Sent.enc, pvEq, cmp_nn]
      | val y => simp [Sent.enc, pvEq_ninf_plain (hp y), cmp_nv]
      | inf => simp [Sent.enc, pvEq, cmp_ni]
    | val x =>
      cases b with
      | ninf => simp [Sent.enc, pvEq_plain_ninf (hp x), cmp_vn]
      | val y => simp [Sent.enc, he.eq, cmp_vv]
      | inf => simp [Sent.enc, pvEq_plain_inf (hp x), cmp_vi]
    | inf =>
      cases b with
      | ninf => simp [Sent.enc, pvEq, cmp_in]
      | val y => simp [Sent.enc, pvEq_inf_plain (hp y), cmp_iv]
      | inf => simp [Sent.enc, pvEq, cmp_ii]
  lt a b hne := by
    cases a with
    | ninf => cases b <;> simp_all [Sent.enc, pvLt_ninf, cmp_nn, cmp_nv, cmp_ni]
    | val x =>
      cases b with
      | ninf => simp [Sent.enc, pvLt_plain_ninf (hp x), cmp_vn]
      | val y =>
        have hxy : compare x y ≠ .eq := by simpa [cmp_vv] using hne
        simp [Sent.enc, he.lt x y hxy, cmp_vv]
      | inf => simp [Sent.enc, pvLt_plain_inf (hp x), cmp_vi]
    | inf => cases b <;> simp_all [Sent.enc, pvLt_inf, cmp_in, cmp_iv, cmp_ii]
  gt a b hne := by
    cases a with
    | ninf => cases b <;> simp_all [Sent.enc, pvGt_ninf, cmp_nn, cmp_nv, cmp_ni]
    | val x =>
      cases b with
      | ninf => simp [Sent.enc, pvGt_plain_ninf (hp x), cmp_vn]
      | val y =>
        have hxy : compare x y ≠ .eq := by simpa [cmp_vv] using hne
        simp [Sent.enc, he.gt x y hxy, cmp_vv]
      | inf => simp [Sent.enc, pvGt_plain_inf (hp x), cmp_vi]
    | inf => cases b <;> simp_all [Sent.enc, pvGt_inf, cmp_in, cmp_iv, cmp_ii]

/-- `cmp(a, b)` on tuple keys is the three-way comparison of the structured keys -/
theorem pvCmp_tup {κ : Type} [Ord κ] {es : κ → PVs} (hes : FaithS es) (a b : κ) :
    pvCmp (.tup (es a)) (.tup (es b)) = .ok (ordInt (compare a b)) := by
  simp only [pvCmp, pvGt, pvLt, hes.gt, hes.lt]
  cases compare a b <;> simp [ordInt]

end Py
