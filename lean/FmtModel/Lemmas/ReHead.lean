import FmtModel.Py.Re
/-
  FmtModel.Lemmas.ReHead — the "greedy-first" calculus: `Hd r tot s c s' c'` says that the
  *preferred* (first, in CPython's backtracking order) way for `r` to consume a prefix of `s`
  leaves `s'` unread with captures `c'`.  If every stage of a concatenation has a preferred
  continuation, the preferred path of the whole pattern is their composition — no backtracking
  happens, whatever else might also match.  This is what `re.match` / `re.search` return.
-/
namespace Py

def Hd (r : RE) (tot : Nat) (s : Str) (c : Caps) (s' : Str) (c' : Caps) : Prop :=
  (ms r tot s c).head? = some (s', c')

theorem head?_flatMap_cons {α β} (f : α → List β) (x : α) (xs : List α) (y : β) (ys : List β)
    (h : f x = y :: ys) : ((x :: xs).flatMap f).head? = some y := by
  simp [List.flatMap_cons, h]

theorem hd_seq {a b : RE} {tot : Nat} {s s1 s2 : Str} {c c1 c2 : Caps}
    (ha : Hd a tot s c s1 c1) (hb : Hd b tot s1 c1 s2 c2) : Hd (.seq a b) tot s c s2 c2 := by
  unfold Hd at *
  simp only [ms]
  cases hA : ms a tot s c with
  | nil => simp [hA] at ha
  | cons p ps =>
    simp [hA] at ha
    subst ha
    cases hB : ms b tot s1 c1 with
    | nil => simp [hB] at hb
    | cons q qs =>
      simp [hB] at hb
      subst hb
      simp [List.flatMap_cons, hB]

theorem hd_eps (tot : Nat) (s : Str) (c : Caps) : Hd .eps tot s c s c := by simp [Hd, ms]

theorem hd_cls {items : List CItem} {neg : Bool} {x : Char} (h : inCls items neg x = true)
    (tot : Nat) (xs : Str) (c : Caps) : Hd (.cls items neg) tot (x :: xs) c xs c := by
  simp [Hd, ms, h]

theorem ms_cls_fail {items : List CItem} {neg : Bool} {x : Char} (h : inCls items neg x = false)
    (tot : Nat) (xs : Str) (c : Caps) : ms (.cls items neg) tot (x :: xs) c = [] := by
  simp [ms, h]

theorem ms_cls_nil (items : List CItem) (neg : Bool) (tot : Nat) (c : Caps) : ms (.cls items neg) tot [] c = [] := by
  simp [ms]

theorem hd_alt_left {a b : RE} {tot : Nat} {s s' : Str} {c c' : Caps} (h : Hd a tot s c s' c') :
    Hd (.alt a b) tot s c s' c' := by
  unfold Hd at *
  simp only [ms]
  cases hA : ms a tot s c with
  | nil => simp [hA] at h
  | cons p ps => simp [hA] at h; subst h; simp

theorem hd_alt_right {a b : RE} {tot : Nat} {s s' : Str} {c c' : Caps} (ha : ms a tot s c = [])
    (h : Hd b tot s c s' c') : Hd (.alt a b) tot s c s' c' := by
  unfold Hd at *
  simp [ms, ha, h]

theorem hd_grp {a : RE} {nm : Str} {tot : Nat} {s s' : Str} {c c' : Caps} (h : Hd a tot s c s' c') :
    Hd (.grp nm a) tot s c s' ((nm, s.take (s.length - s'.length)) :: c') := by
  unfold Hd at *
  simp only [ms]
  cases hA : ms a tot s c with
  | nil => simp [hA] at h
  | cons p ps => simp [hA] at h; subst h; simp

theorem hd_cgrp {a : RE} {tot : Nat} {s s' : Str} {c c' : Caps} (h : Hd a tot s c s' c') :
    Hd (.cgrp a) tot s c s' c' := by
  unfold Hd at *; simpa [ms] using h

theorem hd_bol {tot : Nat} {s : Str} (h : s.length = tot) (c : Caps) : Hd .bol tot s c s c := by
  simp [Hd, ms, h]

theorem hd_eos (tot : Nat) (c : Caps) : Hd .eos tot [] c [] c := by simp [Hd, ms]
theorem hd_eol (tot : Nat) (c : Caps) : Hd .eol tot [] c [] c := by simp [Hd, ms]

/-- `a?` takes `a` when `a` has a preferred match -/
theorem hd_opt_some {a : RE} {tot : Nat} {s s' : Str} {c c' : Caps} (h : Hd a tot s c s' c') :
    Hd (.rep 0 1 a) tot s c s' c' := by
  unfold Hd at *
  simp only [ms, repL]
  cases hA : ms a tot s c with
  | nil => simp [hA] at h
  | cons p ps =>
    simp [hA] at h; subst h
    simp [List.flatMap_cons, repL]

/-- `a?` takes nothing when `a` cannot match -/
theorem hd_opt_none {a : RE} {tot : Nat} {s : Str} {c : Caps} (h : ms a tot s c = []) :
    Hd (.rep 0 1 a) tot s c s c := by
  simp [Hd, ms, repL, h]

-- runs of a character class --------------------------------------------------------------------------

/-- a body that consumes exactly one character satisfying `p` -/
def OneChar (p : Char → Bool) (body : Str → Caps → Res) : Prop :=
  (∀ c, body [] c = []) ∧ (∀ x xs c, body (x :: xs) c = if p x then [(xs, c)] else [])

theorem oneChar_cls (items : List CItem) (neg : Bool) (tot : Nat) :
    OneChar (inCls items neg) (ms (.cls items neg) tot) :=
  ⟨fun c => by simp [ms], fun x xs c => by simp [ms]⟩

/-- greedy star over a one-character body: on `w ++ rest` with every character of `w` accepted and
    `rest` not starting with an accepted character, the preferred match consumes exactly `w` -/
theorem starL_run {p : Char → Bool} {body : Str → Caps → Res} (hb : OneChar p body) (c : Caps) :
    ∀ (w : Str) (rest : Str) (f : Nat), (∀ x ∈ w, p x = true) →
      (∀ y ys, rest = y :: ys → p y = false) → (w ++ rest).length ≤ f →
      (starL body f (w ++ rest) c).head? = some (rest, c) := by
  intro w
  induction w with
  | nil =>
    intro rest f _ hr hf
    cases f with
    | zero => simp [starL]
    | succ f =>
      cases rest with
      | nil => simp [starL, hb.1]
      | cons y ys =>
        have := hr y ys rfl
        simp [starL, hb.2, this]
  | cons x xs ih =>
    intro rest f hw hr hf
    cases f with
    | zero => simp at hf
    | succ f =>
      have hx : p x = true := hw x (by simp)
      have hl : (xs ++ rest).length ≤ f := by simp at hf ⊢; omega
      have := ih rest f (fun y hy => hw y (by simp [hy])) hr hl
      have hlt : (xs ++ rest).length < (xs ++ rest).length + 1 := Nat.lt_succ_self _
      simp only [List.cons_append, starL, hb.2, hx, ↓reduceIte, List.length_cons, List.filter_cons, hlt,
        decide_true, List.filter_nil, List.flatMap_cons, List.flatMap_nil, List.append_nil]
      cases hS : starL body f (xs ++ rest) c with
      | nil => simp [hS] at this
      | cons q qs => simp [hS] at this; subst this; simp

theorem ms_plus_unfold (a : RE) (t : Nat) (s : Str) (c : Caps) :
    ms (.plus a) t s c = (ms a t s c).flatMap fun p => starL (ms a t) p.1.length p.1 p.2 := by
  rw [ms]

theorem ms_star_unfold (a : RE) (t : Nat) (s : Str) (c : Caps) :
    ms (.star a) t s c = starL (ms a t) s.length s c := by
  rw [ms]

theorem hd_star_run {items : List CItem} {neg : Bool} (tot : Nat) (w rest : Str) (c : Caps)
    (hw : ∀ x ∈ w, inCls items neg x = true) (hr : ∀ y ys, rest = y :: ys → inCls items neg y = false) :
    Hd (.star (.cls items neg)) tot (w ++ rest) c rest c := by
  unfold Hd
  rw [ms_star_unfold]
  exact starL_run (oneChar_cls items neg tot) c w rest _ hw hr (Nat.le_refl _)

theorem hd_plus_run {items : List CItem} {neg : Bool} (tot : Nat) (x : Char) (w rest : Str) (c : Caps)
    (hx : inCls items neg x = true) (hw : ∀ y ∈ w, inCls items neg y = true)
    (hr : ∀ y ys, rest = y :: ys → inCls items neg y = false) :
    Hd (.plus (.cls items neg)) tot (x :: w ++ rest) c rest c := by
  unfold Hd
  have h1 : ms (.cls items neg) tot (x :: (w ++ rest)) c = [(w ++ rest, c)] := by simp [ms, hx]
  rw [ms_plus_unfold, List.cons_append, h1]
  simp only [List.flatMap_cons, List.flatMap_nil, List.append_nil]
  exact starL_run (oneChar_cls items neg tot) c w rest _ hw hr (Nat.le_refl _)

theorem take_append_len {α} (w rest : List α) : (w ++ rest).take ((w ++ rest).length - rest.length) = w := by
  simp

end Py
