import FmtModel.Ver
import FmtModel.Lemmas.OrderKey
/-
  FmtModel.Lemmas.VerOrder — the comparison of each version class is the lexicographic
  `compare` of its structured key.
-/
namespace Ver
open Py Std

theorem faithE_letter : FaithE encLetter :=
  faithE_tup (faithS_cons faithE_str (faithS_single faithE_int))

theorem faithE_release : FaithE encRelease := faithE_tup (faithS_list faithE_nat)

theorem plain_letter (p : Str × Int) : Plain (encLetter p) := plain_tup _

theorem faithE_letterK : FaithE (Sent.enc encLetter) := faithE_sent faithE_letter plain_letter

theorem faithE_locItem : FaithE encLocItem :=
  faithE_tup (faithS_cons (faithE_sent faithE_int plain_int) (faithS_single faithE_str))

theorem faithE_local : FaithE encLocal := faithE_tup (faithS_list faithE_locItem)

theorem faithE_localK : FaithE (Sent.enc encLocal) := faithE_sent faithE_local (fun _ => plain_tup _)

theorem faithS_baseKey :
    FaithS (fun k : BaseKey => PVs.cons (.int k.1) (.cons (.int k.2.1) (.cons (.int k.2.2) .nil))) :=
  faithS_cons faithE_nat (faithS_cons faithE_nat (faithS_single faithE_nat))

theorem faithS_semKey :
    FaithS (fun k : SemKey => PVs.cons (encRelease k.1) (.cons (Sent.enc encLetter k.2) .nil)) :=
  faithS_cons faithE_release (faithS_single faithE_letterK)

theorem faithS_pkgKey :
    FaithS (fun k : PkgKey =>
      PVs.cons (.int k.1) (.cons (encRelease k.2.1) (.cons (Sent.enc encLetter k.2.2.1)
        (.cons (Sent.enc encLetter k.2.2.2.1) (.cons (Sent.enc encLetter k.2.2.2.2.1)
          (.cons (Sent.enc encLocal k.2.2.2.2.2) .nil)))))) :=
  faithS_cons faithE_nat (faithS_cons faithE_release (faithS_cons faithE_letterK
    (faithS_cons faithE_letterK (faithS_cons faithE_letterK (faithS_single faithE_localK)))))

theorem pvCmp_base (a b : BaseKey) : pvCmp (encBaseKey a) (encBaseKey b) = .ok (ordInt (compare a b)) :=
  pvCmp_tup faithS_baseKey a b

theorem pvCmp_sem (a b : SemKey) : pvCmp (encSemKey a) (encSemKey b) = .ok (ordInt (compare a b)) :=
  pvCmp_tup faithS_semKey a b

theorem pvCmp_pkg (a b : PkgKey) : pvCmp (encPkgKey a) (encPkgKey b) = .ok (ordInt (compare a b)) :=
  pvCmp_tup faithS_pkgKey a b

/-- the comparison key of an object as one sum type, so that the three classes share theorems -/
inductive AKey where
  | base (k : BaseKey)
  | sem (k : SemKey)
  | pkg (k : PkgKey)

def akey (o : Obj) : R AKey :=
  match o.cls with
  | .base => .ok (.base (baseKey o))
  | .sem => (semKey o).map .sem
  | .pkg => (pkgKey o).map .pkg

/-- three-way comparison of two keys of the same class -/
def AKey.cmp : AKey → AKey → Option Ordering
  | .base a, .base b => some (compare a b)
  | .sem a, .sem b => some (compare a b)
  | .pkg a, .pkg b => some (compare a b)
  | _, _ => none

def AKey.enc : AKey → PV
  | .base k => encBaseKey k
  | .sem k => encSemKey k
  | .pkg k => encPkgKey k

theorem key_eq_akey (o : Obj) : key o = (akey o).map AKey.enc := by
  unfold key akey
  cases o.cls with
  | base => rfl
  | sem => cases semKey o <;> rfl
  | pkg => cases pkgKey o <;> rfl

theorem akey_cls {o : Obj} {k : AKey} (h : akey o = .ok k) :
    (o.cls = .base ∧ ∃ x, k = .base x) ∨ (o.cls = .sem ∧ ∃ x, k = .sem x) ∨ (o.cls = .pkg ∧ ∃ x, k = .pkg x) := by
  unfold akey at h
  cases hc : o.cls with
  | base => simp [hc] at h; exact Or.inl ⟨rfl, _, h.symm⟩
  | sem =>
    simp [hc] at h
    cases hs : semKey o with
    | error e => simp [hs, Except.map] at h
    | ok x => simp [hs, Except.map] at h; exact Or.inr (Or.inl ⟨rfl, x, h.symm⟩)
  | pkg =>
    simp [hc] at h
    cases hs : pkgKey o with
    | error e => simp [hs, Except.map] at h
    | ok x => simp [hs, Except.map] at h; exact Or.inr (Or.inr ⟨rfl, x, h.symm⟩)

/-- **the comparison theorem**: for two objects of one class whose keys exist, `compare` never
    raises and returns the sign of the lexicographic comparison of the structured keys -/
theorem compare_obj {a b : Obj} {ka kb : AKey} (hc : a.cls = b.cls)
    (ha : akey a = .ok ka) (hb : akey b = .ok kb) :
    ∃ o, ka.cmp kb = some o ∧ vcompare a (.obj b) = .ok (ordInt o) := by
  have hka := key_eq_akey a
  have hkb := key_eq_akey b
  rw [ha] at hka; rw [hb] at hkb
  simp only [Except.map] at hka hkb
  unfold vcompare coerce
  simp only [hc, ↓reduceIte, bind, Except.bind, hka, hkb]
  rcases akey_cls ha with ⟨c1, x, rfl⟩ | ⟨c1, x, rfl⟩ | ⟨c1, x, rfl⟩ <;>
  rcases akey_cls hb with ⟨c2, y, rfl⟩ | ⟨c2, y, rfl⟩ | ⟨c2, y, rfl⟩ <;>
  first
    | (exfalso; rw [c1, c2] at hc; exact absurd hc (by decide))
    | exact ⟨_, rfl, pvCmp_base x y⟩
    | exact ⟨_, rfl, pvCmp_sem x y⟩
    | exact ⟨_, rfl, pvCmp_pkg x y⟩

end Ver
