import FmtModel.Ver
import FmtModel.Lemmas.OrderKey
/-
  FmtModel.Lemmas.VerOrder — the comparison of each version class is the lexicographic
  `compare` of its structured key.
-/
namespace Ver
open Py Std

theorem faithE_letter : FaithE encLetter :=
  faithE_tup (faithS_cons faithE_str (faithS_single faithE_int))

theorem faithE_release : FaithE encRelease := faithE_tup (faithS_list faithE_nat)

theorem plain_letter (p : Str × Int) : Plain (encLetter p) := plain_tup _

theorem faithE_letterK : FaithE (Sent.enc encLetter) := faithE_sent faithE_letter plain_letter

theorem faithE_locItem : FaithE encLocItem :=
  faithE_tup (faithS_cons (faithE_sent faithE_int plain_int) (faithS_single faithE_str))

theorem faithE_local : FaithE encLocal := faithE_tup (faithS_list faithE_locItem)

theorem faithE_localK : FaithE (Sent.enc encLocal) := faithE_sent faithE_local (fun _ => plain_tup _)

theorem faithS_baseKey :
    FaithS (fun k : BaseKey => PVs.cons (.int k.1) (.cons (.int k.2.1) (.cons (.int k.2.2) .nil))) :=
  faithS_cons faithE_nat (faithS_cons faithE_nat (faithS_single faithE_nat))

theorem faithS_semKey :
    FaithS (fun k : SemKey => PVs.cons (encRelease k.1) (.cons (Sent.enc encLetter k.2) .nil)) :=
  faithS_cons faithE_release (faithS_single faithE_letterK)

theorem faithS_pkgKey :
    FaithS (fun k : PkgKey =>
      PVs.cons (.int k.1) (.cons (encRelease k.2.1) (.cons (Sent.enc encLetter k.2.2.1)
        (.cons (Sent.enc encLetter k.2.2.2.1) (.cons (Sent.enc encLetter k.2.2.2.2.1)
          (.cons (Sent.enc encLocal k.2.2.2.2.2) .nil)))))) :=
  faithS_cons faithE_nat (faithS_cons faithE_release (faithS_cons faithE_letterK
    (faithS_cons faithE_letterK (faithS_cons faithE_letterK (faithS_single faithE_localK)))))

theorem pvCmp_base (a b : BaseKey) : pvCmp (encBaseKey a) (encBaseKey b) = .ok (ordInt (compare a b)) :=
  pvCmp_tup faithS_baseKey a b

theorem pvCmp_sem (a b : SemKey) : pvCmp (encSemKey a) (encSemKey b) = .ok (ordInt (compare a b)) :=
  pvCmp_tup faithS_semKey a b

theorem pvCmp_pkg (a b : PkgKey) : pvCmp (encPkgKey a) (encPkgKey b) = .ok (ordInt (compare a b)) :=
  pvCmp_tup faithS_pkgKey a b

/-- the comparison key of an object as one sum type, so that the three classes share theorems -/
inductive AKey where
  | base (k : BaseKey)
  | sem (k : SemKey)
  | pkg (k : PkgKey)

def akey (o : Obj) : R AKey :=
  match o.cls with
  | .base => .ok (.base (baseKey o))
  | .sem => (semKey o).map .sem
  | .pkg => (pkgKey o).map .pkg

/-- three-way comparison of two keys of the same class -/
def AKey.cmp : AKey → AKey → Option Ordering
  | .base a, .base b => some (compare a b)
  | .sem a, .sem b => some (compare a b)
  | .pkg a, .pkg b => some (compare a b)
  | _, _ => none

def AKey.enc : AKey → PV
  | .base k => encBaseKey k
  | .sem k => encSemKey k
  | .pkg k => encPkgKey k

theorem key_eq_akey (o : Obj) : key o = (akey o).map AKey.enc := by
  unfold key akey
  cases o.cls with
  | base => rfl
  | sem => cases semKey o <;> rfl
  | pkg => cases pkgKey o <;> rfl

theorem akey_cls {o : Obj} {k : AKey} (h : akey o = .ok k) :
    (o.cls = .base ∧ ∃ x, k = .base x) ∨ (o.cls = .sem ∧ ∃ x, k = .sem x) ∨ (o.cls = .pkg ∧ ∃ x, k = .pkg x) := by
  unfold akey at h
  cases hc : o.cls with
  | base => simp [hc] at h; exact Or.inl ⟨rfl, _, h.symm⟩
  | sem =>
    simp [hc] at h
    cases hs : semKey o with
    | error e => simp [hs, Except.map] at h
    | ok x => simp [hs, Except.map] at h; exact Or.inr (Or.inl ⟨rfl, x, h.symm⟩)
  | pkg =>
    simp [hc] at h
    cases hs : pkgKey o with
    | error e => simp [hs, Except.map] at h
    | ok x => simp [hs, Except.map] at h; exact Or.inr (Or.inr ⟨rfl, x, h.symm⟩)

/-- **the comparison theorem**: for two objects of one class whose keys exist, `compare` never
    raises and returns the sign of the lexicographic comparison of the structured keys -/
theorem compare_obj {a b : Obj} {ka kb : AKey} (hc : a.cls = b.cls)
    (ha : akey a = .ok ka) (hb : akey b = .ok kb) :
    ∃ o, ka.cmp kb = some o ∧ vcompare a (.obj b) = .ok (ordInt o) := by
  have hka := key_eq_akey a
  have hkb := key_eq_akey b
  rw [ha] at hka; rw [hb] at hkb
  simp only [Except.map] at hka hkb
  unfold vcompare coerce
  simp only [hc, ↓reduceIte, bind, Except.bind, hka, hkb]
  rcases akey_cls ha with ⟨c1, x, rfl⟩ | ⟨c1, x, rfl⟩ | ⟨c1, x, rfl⟩ <;>
  rcases akey_cls hb with ⟨c2, y, rfl⟩ | ⟨c2, y, rfl⟩ | ⟨c2, y, rfl⟩ <;>
  first
    | (exfalso; rw [c1, c2] at hc; exact absurd hc (by decide))
    | exact ⟨_, rfl, pvCmp_base x y⟩
    | exact ⟨_, rfl, pvCmp_sem x y⟩
    | exact ⟨_, rfl, pvCmp_pkg x y⟩

instance {α : Type} [Ord α] [TransOrd α] : TransOrd (Sent α) :=
  inferInstanceAs (TransCmp (compareOn Sent.rank))

/-- what each operator answers for a three-way result -/
def opHolds : Op → Ordering → Bool
  | .eq, o => o == .eq
  | .ne, o => o != .eq
  | .lt, o => o == .lt
  | .le, o => o != .gt
  | .gt, o => o == .gt
  | .ge, o => o != .lt

/-- every operator of `a ∘ b` is defined (no exception) and is read off one three-way result -/
theorem rich_spec {a b : Obj} {ka kb : AKey} (hc : a.cls = b.cls)
    (ha : akey a = .ok ka) (hb : akey b = .ok kb) :
    ∃ o, ka.cmp kb = some o ∧ ∀ op, richCmp op a (.obj b) = .ok (opHolds op o) := by
  obtain ⟨o, ho, hcmp⟩ := compare_obj hc ha hb
  refine ⟨o, ho, ?_⟩
  intro op
  simp only [richCmp, hcmp, Except.map]
  cases o <;> cases op <;> simp [ordInt, opHolds]

theorem cmp_swap {ka kb : AKey} {o : Ordering} (h : ka.cmp kb = some o) : kb.cmp ka = some o.swap := by
  cases ka <;> cases kb <;> simp [AKey.cmp] at h ⊢ <;> (subst h; exact OrientedOrd.eq_swap)

theorem cmp_refl (ka : AKey) : ka.cmp ka = some .eq := by
  cases ka <;> simp [AKey.cmp, ReflCmp.compare_self]

theorem cmp_trans_lt {ka kb kc : AKey} (h1 : ka.cmp kb = some .lt) (h2 : kb.cmp kc = some .lt) :
    ka.cmp kc = some .lt := by
  cases ka <;> cases kb <;> cases kc <;> simp [AKey.cmp] at h1 h2 ⊢ <;> exact TransCmp.lt_trans h1 h2

theorem cmp_eq_left {ka kb kc : AKey} {o : Ordering} (h1 : ka.cmp kb = some .eq) (h2 : kb.cmp kc = some o) :
    ka.cmp kc = some o := by
  cases ka <;> cases kb <;> cases kc <;>
    simp only [AKey.cmp, Option.some.injEq, reduceCtorEq] at h1 h2 ⊢ <;>
    (rw [TransCmp.congr_left (cmp := compare) h1]; exact h2)

theorem cmp_eq_right {ka kb kc : AKey} {o : Ordering} (h1 : ka.cmp kb = some o) (h2 : kb.cmp kc = some .eq) :
    ka.cmp kc = some o := by
  cases ka <;> cases kb <;> cases kc <;>
    simp only [AKey.cmp, Option.some.injEq, reduceCtorEq] at h1 h2 ⊢ <;>
    (rw [← TransCmp.congr_right (cmp := compare) h2]; exact h1)


instance {α : Type} [Ord α] [LawfulEqOrd α] : LawfulEqOrd (Sent α) where
  compare_self {a} := by cases a <;> simp [cmp_nn, cmp_ii, cmp_vv, ReflCmp.compare_self]
  eq_of_compare {a b} h := by
    cases a <;> cases b <;> simp_all [cmp_nn, cmp_nv, cmp_ni, cmp_vn, cmp_vv, cmp_vi, cmp_in, cmp_iv, cmp_ii]

theorem cmp_eq_imp_eq {ka kb : AKey} (h : ka.cmp kb = some .eq) : ka = kb := by
  cases ka <;> cases kb <;> simp only [AKey.cmp, Option.some.injEq, reduceCtorEq] at h <;>
    exact congrArg _ (LawfulEqOrd.eq_of_compare h)

theorem hashRepr_eq_key (o : Obj) : hashRepr o = key o := by
  unfold hashRepr key
  cases o.cls <;> rfl


theorem argInt_nat (n : Nat) : argInt (natArg n) = .ok (n : Int) := rfl
theorem argIntOr0_nat (n : Nat) : argIntOr0 (natArg n) = .ok (n : Int) := by
  unfold argIntOr0 natArg Arg.truthy
  by_cases h : n = 0
  · subst h; rfl
  · have : ((n : Int) != 0) = true := by simp; omega
    simp [this, argInt]
theorem nonNeg_nat (n : Nat) : nonNeg (n : Int) = .ok n := by
  unfold nonNeg
  have : ¬ ((n : Int) < 0) := by omega
  simp [this]
theorem argOptStr_optArg (p : Option Str) : argOptStr (optArg p) = p := by cases p <;> rfl

theorem initBase_nat (a b c : Nat) : initBase (natArg a) (natArg b) (natArg c) = .ok (a, b, c) := by
  simp [initBase, argInt_nat, argIntOr0_nat, nonNeg_nat, bind, Except.bind, pure, Except.pure]

/-- `cls(*b.to_tuple())` has the key of `b` -/
theorem construct_toArgs (b : Obj) :
    ∃ b', construct b.cls b.toArgs = .ok b' ∧ b'.cls = b.cls ∧ akey b' = akey b := by
  cases hc : b.cls with
  | base =>
    refine ⟨{ cls := .base, major := b.major, minor := b.minor, patch := b.patch }, ?_, rfl, ?_⟩
    · simp [construct, Obj.toArgs, hc, mkBase, initBase_nat, bind, Except.bind, pure, Except.pure]
    · simp [akey, hc, baseKey]
  | sem =>
    refine ⟨{ cls := .sem, major := b.major, minor := b.minor, patch := b.patch, pre := b.pre, build := b.build }, ?_, rfl, ?_⟩
    · simp [construct, Obj.toArgs, hc, mkSem, initBase_nat, argOptStr_optArg, bind, Except.bind, pure, Except.pure]
    · simp [akey, hc, semKey]
  | pkg =>
    refine ⟨{ cls := .pkg, epoch := b.epoch, major := b.major, minor := b.minor, patch := b.patch,
              pre := b.pre, post := b.post, dev := b.dev, loc := b.loc }, ?_, rfl, ?_⟩
    · simp [construct, Obj.toArgs, hc, mkPkg, initBase_nat, argIntOr0_nat, nonNeg_nat, argOptStr_optArg,
        bind, Except.bind, pure, Except.pure]
    · simp [akey, hc, pkgKey, pkgPre, pkgPost, pkgDev, pkgLoc]

theorem vcompare_congr {a b b' : Obj} (hc : b'.cls = b.cls) (hk : akey b' = akey b) :
    vcompare a (.obj b') = vcompare a (.obj b) := by
  simp only [vcompare, coerce, hc]
  by_cases h : b.cls = a.cls <;> simp [h, bind, Except.bind, key_eq_akey b', key_eq_akey b, hk]


theorem mkBase_cls {a b c : Arg} {o : Obj} (h : mkBase a b c = .ok o) : o.cls = .base := by
  unfold mkBase at h
  cases hi : initBase a b c with
  | error e => simp [hi, bind, Except.bind] at h
  | ok t => simp [hi, bind, Except.bind, pure, Except.pure] at h; subst h; rfl

theorem mkSem_cls {a b c p q : Arg} {o : Obj} (h : mkSem a b c p q = .ok o) : o.cls = .sem := by
  unfold mkSem at h
  cases hi : initBase a b c with
  | error e => simp [hi, bind, Except.bind] at h
  | ok t => simp [hi, bind, Except.bind, pure, Except.pure] at h; subst h; rfl

theorem mkPkg_cls {e a b c p q r s : Arg} {o : Obj} (h : mkPkg e a b c p q r s = .ok o) : o.cls = .pkg := by
  unfold mkPkg at h
  cases hi : initBase a b c with
  | error x => simp [hi, bind, Except.bind] at h
  | ok t =>
    simp only [hi, bind, Except.bind] at h
    cases he : argIntOr0 e with
    | error x => simp [he] at h
    | ok ev =>
      simp only [he] at h
      cases hn : nonNeg ev with
      | error x => simp [hn] at h
      | ok n => simp [hn, pure, Except.pure] at h; subst h; rfl

/-- a parsed object has the class it was parsed as -/
theorem parse_cls {c : Cls} {s : Str} {opt : Bool} {w : Obj} (h : parse c s opt = .ok w) : w.cls = c := by
  unfold parse at h
  split at h
  · simp at h
  · split at h
    · simp at h
    · cases c with
      | base => exact mkBase_cls h
      | sem => exact mkSem_cls h
      | pkg => exact mkPkg_cls h

end Ver
