import FmtModel.Py.Num
/-
  FmtModel.Lemmas.Digits — `str(n)` is a non-empty run of ASCII digits whose value is `n`, and
  `int(str(n)) = n`, for every natural number (Lean core proves the facts about `Nat.toDigits`).
-/
namespace Py

theorem showNat_eq (n : Nat) : showNat n = Nat.toDigits 10 n := by
  simp [showNat, Nat.toList_repr]

theorem showNat_ne_nil (n : Nat) : showNat n ≠ [] := by
  rw [showNat_eq]; exact Nat.toDigits_ne_nil

theorem isAsciiDigit_of_isDigit {c : Char} (h : c.isDigit = true) : isAsciiDigit c = true := by
  simp only [Char.isDigit, Bool.and_eq_true, decide_eq_true_eq] at h
  simp only [isAsciiDigit, Bool.and_eq_true, decide_eq_true_eq]
  exact ⟨h.1, h.2⟩

theorem showNat_digits (n : Nat) : ∀ c ∈ showNat n, isAsciiDigit c = true := by
  intro c hc
  rw [showNat_eq] at hc
  exact isAsciiDigit_of_isDigit (Nat.isDigit_of_mem_toDigits (by decide) (by decide) hc)

theorem digitVal_ascii {c : Char} (h : isAsciiDigit c = true) : digitVal c = some (c.toNat - 48) := by
  simp [digitVal, digitValU, h]

theorem digitVal_lt_ten {c : Char} (h : isAsciiDigit c = true) : c.toNat - 48 < 10 := by
  simp only [isAsciiDigit, Bool.and_eq_true, decide_eq_true_eq] at h
  have h2 : c.toNat ≤ 57 := h.2
  omega

/-- on ASCII digits, `digitsVal 10` is core's `Nat.ofDigitChars 10` -/
theorem digitsVal_eq_ofDigitChars : ∀ (l : Str) (acc : Nat), (∀ c ∈ l, isAsciiDigit c = true) →
    digitsVal 10 l acc = some (Nat.ofDigitChars 10 l acc) := by
  intro l
  induction l with
  | nil => intro acc _; simp [digitsVal, Nat.ofDigitChars]
  | cons c cs ih =>
    intro acc h
    have hc : isAsciiDigit c = true := h c (by simp)
    have hlt := digitVal_lt_ten hc
    simp only [digitsVal, digitVal_ascii hc, hlt, ↓reduceIte]
    rw [ih _ (fun x hx => h x (by simp [hx]))]
    simp [Nat.ofDigitChars_cons, Nat.mul_comm]

theorem digitsVal_showNat (n : Nat) : digitsVal 10 (showNat n) 0 = some n := by
  rw [digitsVal_eq_ofDigitChars _ _ (showNat_digits n), showNat_eq,
    Nat.ofDigitChars_toDigits (by decide) (by decide)]

theorem not_space_of_digit {c : Char} (h : isAsciiDigit c = true) : isAsciiSpace c = false := by
  simp only [isAsciiDigit, Bool.and_eq_true, decide_eq_true_eq] at h
  have h1 : 48 ≤ c.toNat := h.1
  have h2 : c.toNat ≤ 57 := h.2
  have e1 : (c == ' ') = false := by
    simp only [beq_eq_false_iff_ne, ne_eq]
    intro hc; subst hc; simp at h1
  have e2 : (decide (9 ≤ c.toNat) && decide (c.toNat ≤ 13)) = false := by
    simp only [Bool.and_eq_false_iff, decide_eq_false_iff_not]; right; omega
  have e3 : (decide (28 ≤ c.toNat) && decide (c.toNat ≤ 31)) = false := by
    simp only [Bool.and_eq_false_iff, decide_eq_false_iff_not]; right; omega
  simp [isAsciiSpace, e1, e2, e3]

theorem dropUnderscores_cons {c : Char} (hne : c ≠ '_') (cs : Str) (b : Bool) :
    dropUnderscores (c :: cs) b = (dropUnderscores cs true).map (c :: ·) := by
  rw [dropUnderscores]
  · intro heq; exact hne heq

/-- digits-only text has no underscores to drop -/
theorem dropUnderscores_digits : ∀ (l : Str) (b : Bool), l ≠ [] ∨ b = true → (∀ c ∈ l, isAsciiDigit c = true) →
    dropUnderscores l b = some l := by
  intro l
  induction l with
  | nil => intro b hb _; cases hb with | inl h => exact absurd rfl h | inr h => simp [dropUnderscores, h]
  | cons c cs ih =>
    intro b _ h
    have hc : isAsciiDigit c = true := h c (by simp)
    have hne : c ≠ '_' := by intro e; subst e; simp [isAsciiDigit] at hc
    have := ih true (Or.inr rfl) (fun x hx => h x (by simp [hx]))
    rw [dropUnderscores_cons hne, this]
    rfl

theorem dropWhile_space_digits : ∀ (l : Str), (∀ c ∈ l, isAsciiDigit c = true) → l.dropWhile isAsciiSpace = l := by
  intro l h
  cases l with
  | nil => rfl
  | cons c cs => simp [List.dropWhile, not_space_of_digit (h c (by simp))]

theorem stripC_digits (l : Str) (h : ∀ c ∈ l, isAsciiDigit c = true) : stripC l isAsciiSpace = l := by
  unfold stripC rstripC lstripC
  rw [dropWhile_space_digits l h]
  have : (l.reverse).dropWhile isAsciiSpace = l.reverse :=
    dropWhile_space_digits _ (fun c hc => h c (by simpa using hc))
  rw [this, List.reverse_reverse]

theorem splitSign_digit {c : Char} (hc : isAsciiDigit c = true) (cs : Str) : splitSign (c :: cs) = (false, c :: cs) := by
  have h1 : c ≠ '-' := by intro e; subst e; simp [isAsciiDigit] at hc
  have h2 : c ≠ '+' := by intro e; subst e; simp [isAsciiDigit] at hc
  unfold splitSign
  split
  · rename_i heq; injection heq with e1 _; exact absurd e1 h1
  · rename_i heq; injection heq with e1 _; exact absurd e1 h2
  · rfl

/-- `int(text)` of a non-empty run of ASCII digits is its decimal value -/
theorem pyIntBase_digits (l : Str) (hne : l ≠ []) (h : ∀ c ∈ l, isAsciiDigit c = true) :
    pyIntBase 10 l = (digitsVal 10 l 0).map fun v => (v : Int) := by
  unfold pyIntBase
  rw [stripC_digits l h]
  cases l with
  | nil => exact absurd rfl hne
  | cons c cs =>
    have hc : isAsciiDigit c = true := h c (by simp)
    have hd := dropUnderscores_digits (c :: cs) false (Or.inl (by simp)) h
    simp [splitSign_digit hc, hd]

theorem pyInt_showNat (n : Nat) : pyInt (showNat n) = .ok (n : Int) := by
  unfold pyInt
  rw [pyIntBase_digits _ (showNat_ne_nil n) (showNat_digits n), digitsVal_showNat]
  rfl

end Py
