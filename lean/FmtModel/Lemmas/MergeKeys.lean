import FmtModel.Py.Str
/-
  Lemmas about capture keys that carry the occurrence of a group member they came from (`key__occurrence`,
  repair 70c9478): the field a key maps back to (`key.split("__", 1)[0]`) is not changed by the tag.
-/
namespace Py

theorem isPrefix_uu_append (c : Char) (cs g : Str) (h : (c :: cs).getLast? ≠ some '_') :
    (['_', '_'] : Str).isPrefixOf (c :: cs ++ ['_', '_'] ++ g) = (['_', '_'] : Str).isPrefixOf (c :: cs) := by
  cases cs with
  | nil =>
    by_cases hc : c = '_'
    · subst hc; simp at h
    · simp [List.isPrefixOf]; exact fun e => hc e.symm
  | cons d ds => simp [List.isPrefixOf]

theorem splitGo_head_append (k : Str) : ∀ (cur g : Str), k.getLast? ≠ some '_' →
    (splitGo ['_', '_'] 0 cur (k ++ ['_', '_'] ++ g)).headD [] = (splitGo ['_', '_'] 0 cur k).headD [] := by
  induction k with
  | nil => intro cur g _; simp [splitGo, List.isPrefixOf]
  | cons c cs ih =>
    intro cur g h
    have hp := isPrefix_uu_append c cs g h
    have hcs : cs.getLast? ≠ some '_' := by
      cases cs with
      | nil => simp
      | cons d ds => simpa [List.getLast?_cons_cons] using h
    show (splitGo ['_', '_'] 0 cur (c :: (cs ++ ['_', '_'] ++ g))).headD [] = (splitGo ['_', '_'] 0 cur (c :: cs)).headD []
    unfold splitGo
    have hp' : (['_', '_'] : Str).isPrefixOf (c :: (cs ++ ['_', '_'] ++ g)) = (['_', '_'] : Str).isPrefixOf (c :: cs) := by simpa using hp
    rw [hp']
    split
    · rfl
    · exact ih (c :: cur) g hcs

theorem splitFirst_append_tag (k g : Str) (h : k.getLast? ≠ some '_') :
    splitFirst (k ++ ['_', '_'] ++ g) ['_', '_'] = splitFirst k ['_', '_'] := by
  simp only [splitFirst, splitOn]
  simpa using splitGo_head_append k [] g h

/-- keys of one occurrence stay distinct, and keys of two occurrences whose names have the same length are distinct
    whenever the occurrences or the keys are -/
theorem tag_inj (k1 k2 g1 g2 : Str) (hl : g1.length = g2.length)
    (h : k1 ++ ['_', '_'] ++ g1 = k2 ++ ['_', '_'] ++ g2) : k1 = k2 ∧ g1 = g2 := by
  have h' : k1 ++ (['_', '_'] ++ g1) = k2 ++ (['_', '_'] ++ g2) := by simpa [List.append_assoc] using h
  have hl' : (['_', '_'] ++ g1 : Str).length = (['_', '_'] ++ g2 : Str).length := by simp [hl]
  have := List.append_inj' h' hl'
  exact ⟨this.1, List.append_cancel_left this.2⟩

end Py
