import FmtModel.Engine
/-
  FmtModel.Lemmas.Loop — symbolic execution of the priority loop: one lemma per way an entry
  can be handled, so that a proof walks the regenerated priorities table entry by entry.
-/
namespace Engine
open Py

variable {Val : Type} {C : Cls Val} {formats : List (Str × Option Str)} {strict : Bool} {o : Obj}
  {name attr : Str} {lv : List Nat}

/-- the attribute is already set and this entry has no capture: nothing happens (both modes) -/
theorem prioStep_skip (hattr : splitFirst name ['_'] = attr) (ht : C.truthy (o.get attr) = true)
    (hl : alookup name formats = none) : prioStep C formats strict o (name, lv) = .ok o := by
  cases strict <;> simp [prioStep, hattr, ht, hl, pure, Except.pure]

/-- the attribute is already set, non-strict mode: later statements are not even looked at -/
theorem prioStep_skip_nonstrict (hattr : splitFirst name ['_'] = attr) (ht : C.truthy (o.get attr) = true) :
    prioStep C formats false o (name, lv) = .ok o := by
  simp [prioStep, hattr, ht, pure, Except.pure]

/-- the attribute is already set, strict mode, and the capture agrees -/
theorem prioStep_check {text : Str} {p : AV} {o' : Obj} (hattr : splitFirst name ['_'] = attr)
    (ht : C.truthy (o.get attr) = true) (hl : alookup name formats = some (some text))
    (hc : C.conv name o text = .ok (p, o')) (hd : C.differs (o.get attr) p = false) :
    prioStep C formats true o (name, lv) = .ok o' := by
  simp [prioStep, hattr, ht, hl, hc, hd, bind, Except.bind, pure, Except.pure]

/-- the attribute is not set yet and the entry has a capture: convert and store it -/
theorem prioStep_conv {text : Str} {v : AV} {o' : Obj} {l' : List Bool} (hattr : splitFirst name ['_'] = attr)
    (hf : C.truthy (o.get attr) = false) (hnd : isDefaultName name = false)
    (hl : alookup name formats = some (some text)) (hc : C.conv name o text = .ok (v, o'))
    (hlv : levelUpdate o'.level lv = .ok l') :
    prioStep C formats strict o (name, lv) = .ok { (o'.set attr v) with level := l' } := by
  simp [prioStep, hattr, hf, hnd, hl, hc, hlv, bind, Except.bind, pure, Except.pure]

/-- the attribute is not set and there is no capture for this (non-default) entry -/
theorem prioStep_absent (hattr : splitFirst name ['_'] = attr) (hf : C.truthy (o.get attr) = false)
    (hnd : isDefaultName name = false) (hl : alookup name formats = none) :
    prioStep C formats strict o (name, lv) = .ok o := by
  simp [prioStep, hattr, hf, hnd, hl, pure, Except.pure]

/-- a `_default` / `_fix` entry fills an attribute that is still unset -/
theorem prioStep_default {v : AV} {o' : Obj} {l' : List Bool} (hattr : splitFirst name ['_'] = attr)
    (hf : C.truthy (o.get attr) = false) (hd : isDefaultName name = true)
    (hc : C.dflt name o = .ok (v, o')) (hlv : levelUpdate o'.level lv = .ok l') :
    prioStep C formats strict o (name, lv) = .ok { (o'.set attr v) with level := l' } := by
  simp [prioStep, hattr, hf, hd, hc, hlv, bind, Except.bind, pure, Except.pure]

theorem foldlM_cons_ok {α β : Type} (f : β → α → R β) (b b' : β) (a : α) (as : List α) (h : f b a = .ok b') :
    (a :: as).foldlM f b = as.foldlM f b' := by
  simp [List.foldlM, h, bind, Except.bind]

theorem foldlM_nil_ok {α β : Type} (f : β → α → R β) (b : β) : ([] : List α).foldlM f b = .ok b := rfl

end Engine
