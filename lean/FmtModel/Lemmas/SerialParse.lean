import FmtModel.Classes.Serial
import FmtModel.Lemmas.ReHead
import FmtModel.Lemmas.Digits
import FmtModel.Lemmas.Loop
/-
  FmtModel.Lemmas.SerialParse — parsing the decimal text of ANY natural number with `%n`.
-/
namespace Serial
open Py Engine

def digitCls : RE := .cls [.range '0' '9'] false

/-- the compiled pattern of the format `%n`, from the regenerated Serial table and anchors -/
def reN : RE := .seq .bol (.seq (.grp "number".toList (.star digitCls)) .eos)

theorem pattern_n : patternFor Serial.cls "%n".toList = .ok reN := by decide +kernel

theorem inCls_digit {c : Char} (h : isAsciiDigit c = true) : inCls [.range '0' '9'] false c = true := by
  simp only [isAsciiDigit, Bool.and_eq_true, decide_eq_true_eq] at h
  simp [inCls, CItem.has, h.1, h.2]

/-- the preferred match of `^(?P<number>[0-9]*)\Z` on a run of digits captures the whole run -/
theorem hd_reN (s : Str) (hd : ∀ c ∈ s, isAsciiDigit c = true) :
    Hd reN s.length s [] [] [("number".toList, s)] := by
  unfold reN
  apply hd_seq (hd_bol rfl [])
  apply hd_seq (c1 := [("number".toList, s)]) (s1 := [])
  · have h := hd_star_run (items := [.range '0' '9']) (neg := false) s.length s [] []
      (fun x hx => inCls_digit (hd x hx)) (fun y ys h => by cases h)
    have := hd_grp (nm := "number".toList) h
    simpa [digitCls] using this
  · exact hd_eos _ _

theorem search_reN (s : Str) (hd : ∀ c ∈ s, isAsciiDigit c = true) :
    search reN s = some (0, [], [("number".toList, s)]) := by
  have h := hd_reN s hd
  unfold Hd at h
  unfold search
  cases s with
  | nil =>
    have h' : (ms reN 0 [] []).head? = some ([], [("number".toList, [])]) := h
    simp only [searchFrom, matchAt, List.length_nil, h']
    rfl
  | cons x xs =>
    have h' : (ms reN (xs.length + 1) (x :: xs) []).head? = some ([], [("number".toList, x :: xs)]) := h
    simp only [searchFrom, matchAt, List.length_cons, h']

theorem groupdict_reN (s : Str) : groupdict reN [("number".toList, s)] = [("number".toList, some s)] := by
  simp [groupdict, reN, RE.names, digitCls, alookup]

theorem serial_priorities :
    Serial.cls.priorities = [("number".toList, [1]), ("number_pad".toList, [1]), ("number_binary".toList, [1]),
      ("number_comma".toList, [1]), ("number_underscore".toList, [1]), ("number_default".toList, [0])] := by
  decide +kernel

theorem serial_o0 :
    ((Serial.cls.slots.filter (· != lower Serial.cls.name)).map fun s => (s, AV.none)) = [("number".toList, AV.none)] := by
  decide +kernel

theorem serial_baseLevel : Serial.cls.baseLevel = 1 := by decide +kernel

def objNumber (s : Str) : Obj := { attrs := [("number".toList, .str s)], level := [true] }

theorem truthy_nonempty {s : Str} (hne : s ≠ []) : Serial.truthy (.str s) = true := by
  cases s with
  | nil => exact absurd rfl hne
  | cons _ _ => rfl

/-- once `number` is set, every later entry of the Serial table leaves the object alone
    (there is no capture for it in a single-directive parse) -/
theorem serial_later_skip (s : Str) (hne : s ≠ []) (strict : Bool) (name : Str) (lv : List Nat)
    (hattr : splitFirst name ['_'] = "number".toList) (hnk : name ≠ "number".toList) :
    prioStep Serial.cls [("number".toList, some s)] strict (objNumber s) (name, lv) = .ok (objNumber s) := by
  apply prioStep_skip hattr
  · show Serial.truthy ((objNumber s).get "number".toList) = true
    simp [objNumber, Obj.get, alookup, truthy_nonempty hne]
  · show alookup name [("number".toList, some s)] = none
    unfold alookup
    rw [if_neg (fun h => hnk h.symm)]
    rfl

/-- the priority loop on the single capture `number = s` (s non-empty): the object's `number` is `s` -/
theorem init_number (s : Str) (hne : s ≠ []) (strict : Bool) :
    init Serial.cls [("number".toList, some s)] strict = .ok (objNumber s) := by
  have hv : validateFormat [("number".toList, some s)] = .ok [("number".toList, some s)] := by
    simp [validateFormat, validateStep, List.foldlM, splitFirst, splitOn, splitGo, alookup, bind, Except.bind, pure, Except.pure]
  unfold init
  simp only [hv, bind, Except.bind, serial_o0, serial_baseLevel, priorityLoop, serial_priorities]
  -- entry 1: `number` is converted and stored
  have h1 : prioStep Serial.cls [("number".toList, some s)] strict
      { attrs := [("number".toList, AV.none)], level := List.replicate 1 false } ("number".toList, [1])
      = .ok (objNumber s) := by
    have := prioStep_conv (C := Serial.cls) (formats := [("number".toList, some s)]) (strict := strict)
      (o := { attrs := [("number".toList, AV.none)], level := List.replicate 1 false })
      (name := "number".toList) (attr := "number".toList) (lv := [1]) (text := s) (v := .str s)
      (o' := { attrs := [("number".toList, AV.none)], level := List.replicate 1 false }) (l' := [true])
      (by decide) (by decide) (by decide) (by simp [alookup]) (by simp [Serial.cls, Serial.conv]) (by decide)
    simpa [objNumber, Obj.set, ainsert] using this
  rw [foldlM_cons_ok _ _ _ _ _ h1]
  rw [foldlM_cons_ok _ _ _ _ _ (serial_later_skip s hne strict _ _ (by decide) (by decide))]
  rw [foldlM_cons_ok _ _ _ _ _ (serial_later_skip s hne strict _ _ (by decide) (by decide))]
  rw [foldlM_cons_ok _ _ _ _ _ (serial_later_skip s hne strict _ _ (by decide) (by decide))]
  rw [foldlM_cons_ok _ _ _ _ _ (serial_later_skip s hne strict _ _ (by decide) (by decide))]
  rw [foldlM_cons_ok _ _ _ _ _ (serial_later_skip s hne strict _ _ (by decide) (by decide))]
  rfl

end Serial
