import FmtModel.Group
import FmtModel.Const
import FmtModel.Classes.Serial
import FmtModel.Classes.Datetime
import FmtModel.Classes.Version
import FmtModel.Classes.Naming
import FmtModel.Classes.Storage
import FmtModel.Py.Cmp
/-
  FmtModel.Members — the formatter classes as group members, with the order of their values
  (`int`, `datetime`, `VersionPackage`, `list[str]`, `Decimal`).
-/
namespace Members
open Py Engine Group

def dtKey (t : Cal.DT) : Nat × Nat × Nat × Nat × Nat × Nat × Nat :=
  (t.year, t.month, t.day, t.hour, t.minute, t.second, t.micro)

def verCmp (a b : Ver.Obj) : Option Int :=
  match Ver.vcompare a (.obj b) with
  | .ok c => some c
  | .error _ => none

/-- `Formatter.__hash__`: `hash(self.string)` -/
def stringHash {V} (C : Cls V) (o : Obj) : R HashSrc := .ok (.text (C.string o))
/-- `Serial.__hash__`: `hash(str(self.value))` -/
def serialHash (o : Obj) : R HashSrc := (Serial.value o).map fun n => .text (showNat n)
/-- `Version.__hash__`: `hash(self.value)`, the hash of the version's comparison key -/
def versionHash (o : Obj) : R HashSrc := do
  let v ← Version.value o
  (Ver.hashRepr v).map .key

def serial (n : Str) : Member :=
  { name := n, Val := Nat, cls := Serial.cls, ltVal := fun a b => a < b, eqVal := fun a b => a == b, hash := serialHash }
def datetime (n : Str) : Member :=
  { name := n, Val := Cal.DT, cls := Datetime.cls, ltVal := fun a b => compare (dtKey a) (dtKey b) == .lt,
    eqVal := fun a b => a == b, hash := stringHash Datetime.cls }
def version (n : Str) : Member :=
  { name := n, Val := Ver.Obj, cls := Version.cls, ltVal := fun a b => verCmp a b == some (-1),
    eqVal := fun a b => verCmp a b == some 0, hash := versionHash }
def naming (n : Str) : Member :=
  { name := n, Val := List Str, cls := Naming.cls, ltVal := fun a b => compare a b == .lt, eqVal := fun a b => a == b,
    hash := stringHash Naming.cls }
def storage (n : Str) : Member :=
  { name := n, Val := Dec.D, cls := Storage.cls, ltVal := fun a b => Dec.cmp a b == .lt, eqVal := fun a b => Dec.eq a b,
    hash := stringHash Storage.cls }
def const (n : Str) (m : List (Str × Str)) (cname : Str) (base : Option Str) : Member :=
  { name := n, Val := List Str, cls := Const.mk m cname base, ltVal := fun a b => a != b, eqVal := fun a b => a == b,
    hash := fun o => ((Const.mk m cname base).value o).map fun v => .key (.tup (PVs.ofList (v.map PV.str))) }

end Members
