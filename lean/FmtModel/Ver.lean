import FmtModel.Py.ReParse
import FmtModel.Py.Cmp
import FmtModel.Py.Num
import FmtModel.Generated.Ver
/-
  FmtModel.Ver — model of fmtutil/__version.py: BaseVersion, VersionSemver, VersionPackage.
  Each definition mirrors the function named in its doc comment.  Regex texts, slot tuples,
  valid parts and the spelling / operator tables come from `Gen` (regenerated from the source).
-/
namespace Ver
open Py

inductive Cls where | base | sem | pkg
  deriving DecidableEq, Repr, Inhabited

/-- one record for the three classes; fields a class does not have stay at their defaults -/
structure Obj where
  cls : Cls
  epoch : Nat := 0
  major : Nat := 0
  minor : Nat := 0
  patch : Nat := 0
  pre : Option Str := none
  post : Option Str := none
  dev : Option Str := none
  loc : Option Str := none
  build : Option Str := none
  deriving DecidableEq, Repr, Inhabited

/-- a Python argument as the constructors receive it -/
inductive Arg where
  | int (i : Int) | str (s : Str) | none
  deriving DecidableEq, Repr, Inhabited

def Arg.truthy : Arg → Bool
  | .int i => i != 0
  | .str s => !s.isEmpty
  | .none => false

/-- `int(x)` -/
def argInt : Arg → R Int
  | .int i => .ok i
  | .str s => pyInt s
  | .none => .error .pyType

/-- `int(x or "0")` -/
def argIntOr0 (a : Arg) : R Int := if a.truthy then argInt a else .ok 0

/-- `None if x is None else str(x)` -/
def argOptStr : Arg → Option Str
  | .int i => some (showInt i)
  | .str s => some s
  | .none => Option.none

def nonNeg (i : Int) : R Nat := if i < 0 then .error .pyValue else .ok i.toNat

/-- `BaseVersion.__init__` : (major, minor, patch) -/
def initBase (major minor patch : Arg) : R (Nat × Nat × Nat) := do
  let ma ← argInt major
  let mi ← argIntOr0 minor
  let pa ← argIntOr0 patch
  let ma ← nonNeg ma
  let mi ← nonNeg mi
  let pa ← nonNeg pa
  pure (ma, mi, pa)

def mkBase (major minor patch : Arg) : R Obj := do
  let (a, b, c) ← initBase major minor patch
  pure { cls := .base, major := a, minor := b, patch := c }

/-- `VersionSemver.__init__` -/
def mkSem (major minor patch pre build : Arg) : R Obj := do
  let (a, b, c) ← initBase major minor patch
  pure { cls := .sem, major := a, minor := b, patch := c, pre := argOptStr pre, build := argOptStr build }

/-- `VersionPackage.__init__` -/
def mkPkg (epoch major minor patch pre post dev loc : Arg) : R Obj := do
  let (a, b, c) ← initBase major minor patch
  let e ← argIntOr0 epoch
  let e ← nonNeg e
  pure { cls := .pkg, epoch := e, major := a, minor := b, patch := c,
         pre := argOptStr pre, post := argOptStr post, dev := argOptStr dev, loc := argOptStr loc }

def optArg : Option Str → Arg
  | some s => .str s
  | Option.none => .none

def natArg (n : Nat) : Arg := .int n

/-- `to_tuple()` as constructor arguments (slot order) -/
def Obj.toArgs (o : Obj) : List Arg :=
  match o.cls with
  | .base => [natArg o.major, natArg o.minor, natArg o.patch]
  | .sem => [natArg o.major, natArg o.minor, natArg o.patch, optArg o.pre, optArg o.build]
  | .pkg => [natArg o.epoch, natArg o.major, natArg o.minor, natArg o.patch,
             optArg o.pre, optArg o.post, optArg o.dev, optArg o.loc]

def slots : Cls → List Str
  | .base => Gen.ver_base_slots
  | .sem => Gen.ver_sem_slots
  | .pkg => Gen.ver_pkg_slots

def validParts : Cls → List Str
  | .base => Gen.ver_base_parts
  | .sem => Gen.ver_sem_parts
  | .pkg => Gen.ver_pkg_parts

/-- `cls(*args)`: positional construction; too many arguments is a TypeError -/
def construct (c : Cls) (args : List Arg) : R Obj :=
  let g (i : Nat) : Arg := args.getD i .none
  let n := args.length
  match c with
  | .base => if n = 0 || n > 3 then .error .pyType else mkBase (g 0) (if n > 1 then g 1 else .int 0) (if n > 2 then g 2 else .int 0)
  | .sem => if n = 0 || n > 5 then .error .pyType
            else mkSem (g 0) (if n > 1 then g 1 else .int 0) (if n > 2 then g 2 else .int 0) (g 3) (g 4)
  | .pkg => if n > 8 then .error .pyType
            else mkPkg (if n > 0 then g 0 else .int 0) (if n > 1 then g 1 else .int 0)
                       (if n > 2 then g 2 else .int 0) (if n > 3 then g 3 else .int 0) (g 4) (g 5) (g 6) (g 7)

/-- `cls(**kw)` for keyword arguments; unknown keys are a TypeError; `major` is required for
    BaseVersion and VersionSemver -/
def constructKw (c : Cls) (kw : List (Str × Arg)) : R Obj :=
  if kw.any (fun p => !(slots c).contains p.1) then .error .pyType
  else
    let g (k : String) (d : Arg) : Arg := (alookup k.toList kw).getD d
    match c with
    | .base => if (alookup "major".toList kw).isNone then .error .pyType
               else mkBase (g "major" .none) (g "minor" (.int 0)) (g "patch" (.int 0))
    | .sem => if (alookup "major".toList kw).isNone then .error .pyType
              else mkSem (g "major" .none) (g "minor" (.int 0)) (g "patch" (.int 0)) (g "pre" .none) (g "build" .none)
    | .pkg => mkPkg (g "epoch" (.int 0)) (g "major" (.int 0)) (g "minor" (.int 0)) (g "patch" (.int 0))
                    (g "pre" .none) (g "post" .none) (g "dev" .none) (g "local" .none)

def Obj.toKw (o : Obj) : List (Str × Arg) := (slots o.cls).zip o.toArgs

-- regexes ------------------------------------------------------------------------------------

def reOf (s : Str) : Option RE := parseRegexVerbose s

def clsRegex (c : Cls) (optional : Bool) : Option RE :=
  match c with
  | .base => reOf (if optional then Gen.ver_base_regex_opt else Gen.ver_base_regex)
  | .sem => reOf (if optional then Gen.ver_sem_regex_opt else Gen.ver_sem_regex)
  | .pkg => reOf Gen.ver_pkg_regex

def gdArg (gd : List (Str × Option Str)) (k : String) : Arg :=
  match alookup k.toList gd with
  | some (some s) => .str s
  | _ => .none

/-- `cls.parse(version, optional_minor_and_patch=…)` on a str -/
def parse (c : Cls) (s : Str) (optional : Bool := false) : R Obj :=
  match clsRegex c optional with
  | Option.none => .error .reError
  | some r =>
    match matchAt r s.length s with
    | Option.none => .error .pyValue
    | some (_, caps) =>
      let gd := groupdict r caps
      let orZero (a : Arg) : Arg := if a.truthy then a else .int 0
      match c with
      | .base => mkBase (gdArg gd "major") (gdArg gd "minor") (gdArg gd "patch")
      | .sem => mkSem (gdArg gd "major") (orZero (gdArg gd "minor")) (orZero (gdArg gd "patch"))
                      (gdArg gd "pre") (gdArg gd "build")
      | .pkg => mkPkg (orZero (gdArg gd "epoch")) (gdArg gd "major") (orZero (gdArg gd "minor"))
                      (orZero (gdArg gd "patch")) (gdArg gd "pre") (gdArg gd "post") (gdArg gd "dev")
                      (gdArg gd "local")

-- helpers ------------------------------------------------------------------------------------

/-- `necessary_release`: drop trailing zeros -/
def necessaryRelease (l : List Nat) : List Nat := (l.reverse.dropWhile (· == 0)).reverse

/-- the last maximal run of decimal digits of `s` as (start, end) -/
def lastDigitRunGo : Str → Nat → Option Nat → Option (Nat × Nat) → Option (Nat × Nat)
  | [], i, cur, last => match cur with | some st => some (st, i) | Option.none => last
  | c :: cs, i, cur, last =>
    if isDigitU c then
      lastDigitRunGo cs (i + 1) (match cur with | some st => some st | Option.none => some i) last
    else
      lastDigitRunGo cs (i + 1) Option.none (match cur with | some st => some (st, i) | Option.none => last)

def lastDigitRun (s : Str) : Option (Nat × Nat) := lastDigitRunGo s 0 Option.none Option.none

/-- `increment(s)`: raise the last run of digits by one, keeping its width where possible -/
def increment (s : Str) : Str :=
  match lastDigitRun s with
  | Option.none => s
  | some (st, en) =>
    let digits := (s.take en).drop st
    match digitsVal 10 digits 0 with
    | Option.none => s
    | some v =>
      let next := showNat (v + 1)
      s.take (Nat.max (en - next.length) st) ++ next ++ s.drop en

def letterRe : Option RE := parseRegex Gen.extract_letter_regex
def implicitRe : Option RE := parseRegex Gen.extract_letter_implicit_regex

def lookupSpelling (w : Str) : List (List Str) → Option Str
  | [] => Option.none
  | row :: rest =>
    if row.contains w then row.getLast? else lookupSpelling w rest

/-- `BaseVersion._extract_letter(letter)` (force_raise = False) -/
def extractLetter (letter : Str) : R (Str × Int) :=
  match letterRe, implicitRe with
  | some r, some ri =>
    match matchAt r letter.length letter with
    | some (_, caps) =>
      let pre := lower ((alookup "prefix".toList caps).getD [])
      let conv := (lookupSpelling pre Gen.extract_letter_table).getD pre
      let num := (alookup "number".toList caps).getD []
      (pyInt (if num.isEmpty then "0".toList else num)).map fun n => (conv, n)
    | Option.none =>
      match matchAt ri letter.length letter with
      | some (_, caps) =>
        let num := (alookup "number".toList caps).getD []
        (pyInt (if num.isEmpty then "0".toList else num)).map fun n => ("post".toList, n)
      | Option.none => .ok (letter, 0)
  | _, _ => .error .reError

def truthyStr : Option Str → Bool
  | some s => !s.isEmpty
  | Option.none => false

def isDigitStr (s : Str) : Bool := !s.isEmpty && s.all isDigitU

def splitRe : Option RE := parseRegex Gen.extract_local_split

/-- `re.compile(split).split(local)` for a one-character class -/
def splitLocal (s : Str) : R (List Str) :=
  match splitRe with
  | some (.cls items neg) => .ok (splitOnChars (inCls items neg) [] s)
  | _ => .error .reError

/-- `VersionPackage.__extract_local` + the wrapping of `__extract_tuple`:
    `(i, "")` for a numeric part, `(NegInf, part.lower())` otherwise -/
def localKey (l : Str) : R (List (Sent Int × Str)) := do
  let parts ← splitLocal l
  parts.mapM fun p =>
    if isDigitStr p then (pyInt p).map fun i => (Sent.val i, ([] : Str))
    else pure (Sent.ninf, lower p)

abbrev LetterK := Sent (Str × Int)
abbrev BaseKey := Nat × (Nat × Nat)
abbrev SemKey := List Nat × LetterK
abbrev PkgKey := Nat × (List Nat × (LetterK × (LetterK × (LetterK × Sent (List (Sent Int × Str))))))

/-- `to_tuple()[:3]` of BaseVersion -/
def baseKey (o : Obj) : BaseKey := (o.major, o.minor, o.patch)

/-- `VersionSemver.__extract_tuple` -/
def semKey (o : Obj) : R SemKey := do
  let pre ← if truthyStr o.pre then (extractLetter (o.pre.getD [])).map Sent.val else pure Sent.inf
  pure (necessaryRelease [o.major, o.minor, o.patch], pre)

/-- the pre component of the packaging key: a dev release without pre/post sorts before every pre-release -/
def pkgPre (o : Obj) : R LetterK :=
  if o.pre.isNone && o.post.isNone && o.dev.isSome then pure Sent.ninf
  else if o.pre.isNone then pure Sent.inf
  else (extractLetter (o.pre.getD [])).map Sent.val

def pkgPost (o : Obj) : R LetterK :=
  if truthyStr o.post then (extractLetter (o.post.getD [])).map Sent.val else pure Sent.ninf

def pkgDev (o : Obj) : R LetterK :=
  if truthyStr o.dev then (extractLetter (o.dev.getD [])).map Sent.val else pure Sent.inf

def pkgLoc (o : Obj) : R (Sent (List (Sent Int × Str))) :=
  match o.loc with
  | Option.none => pure Sent.ninf
  | some l => (localKey l).map Sent.val

/-- `VersionPackage.__extract_tuple` -/
def pkgKey (o : Obj) : R PkgKey := do
  let pre ← pkgPre o
  let post ← pkgPost o
  let dev ← pkgDev o
  let loc ← pkgLoc o
  pure (o.epoch, necessaryRelease [o.major, o.minor, o.patch], pre, post, dev, loc)

def encBaseKey (k : BaseKey) : PV :=
  .tup (.cons (.int k.1) (.cons (.int k.2.1) (.cons (.int k.2.2) .nil)))

def encSemKey (k : SemKey) : PV :=
  .tup (.cons (encRelease k.1) (.cons (Sent.enc encLetter k.2) .nil))

def encPkgKey (k : PkgKey) : PV :=
  .tup (.cons (.int k.1) (.cons (encRelease k.2.1) (.cons (Sent.enc encLetter k.2.2.1)
    (.cons (Sent.enc encLetter k.2.2.2.1) (.cons (Sent.enc encLetter k.2.2.2.2.1)
      (.cons (Sent.enc encLocal k.2.2.2.2.2) .nil))))))

/-- the Python tuple each class compares by: `to_tuple()[:3]` / `__extract_tuple()` -/
def key (o : Obj) : R PV :=
  match o.cls with
  | .base => .ok (encBaseKey (baseKey o))
  | .sem => (semKey o).map encSemKey
  | .pkg => (pkgKey o).map encPkgKey

/-- what `__hash__` feeds to `hash` -/
def hashRepr (o : Obj) : R PV :=
  match o.cls with
  | .base => .ok (.tup (PVs.ofList [.int o.major, .int o.minor, .int o.patch]))
  | _ => key o

/-- the right-hand side of a comparison as the API accepts it -/
inductive Other where
  | obj (o : Obj)
  | str (s : Str)
  | tuple (args : List Arg)     -- tuple or list
  | dict (kw : List (Str × Arg))
  | bad                         -- any other type

/-- `compare`'s conversion of `other` -/
def coerce (c : Cls) : Other → R Obj
  | .str s => parse c s
  | .dict kw => constructKw c kw
  | .tuple args => construct c args
  | .obj o => if o.cls = c then .ok o else .error .pyType
  | .bad => .error .pyType

/-- `self.compare(other)` -/
def vcompare (a : Obj) (other : Other) : R Int := do
  let b ← coerce a.cls other
  let ka ← key a
  let kb ← key b
  pvCmp ka kb

inductive Op where | eq | ne | lt | le | gt | ge
  deriving DecidableEq, Repr

/-- the six rich-comparison methods behind the `comparison` decorator: a non-comparable type
    gives NotImplemented, which Python turns into False / True for `==` / `!=` and TypeError for
    the ordering operators -/
def richCmp (op : Op) (a : Obj) (other : Other) : R Bool :=
  match other with
  | .bad => match op with
    | .eq => .ok false
    | .ne => .ok true
    | _ => .error .pyType
  | _ => (vcompare a other).map fun (c : Int) =>
    match op with
    | .eq => c == 0 | .ne => c != 0 | .lt => c < 0 | .le => c ≤ 0 | .gt => c > 0 | .ge => c ≥ 0

-- printing -----------------------------------------------------------------------------------

def Obj.str (o : Obj) : Str :=
  let rel := showNat o.major ++ ['.'] ++ showNat o.minor ++ ['.'] ++ showNat o.patch
  let opt (p : Option Str) (pre : Str) : Str := if truthyStr p then pre ++ p.getD [] else []
  match o.cls with
  | .base => rel
  | .sem => rel ++ opt o.pre ['-'] ++ opt o.build ['+']
  | .pkg =>
    (if o.epoch > 0 then showNat o.epoch ++ ['!'] else []) ++ rel
      ++ opt o.pre [] ++ opt o.post [] ++ opt o.dev [] ++ opt o.loc ['+']

-- bumping ------------------------------------------------------------------------------------

def bumpMajor (o : Obj) : Obj :=
  match o.cls with
  | .pkg => { cls := .pkg, epoch := o.epoch, major := o.major + 1 }
  | c => { cls := c, major := o.major + 1 }

def bumpMinor (o : Obj) : Obj :=
  match o.cls with
  | .pkg => { cls := .pkg, epoch := o.epoch, major := o.major, minor := o.minor + 1 }
  | c => { cls := c, major := o.major, minor := o.minor + 1 }

def bumpPatch (o : Obj) : Obj :=
  match o.cls with
  | .pkg => { cls := .pkg, epoch := o.epoch, major := o.major, minor := o.minor, patch := o.patch + 1 }
  | c => { cls := c, major := o.major, minor := o.minor, patch := o.patch + 1 }

def bumpEpoch (o : Obj) : Obj := { cls := o.cls, epoch := o.epoch + 1 }

/-- `bump_pre(token)`; `token = none` is Python's `None` -/
def bumpPre (o : Obj) (token : Option Str) : Obj :=
  let pre : Str :=
    match o.pre with
    | some p => p
    | Option.none =>
      match token with
      | some [] => "0".toList
      | some t => t ++ ".0".toList
      | Option.none => "rc.0".toList
  let pre := increment pre
  match o.cls with
  | .pkg => { cls := .pkg, epoch := o.epoch, major := o.major, minor := o.minor, patch := o.patch, pre := some pre }
  | c => { cls := c, major := o.major, minor := o.minor, patch := o.patch, pre := some pre }

def orDefault (p : Option Str) (d : String) : Str := if truthyStr p then p.getD [] else d.toList

def bumpPost (o : Obj) : Obj :=
  { cls := .pkg, epoch := o.epoch, major := o.major, minor := o.minor, patch := o.patch, pre := o.pre,
    post := some (increment (orDefault o.post "post0")) }

def bumpDev (o : Obj) : Obj :=
  { cls := .pkg, epoch := o.epoch, major := o.major, minor := o.minor, patch := o.patch, pre := o.pre,
    post := o.post, dev := some (increment (orDefault o.dev "dev0")) }

def bumpLocal (o : Obj) : Obj :=
  { o with loc := some (increment (orDefault o.loc "local0")) }

def bumpBuild (o : Obj) (token : Option Str) : Obj :=
  let b : Str :=
    match o.build with
    | some p => p
    | Option.none =>
      match token with
      | some [] => "0".toList
      | some t => t ++ ".0".toList
      | Option.none => "build.0".toList
  { cls := .sem, major := o.major, minor := o.minor, patch := o.patch, pre := o.pre, build := some (increment b) }

def hasDigit (s : Str) : Bool := s.any isDigitU

/-- `next_version(part)` with the default pre token of each class -/
def nextVersion (o : Obj) (part : Str) : R Obj :=
  if !(validParts o.cls).contains part then .error .pyValue
  else
    let isP (s : String) : Bool := part == s.toList
    let resetCond : Bool :=
      isP "patch" || (isP "minor" && o.patch == 0) || (isP "major" && o.minor == 0 && o.patch == 0)
    match o.cls with
    | .base =>
      if isP "major" then .ok (bumpMajor o) else if isP "minor" then .ok (bumpMinor o)
      else if isP "patch" then .ok (bumpPatch o) else .error .pyAttr
    | .sem =>
      if (truthyStr o.pre || truthyStr o.build) && resetCond then
        .ok { o with pre := Option.none, build := Option.none }
      else if isP "major" then .ok (bumpMajor o) else if isP "minor" then .ok (bumpMinor o)
      else if isP "patch" then .ok (bumpPatch o)
      else
        let v := if !truthyStr o.pre then bumpPatch o else o
        .ok (bumpPre v (some "rc".toList))
    | .pkg =>
      let beforeFinal : Bool := truthyStr o.pre || (truthyStr o.dev && !truthyStr o.post)
      if beforeFinal && resetCond then
        .ok { o with pre := Option.none, post := Option.none, dev := Option.none, loc := Option.none }
      else
        let seg : Option Str :=
          if isP "pre" then o.pre else if isP "post" then o.post else if isP "dev" then o.dev else Option.none
        let v : Obj :=
          if (isP "pre" || isP "post" || isP "dev") && truthyStr seg && !hasDigit (seg.getD []) then
            let seg' := some (seg.getD [] ++ ['0'])
            if isP "pre" then { o with pre := seg' } else if isP "post" then { o with post := seg' }
            else { o with dev := seg' }
          else o
        if isP "pre" then
          let v := if !beforeFinal then bumpPatch v else v
          .ok (bumpPre v (some "a".toList))
        else
          let v := if isP "dev" && !truthyStr v.dev then bumpPatch v else v
          if isP "epoch" then .ok (bumpEpoch v) else if isP "major" then .ok (bumpMajor v)
          else if isP "minor" then .ok (bumpMinor v) else if isP "patch" then .ok (bumpPatch v)
          else if isP "post" then .ok (bumpPost v) else if isP "dev" then .ok (bumpDev v)
          else .error .pyAttr

/-- `replace(**parts)` -/
def replace (o : Obj) (parts : List (Str × Arg)) : R Obj :=
  let merged := parts.foldl (fun acc p => ainsert p.1 p.2 acc) o.toKw
  constructKw o.cls merged

/-- `__setattr__` on a constructed object: every slot is already set, so assignment raises;
    any other name falls through to `object.__setattr__`, which has no such slot. -/
def setattr (o : Obj) (_name : Str) : R Obj × Obj := (.error .pyAttr, o)

-- match --------------------------------------------------------------------------------------

/-- `__validate_expr_match(expr)` : (operator, version text) -/
def validateExprMatch (expr : Str) : R (Str × Str) :=
  let p2 := expr.take 2
  if Gen.match_ops2.contains p2 then .ok (p2, expr.drop 2)
  else
    match p2 with
    | c :: _ =>
      if Gen.match_ops1.contains [c] then .ok ([c], expr.drop 1)
      else if Gen.match_bare_first.contains c then .ok ("==".toList, expr)
      else .error .pyValue
    | [] => .error .pyValue

def possibility (op : Str) : Option (List Int) :=
  (Gen.match_possibilities.find? fun p => p.1 == op).map (·.2)

def mkPlain (c : Cls) (major minor patch : Nat) : Obj := { cls := c, major := major, minor := minor, patch := patch }

/-- upper bound used by `~=` / `~` -/
def tildePair (c : Cls) (w : Obj) : Obj :=
  if w.patch == 0 && w.minor == 0 then mkPlain c (w.major + 1) 0 0
  else if w.patch == 0 && w.minor > 0 then mkPlain c (w.major + 1) 0 0
  else if w.patch > 0 then mkPlain c w.major (w.minor + 1) 0
  else mkPlain c 0 0 0

/-- upper bound used by `^` -/
def caretPair (c : Cls) (w : Obj) : Obj :=
  if w.major > 0 then mkPlain c (w.major + 1) 0 0
  else if w.minor > 0 then mkPlain c 0 (w.minor + 1) 0
  else if w.patch > 0 then mkPlain c 0 0 (w.patch + 1)
  else mkPlain c 0 0 0

/-- the part of `match` after the expression has been split and its version parsed:
    `cmpRes` is `self.compare(match)` -/
def matchCore (v : Obj) (op : Str) (w : Obj) (cmpRes : Int) : R Bool := do
  let poss ← match possibility op with
    | some p => pure p
    | Option.none => .error .pyKey
  if Gen.match_tilde_ops.contains op then
    let c2 ← vcompare v (.obj (tildePair v.cls w))
    pure (poss.contains cmpRes && c2 < 0)
  else if op == ['^'] then
    let c2 ← vcompare v (.obj (caretPair v.cls w))
    pure (poss.contains cmpRes && c2 < 0)
  else pure (poss.contains cmpRes)

/-- `self.match(expr)` -/
def matchExpr (v : Obj) (expr : Str) : R Bool := do
  let (op, m) ← validateExprMatch expr
  match possibility op with
  | Option.none => .error .pyKey
  | some _ =>
    let cmpRes ← vcompare v (.str m)
    let w ← parse v.cls m
    matchCore v op w cmpRes

/-- `cls.extract_wildcard(expr)`: (lower, upper) with `none` = Inf -/
def extractWildcard (c : Cls) (expr : Str) : R (Obj × Option Obj) :=
  if expr == "*".toList then (parse c "0.0.0".toList).map fun o => (o, Option.none)
  else
    let lo := parse c (replaceAll expr "*".toList "0".toList) true
    let hi := parse c (increment (rstripC (replaceAll expr "*".toList []) (· == '.'))) true
    match lo, hi with
    | .ok l, .ok h => .ok (l, some h)
    | .error .pyValue, _ => .error .pyValue
    | .error e, _ => .error e
    | _, .error e => .error e

end Ver
