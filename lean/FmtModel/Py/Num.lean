import FmtModel.Py.Str
/-
  FmtModel.Py.Num — decimal / binary text of naturals and Python's `int(text)`.
-/
namespace Py

/-- `str(n)` for a natural number -/
def showNat (n : Nat) : Str := (toString n).toList

def showInt (i : Int) : Str :=
  match i with
  | .ofNat n => showNat n
  | .negSucc n => '-' :: showNat (n + 1)

def digitVal (c : Char) : Option Nat := digitValU c

/-- value of a non-empty list of ASCII digits in base `b`; `none` on any other character -/
def digitsVal (b : Nat) : Str → Nat → Option Nat
  | [], acc => some acc
  | c :: cs, acc =>
    match digitVal c with
    | some d => if d < b then digitsVal b cs (acc * b + d) else none
    | none => none

/-- remove single underscores between digits, as `int()` does; `none` if misplaced -/
def dropUnderscores : Str → Bool → Option Str
  | [], prevDigit => if prevDigit then some [] else none
  | '_' :: cs, prevDigit =>
    if prevDigit then
      match cs with
      | [] => none
      | '_' :: _ => none
      | _ => dropUnderscores cs false
    else none
  | c :: cs, _ => (dropUnderscores cs true).map (c :: ·)

/-- optional sign in front of the digits -/
def splitSign (t : Str) : Bool × Str :=
  match t with
  | '-' :: r => (true, r)
  | '+' :: r => (false, r)
  | r => (false, r)

/-- optional `0b` / `0B` (and one underscore after it) for base 2 -/
def stripBinPrefix (t : Str) : Str :=
  match t with
  | '0' :: 'b' :: r => (match r with | '_' :: r' => r' | _ => r)
  | '0' :: 'B' :: r => (match r with | '_' :: r' => r' | _ => r)
  | r => r

/-- `int(s)` / `int(s, 2)`: surrounding whitespace, optional sign, digits with single underscores;
    `0b` prefix for base 2.  `none` = ValueError. -/
def pyIntBase (b : Nat) (s : Str) : Option Int :=
  let p := splitSign (stripC s isAsciiSpace)
  let t := if b == 2 then stripBinPrefix p.2 else p.2
  if t.isEmpty then none
  else (dropUnderscores t false).bind fun ds =>
    (digitsVal b ds 0).map fun v => if p.1 then - (v : Int) else (v : Int)

def pyInt (s : Str) : R Int :=
  match pyIntBase 10 s with
  | some v => .ok v
  | none => .error .pyValue

def pyInt2 (s : Str) : R Int :=
  match pyIntBase 2 s with
  | some v => .ok v
  | none => .error .pyValue

/-- insert `sep` every three digits from the right: `f"{n:,}"`, `f"{n:_}"` -/
def showThousands (sep : Char) (n : Nat) : Str :=
  -- walk the reversed digits, emitting a separator before every 4th, 7th, … digit
  let rec go : Str → Nat → Str
    | [], _ => []
    | c :: cs, k => if k == 3 then sep :: c :: go cs 1 else c :: go cs (k + 1)
  (go (showNat n).reverse 0).reverse

/-- binary digits of `n`, most significant first (`"0"` for 0): `f"{n:b}"` -/
def showBin (n : Nat) : Str := (Nat.toDigits 2 n)

/-- `f"{n:0{w}b}"` -/
def showBinPad (w n : Nat) : Str := rjust (showBin n) w '0'

end Py
