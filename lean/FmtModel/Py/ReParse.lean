import FmtModel.Py.Re
import FmtModel.Py.Num
/-
  FmtModel.Py.ReParse — regex text → `RE`, a model of `sre_parse` for the subset fmtutil uses:
  literals, escapes, classes, `\d \s \w \D \S \W`, `.`, groups `(…)` `(?:…)` `(?P<name>…)` `(?!…)`,
  `|`, greedy `* + ? {m} {m,n} {m,} {,n}`, `^ $ \Z`; optional VERBOSE mode.
  Anything else (lazy quantifiers, back-references, flags, look-behind …) yields `none`,
  which the engine reports as `re.error`-like (`reError`); the correspondence check flags any
  input where CPython accepts what this parser refuses.
-/
namespace Py

def isMetaChar (c : Char) : Bool :=
  c == '.' || c == '^' || c == '$' || c == '*' || c == '+' || c == '?' || c == '{' || c == '}' ||
  c == '[' || c == ']' || c == '\\' || c == '|' || c == '(' || c == ')'

def lit (c : Char) : RE := .cls [.range c c] false

def mkSeq (a b : RE) : RE :=
  match a, b with
  | .eps, b => b
  | a, .eps => a
  | a, b => .seq a b

/-- literal text as a regex -/
def lits : Str → RE
  | [] => .eps
  | [c] => lit c
  | c :: cs => .seq (lit c) (lits cs)

def takeDigits : Str → Str × Str
  | [] => ([], [])
  | c :: cs => if isAsciiDigit c then let (d, r) := takeDigits cs; (c :: d, r) else ([], c :: cs)

def natOf (ds : Str) : Nat := (digitsVal 10 ds 0).getD 0

/-- `{m}`, `{m,n}`, `{m,}`, `{,n}` after the opening brace; `none` if not a quantifier
    (CPython then treats `{` as a literal) -/
def parseBraces (s : Str) : Option (Nat × Option Nat × Str) :=
  let (lo, r1) := takeDigits s
  match r1 with
  | '}' :: r2 => if lo.isEmpty then none else some (natOf lo, some (natOf lo), r2)
  | ',' :: r2 =>
    let (hi, r3) := takeDigits r2
    match r3 with
    | '}' :: r4 =>
      some (if lo.isEmpty then 0 else natOf lo, if hi.isEmpty then none else some (natOf hi), r4)
    | _ => none
  | _ => none

/-- escape inside or outside a class: returns the class item(s) it denotes -/
def escItems (c : Char) : Option (List CItem) :=
  if c == 'd' then some [.digit] else if c == 'D' then some [.ndigit]
  else if c == 'w' then some [.word] else if c == 'W' then some [.nword]
  else if c == 's' then some [.space] else if c == 'S' then some [.nspace]
  else if c == 'n' then some [.range '\n' '\n'] else if c == 't' then some [.range '\t' '\t']
  else if c == 'r' then some [.range '\r' '\r'] else if c == 'f' then some [.range '\x0c' '\x0c']
  else if c == 'v' then some [.range '\x0b' '\x0b']
  else if isAsciiAlpha c || isAsciiDigit c then none      -- other alnum escapes: unsupported
  else some [.range c c]

/-- body of a character class after `[` and the optional `^`; `first` = no item read yet
    (a leading `]` is literal) -/
def parseClassItems : Nat → Str → Bool → Option (List CItem × Str)
  | 0, _, _ => none
  | _ + 1, [], _ => none
  | f + 1, c :: cs, first =>
    if c == ']' && !first then some ([], cs)
    else
      -- one atom: escape or plain char
      let atom : Option (List CItem × Option Char × Str) :=
        if c == '\\' then
          match cs with
          | [] => none
          | e :: r => (escItems e).map fun its =>
              (its, (match its with | [.range a _] => some a | _ => none), r)
        else some ([.range c c], some c, cs)
      match atom with
      | none => none
      | some (its, single, r) =>
        -- range `a-b`?
        match single, r with
        | some lo, '-' :: r2 =>
          (match r2 with
           | ']' :: _ =>   -- trailing '-' is literal
             (parseClassItems f r false).map fun (more, r') => (its ++ more, r')
           | '\\' :: e :: r3 =>
             (match escItems e with
              | some [.range hi _] =>
                if lo ≤ hi then (parseClassItems f r3 false).map fun (more, r') => (.range lo hi :: more, r')
                else none
              | _ => none)
           | hi :: r3 =>
             if lo ≤ hi then (parseClassItems f r3 false).map fun (more, r') => (.range lo hi :: more, r')
             else none
           | [] => none)
        | _, _ => (parseClassItems f r false).map fun (more, r') => (its ++ more, r')

def takeName : Str → Str × Str
  | [] => ([], [])
  | c :: cs => if c == '>' then ([], c :: cs) else let (n, r) := takeName cs; (c :: n, r)

/-- skip whitespace and `#…` comments (VERBOSE mode) -/
def skipVerbose : Nat → Str → Str
  | 0, s => s
  | f + 1, s =>
    match s with
    | [] => []
    | c :: cs =>
      if isAsciiSpace c then skipVerbose f cs
      else if c == '#' then skipVerbose f (cs.dropWhile (· != '\n'))
      else s

def applyQuant (a : RE) (s : Str) : Option (RE × Str) :=
  let lazyOrPoss (r : Str) : Bool := match r with | '?' :: _ => true | '+' :: _ => true | _ => false
  match s with
  | '*' :: r => if lazyOrPoss r then none else some (.star a, r)
  | '+' :: r => if lazyOrPoss r then none else some (.plus a, r)
  | '?' :: r => if lazyOrPoss r then none else some (.rep 0 1 a, r)
  | '{' :: r =>
    match parseBraces r with
    | some (m, some n, r') => if lazyOrPoss r' then none else if m ≤ n then some (.rep m n a, r') else none
    | some (m, none, r') => if lazyOrPoss r' then none else some (mkSeq (.rep m m a) (.star a), r')
    | none => some (a, s)
  | _ => some (a, s)

mutual
/-- alternation -/
def pAlt : Nat → Bool → Str → Option (RE × Str)
  | 0, _, _ => none
  | f + 1, vb, s =>
    match pSeq f vb s with
    | none => none
    | some (a, s1) =>
      match s1 with
      | '|' :: s2 =>
        (match pAlt f vb s2 with
         | some (b, s3) => some (.alt a b, s3)
         | none => none)
      | _ => some (a, s1)

/-- concatenation, up to `|`, `)` or the end -/
def pSeq : Nat → Bool → Str → Option (RE × Str)
  | 0, _, _ => none
  | f + 1, vb, s0 =>
    let s := if vb then skipVerbose s0.length s0 else s0
    match s with
    | [] => some (.eps, [])
    | '|' :: _ => some (.eps, s)
    | ')' :: _ => some (.eps, s)
    | _ =>
      match pAtom f vb s with
      | none => none
      | some (a, s1) =>
        let s1 := if vb then skipVerbose s1.length s1 else s1
        match applyQuant a s1 with
        | none => none
        | some (q, s2) =>
          match pSeq f vb s2 with
          | some (b, s3) => some (mkSeq q b, s3)
          | none => none

/-- one atom (without its quantifier) -/
def pAtom : Nat → Bool → Str → Option (RE × Str)
  | 0, _, _ => none
  | f + 1, vb, s =>
    match s with
    | [] => none
    | '(' :: '?' :: ':' :: r =>
      (match pAlt f vb r with
       | some (a, ')' :: r') => some (a, r')
       | _ => none)
    | '(' :: '?' :: '!' :: r =>
      (match pAlt f vb r with
       | some (a, ')' :: r') => some (.nla a, r')
       | _ => none)
    | '(' :: '?' :: 'P' :: '<' :: r =>
      let (nm, r1) := takeName r
      (match r1 with
       | '>' :: r2 =>
         if nm.isEmpty || !(nm.all isAsciiWord) || (nm.head?.map isAsciiDigit).getD false then none
         else
           (match pAlt f vb r2 with
            | some (a, ')' :: r') => some (.grp nm a, r')
            | _ => none)
       | _ => none)
    | '(' :: '?' :: _ => none
    | '(' :: r =>
      (match pAlt f vb r with
       | some (a, ')' :: r') => some (.cgrp a, r')
       | _ => none)
    | '[' :: '^' :: r =>
      (match parseClassItems r.length r true with
       | some (its, r') => some (.cls its true, r')
       | none => none)
    | '[' :: r =>
      (match parseClassItems r.length r true with
       | some (its, r') => some (.cls its false, r')
       | none => none)
    | '.' :: r => some (.any, r)
    | '^' :: r => some (.bol, r)
    | '$' :: r => some (.eol, r)
    | '\\' :: 'Z' :: r => some (.eos, r)
    | '\\' :: e :: r =>
      (match escItems e with
       | some its => some (.cls its false, r)
       | none => none)
    | '\\' :: [] => none
    | '*' :: _ => none
    | '+' :: _ => none
    | '?' :: _ => none
    | c :: r => some (lit c, r)
end

/-- parse a complete pattern -/
def parseRegexWith (verbose : Bool) (s : Str) : Option RE :=
  match pAlt (3 * s.length + 3) verbose s with
  | some (r, []) => some r
  | _ => none

def parseRegex (s : Str) : Option RE := parseRegexWith false s
def parseRegexVerbose (s : Str) : Option RE := parseRegexWith true s

/-- `re.compile(text)` as far as the model is concerned -/
def compileRe (s : Str) : R RE :=
  match parseRegex s with
  | some r => if r.names.eraseDups.length != r.names.length then .error .reError else .ok r
  | none => .error .reError

end Py
