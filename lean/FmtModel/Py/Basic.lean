/-
  FmtModel.Py.Basic — shared vocabulary of the model.

  Strings are `List Char` so that every definition is structurally recursive and
  reduces in the kernel (`decide +kernel`).  Errors are values: the model raises
  where Python raises, and the kind of exception is part of the outcome.
-/

abbrev Str := List Char

/-- Exception kinds that can be observed through the fmtutil API.  The first five are the
    library's `FormatterError` family; the others are Python built-ins that escape. -/
inductive Err where
  | fmtValue      -- FormatterValueError
  | fmtKey        -- FormatterKeyError
  | fmtArg        -- FormatterArgumentError
  | grpValue      -- FormatterGroupValueError
  | grpArg        -- FormatterGroupArgumentError
  | pyValue       -- ValueError
  | pyType        -- TypeError
  | pyKey         -- KeyError
  | pyIndex       -- IndexError
  | pyAttr        -- AttributeError
  | pyNotImpl     -- NotImplementedError
  | decInvalid    -- decimal.InvalidOperation
  | unicodeDecode -- UnicodeDecodeError
  | reError       -- re.error
  | pyOverflow    -- OverflowError
  deriving DecidableEq, Repr, Inhabited

def Err.isFormatterError : Err → Bool
  | .fmtValue | .fmtKey | .fmtArg | .grpValue | .grpArg => true
  | _ => false

def Err.name : Err → String
  | .fmtValue => "FormatterValueError"
  | .fmtKey => "FormatterKeyError"
  | .fmtArg => "FormatterArgumentError"
  | .grpValue => "FormatterGroupValueError"
  | .grpArg => "FormatterGroupArgumentError"
  | .pyValue => "ValueError"
  | .pyType => "TypeError"
  | .pyKey => "KeyError"
  | .pyIndex => "IndexError"
  | .pyAttr => "AttributeError"
  | .pyNotImpl => "NotImplementedError"
  | .decInvalid => "InvalidOperation"
  | .unicodeDecode => "UnicodeDecodeError"
  | .reError => "re.error"
  | .pyOverflow => "OverflowError"

abbrev R := Except Err

instance {ε α : Type} [DecidableEq ε] [DecidableEq α] : DecidableEq (Except ε α) := fun a b =>
  match a, b with
  | .ok x, .ok y => if h : x = y then isTrue (by rw [h]) else isFalse (fun e => h (Except.ok.inj e))
  | .error x, .error y => if h : x = y then isTrue (by rw [h]) else isFalse (fun e => h (Except.error.inj e))
  | .ok _, .error _ => isFalse (fun e => by cases e)
  | .error _, .ok _ => isFalse (fun e => by cases e)

instance : Coe String Str := ⟨String.toList⟩

/-- association-list lookup (first binding wins), the model of `dict[key]` on insertion-ordered
    dictionaries whose keys are distinct -/
def alookup {β} (k : Str) : List (Str × β) → Option β
  | [] => none
  | (k', v) :: rest => if k' = k then some v else alookup k rest

def ainsert {β} (k : Str) (v : β) : List (Str × β) → List (Str × β)
  | [] => [(k, v)]
  | (k', v') :: rest => if k' = k then (k, v) :: rest else (k', v') :: ainsert k v rest

def akeys {β} (l : List (Str × β)) : List Str := l.map (·.1)
