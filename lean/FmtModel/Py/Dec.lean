import FmtModel.Py.Num
import FmtModel.Py.Re
/-
  FmtModel.Py.Dec — the part of Python's `decimal` that the Storage formatter uses, at the default
  context (precision 28, ROUND_HALF_EVEN): construction from text, `*`, `/`, `round(d, 0)` =
  `quantize(1)`, `round(d)`, comparison, `str`.  Transcribed from `_pydecimal.py`.
-/
namespace Py.Dec

structure D where
  neg : Bool := false
  coeff : Nat
  exp : Int
  deriving Repr, DecidableEq, Inhabited

def prec : Nat := 28

def ndigits (n : Nat) : Nat := (showNat n).length

def isZero (d : D) : Bool := d.coeff == 0

/-- keep the `keep` leading digits of `coeff` (which has `len` digits), rounding half to even -/
def roundKeep (coeff len keep : Nat) : Nat :=
  if keep ≥ len then coeff
  else
    let p := 10 ^ (len - keep)
    let q := coeff / p
    let r := coeff % p
    let half := p / 2
    if r > half then q + 1
    else if r < half then q
    else if q % 2 == 1 then q + 1 else q

/-- `_fix`: round to the context precision -/
def fix (d : D) : D :=
  if d.coeff == 0 then d
  else
    let len := ndigits d.coeff
    if len ≤ prec then d
    else
      let c := roundKeep d.coeff len prec
      let e := d.exp + (len - prec : Nat)
      if ndigits c > prec then { d with coeff := c / 10, exp := e + 1 } else { d with coeff := c, exp := e }

def mul (a b : D) : D := fix { neg := a.neg != b.neg, coeff := a.coeff * b.coeff, exp := a.exp + b.exp }

/-- `a / b` (`none` = division by zero) -/
def div (a b : D) : Option D :=
  if b.coeff == 0 then none
  else if a.coeff == 0 then some { neg := a.neg != b.neg, coeff := 0, exp := a.exp - b.exp }
  else
    let shift : Int := (ndigits b.coeff : Int) - (ndigits a.coeff : Int) + (prec : Int) + 1
    let exp0 : Int := a.exp - b.exp - shift
    let (q, r) : Nat × Nat :=
      if shift ≥ 0 then ((a.coeff * 10 ^ shift.toNat) / b.coeff, (a.coeff * 10 ^ shift.toNat) % b.coeff)
      else (a.coeff / (b.coeff * 10 ^ (-shift).toNat), a.coeff % (b.coeff * 10 ^ (-shift).toNat))
    if r != 0 then
      some (fix { neg := a.neg != b.neg, coeff := (if q % 5 == 0 then q + 1 else q), exp := exp0 })
    else
      -- exact: strip trailing zeros towards the ideal exponent
      let ideal : Int := a.exp - b.exp
      let rec strip : Nat → Nat → Int → Nat × Int
        | 0, c, e => (c, e)
        | f + 1, c, e => if e < ideal && c % 10 == 0 then strip f (c / 10) (e + 1) else (c, e)
      let (c, e) := strip 64 q exp0
      some (fix { neg := a.neg != b.neg, coeff := c, exp := e })

/-- `_rescale(0, ROUND_HALF_EVEN)`: the coefficient at exponent 0 -/
def rescale0 (d : D) : Nat :=
  if d.exp ≥ 0 then d.coeff * 10 ^ d.exp.toNat
  else
    let len := ndigits d.coeff
    let drop := (-d.exp).toNat
    if d.coeff == 0 then 0
    else if drop > len then 0            -- fewer than one integer digit and below 0.1: rounds to 0
    else roundKeep d.coeff len (len - drop)

/-- `round(d, 0)` = `d.quantize(Decimal(1))`; `none` = InvalidOperation (more than 28 digits) -/
def quantize0 (d : D) : Option D :=
  if d.coeff == 0 then some { d with exp := 0 }
  else
    let adjusted : Int := d.exp + (ndigits d.coeff : Int) - 1
    if adjusted + 1 > (prec : Int) then none
    else
      let c := rescale0 d
      if ndigits c > prec && c != 0 then none else some { neg := d.neg, coeff := c, exp := 0 }

/-- `round(d)`: nearest integer, ties to even -/
def roundInt (d : D) : Int :=
  let c := rescale0 d
  if d.neg then - (c : Int) else (c : Int)

/-- numeric comparison by aligning the exponents -/
def cmpAligned (a b : D) : Ordering :=
  let e := min a.exp b.exp
  let ca : Int := (if a.neg then -1 else 1) * ((a.coeff * 10 ^ (a.exp - e).toNat : Nat) : Int)
  let cb : Int := (if b.neg then -1 else 1) * ((b.coeff * 10 ^ (b.exp - e).toNat : Nat) : Int)
  compare ca cb

/-- numeric comparison of two numbers whose exponents are far apart, without building the power of ten:
    zero and sign first, then the adjusted exponents (position of the leading digit) -/
def cmpFar (a b : D) : Ordering :=
  let sa : Int := if a.coeff == 0 then 0 else if a.neg then -1 else 1
  let sb : Int := if b.coeff == 0 then 0 else if b.neg then -1 else 1
  if sa != sb then compare sa sb
  else if sa == 0 then .eq
  else
    let adjA : Int := a.exp + (ndigits a.coeff : Int)
    let adjB : Int := b.exp + (ndigits b.coeff : Int)
    if adjA == adjB then cmpAligned a b
    else if sa == 1 then compare adjA adjB else compare adjB adjA

/-- numeric comparison (exact, as `Decimal.__lt__` / `__eq__`); exponents more than 5000 apart (texts such as
    `8e96093022208`) are compared by magnitude instead of by aligning, which is the same order -/
def cmp (a b : D) : Ordering :=
  if (a.exp - b.exp).natAbs > 5000 then cmpFar a b else cmpAligned a b

def eq (a b : D) : Bool := cmp a b == .eq

/-- `str(d)` (scientific string, capitals) -/
def toStr (d : D) : Str :=
  let ds := showNat d.coeff
  let len : Int := ds.length
  let left : Int := d.exp + len
  let dot : Int := if d.exp ≤ 0 && left > -6 then left else 1
  let (ip, fp) : Str × Str :=
    if dot ≤ 0 then (['0'], '.' :: (List.replicate (-dot).toNat '0' ++ ds))
    else if dot ≥ len then (ds ++ List.replicate (dot - len).toNat '0', [])
    else (ds.take dot.toNat, '.' :: ds.drop dot.toNat)
  let ex : Str :=
    if left == dot then []
    else 'E' :: (if left - dot ≥ 0 then '+' :: showInt (left - dot) else showInt (left - dot))
  (if d.neg then ['-'] else []) ++ ip ++ fp ++ ex

def takeDigitsU : Str → Str × Str
  | [] => ([], [])
  | c :: cs => if isDigitU c then let (d, r) := takeDigitsU cs; (c :: d, r) else ([], c :: cs)

/-- `Decimal(text)`; `none` = InvalidOperation (NaN / Infinity spellings are not modelled: they
    cannot come out of the Storage patterns) -/
def ofStr (s : Str) : Option D :=
  let t := (stripC s isSpaceU).filter (· != '_')
  let (neg, t) := match t with
    | '-' :: r => (true, r)
    | '+' :: r => (false, r)
    | r => (false, r)
  let (ip, r1) := takeDigitsU t
  let (fp, r2, hasDot) : Str × Str × Bool := match r1 with
    | '.' :: r => let (f, r') := takeDigitsU r; (f, r', true)
    | r => ([], r, false)
  let _ := hasDot
  if ip.isEmpty && fp.isEmpty then none
  else
    let expPart : Option (Int × Str) := match r2 with
      | c :: r =>
        if c == 'e' || c == 'E' then
          let (sg, r') : Int × Str := match r with
            | '-' :: q => (-1, q)
            | '+' :: q => (1, q)
            | q => (1, q)
          let (ed, r'') := takeDigitsU r'
          if ed.isEmpty then none else (digitsVal 10 ed 0).map fun v => (sg * (v : Int), r'')
        else none
      | [] => some (0, [])
    match expPart with
    | some (e, []) =>
      (digitsVal 10 (ip ++ fp) 0).map fun c => { neg := neg, coeff := c, exp := e - (fp.length : Int) }
    | _ => none

def ofNat (n : Nat) : D := { coeff := n, exp := 0 }

end Py.Dec
