import FmtModel.Py.Str
/-
  FmtModel.Py.Re — a model of CPython's `re` for the subset fmtutil uses.

  `ms r tot s caps` returns *all* ways `r` can consume a prefix of the remaining input `s`, in
  CPython's backtracking priority order (greedy quantifiers longest first, alternation left
  first), each with the input still unread and the named captures so far.  `tot` is the length
  of the whole subject string (so that `^` can tell whether it stands at the beginning).

  All definitions are structurally recursive so that `decide +kernel` can evaluate them.
-/
namespace Py

/-- items of a character class -/
inductive CItem where
  | range (lo hi : Char)
  | digit | ndigit | word | nword | space | nspace
  deriving Repr, DecidableEq, Inhabited

inductive RE where
  | eps : RE
  | cls : List CItem → Bool → RE          -- items, negated?
  | any : RE                              -- `.` (no DOTALL): anything but "\n"
  | seq : RE → RE → RE
  | alt : RE → RE → RE
  | star : RE → RE                        -- greedy `*`
  | rep : Nat → Nat → RE → RE             -- greedy `{m,n}`; `?` is `rep 0 1`
  | plus : RE → RE                        -- greedy `+`
  | grp : Str → RE → RE                   -- `(?P<name>…)`
  | cgrp : RE → RE                        -- `( … )` numbered capture (not observable via groupdict)
  | nla : RE → RE                         -- `(?!…)`
  | bol : RE                              -- `^`
  | eol : RE                              -- `$`  (end, or before a final "\n")
  | eos : RE                              -- `\Z`
  deriving Repr, DecidableEq, Inhabited

abbrev Caps := List (Str × Str)           -- newest first; lookup takes the first binding
abbrev Res := List (Str × Caps)

/-- `\w`: exact on ASCII; beyond ASCII the model knows the Latin-1/Latin Extended letters, Cyrillic, kana,
    CJK unified ideographs, Hangul syllables (whole blocks that CPython's `\w` accepts — checked against `re`) and the
    BMP decimal digits (documented limit, DESIGN §3.3) -/
def isWordU (c : Char) : Bool :=
  isAsciiWord c || isDigitU c ||
  (let n := c.toNat
   n == 0xAA || n == 0xB5 || n == 0xBA || n == 0xB2 || n == 0xB3 || n == 0xB9 ||
   (0xBC ≤ n && n ≤ 0xBE) ||
   (0xC0 ≤ n && n ≤ 0x24F && n != 0xD7 && n != 0xF7) ||
   (0x400 ≤ n && n ≤ 0x481) || (0x48A ≤ n && n ≤ 0x52F) || (0x3041 ≤ n && n ≤ 0x3096) || (0x30A1 ≤ n && n ≤ 0x30FA) ||
   (0x4E00 ≤ n && n ≤ 0x9FFF) || (0xAC00 ≤ n && n ≤ 0xD7A3))

def isSpaceU (c : Char) : Bool :=
  isAsciiSpace c ||
  (let n := c.toNat
   n == 0x85 || n == 0xA0 || n == 0x1680 || (0x2000 ≤ n && n ≤ 0x200A) ||
   n == 0x2028 || n == 0x2029 || n == 0x202F || n == 0x205F || n == 0x3000)

def CItem.has (c : Char) : CItem → Bool
  | .range lo hi => lo ≤ c && c ≤ hi
  | .digit => isDigitU c
  | .ndigit => !isDigitU c
  | .word => isWordU c
  | .nword => !isWordU c
  | .space => isSpaceU c
  | .nspace => !isSpaceU c

def inCls (items : List CItem) (neg : Bool) (c : Char) : Bool :=
  (items.any fun i => i.has c) != neg

/-- greedy `*`: iterate `body` while it consumes something, longest first -/
def starL (body : Str → Caps → Res) : Nat → Str → Caps → Res
  | 0, s, c => [(s, c)]
  | f + 1, s, c =>
    ((body s c).filter (fun p => p.1.length < s.length)).flatMap
      (fun p => starL body f p.1 p.2) ++ [(s, c)]

/-- greedy `{m,n}` -/
def repL (body : Str → Caps → Res) : Nat → Nat → Str → Caps → Res
  | m, 0, s, c => if m = 0 then [(s, c)] else []
  | m, n + 1, s, c =>
    ((body s c).flatMap fun p => repL body (m - 1) n p.1 p.2)
      ++ (if m = 0 then [(s, c)] else [])

def ms : RE → Nat → Str → Caps → Res
  | .eps, _, s, c => [(s, c)]
  | .cls items n, _, s, c => match s with
      | [] => []
      | x :: xs => if inCls items n x then [(xs, c)] else []
  | .any, _, s, c => match s with
      | [] => []
      | x :: xs => if x != '\n' then [(xs, c)] else []
  | .seq a b, t, s, c => (ms a t s c).flatMap fun p => ms b t p.1 p.2
  | .alt a b, t, s, c => ms a t s c ++ ms b t s c
  | .star a, t, s, c => starL (ms a t) s.length s c
  | .plus a, t, s, c => (ms a t s c).flatMap fun p => starL (ms a t) p.1.length p.1 p.2
  | .rep m n a, t, s, c => repL (ms a t) m n s c
  | .grp nm a, t, s, c => (ms a t s c).map fun p =>
      (p.1, (nm, s.take (s.length - p.1.length)) :: p.2)
  | .cgrp a, t, s, c => ms a t s c
  | .nla a, t, s, c => if (ms a t s c).isEmpty then [(s, c)] else []
  | .bol, t, s, c => if s.length = t then [(s, c)] else []
  | .eol, _, s, c => if s.isEmpty || s == ['\n'] then [(s, c)] else []
  | .eos, _, s, c => if s.isEmpty then [(s, c)] else []

/-- `re.match(r, s)`: the preferred match at position 0 (rest of the input, captures) -/
def matchAt (r : RE) (tot : Nat) (s : Str) : Option (Str × Caps) := (ms r tot s []).head?

/-- `re.search(r, s)`: leftmost start position, preferred match there.
    Returns (start offset, rest after the match, captures). -/
def searchFrom (r : RE) (tot : Nat) : Nat → Str → Option (Nat × Str × Caps)
  | i, [] => (matchAt r tot []).map fun p => (i, p.1, p.2)
  | i, x :: xs =>
    match matchAt r tot (x :: xs) with
    | some p => some (i, p.1, p.2)
    | none => searchFrom r tot (i + 1) xs

def search (r : RE) (s : Str) : Option (Nat × Str × Caps) := searchFrom r s.length 0 s

/-- names of the named groups in pattern order (the key order of `groupdict()`) -/
def RE.names : RE → List Str
  | .seq a b | .alt a b => a.names ++ b.names
  | .star a | .plus a | .rep _ _ a | .cgrp a | .nla a => a.names
  | .grp n a => n :: a.names
  | _ => []

/-- `m.groupdict()`: every named group of the pattern, `none` when it did not participate -/
def groupdict (r : RE) (caps : Caps) : List (Str × Option Str) :=
  r.names.map fun n => (n, alookup n caps)

/-- all non-overlapping matches left to right (`re.finditer`): (start, end, matched text, caps).
    An empty match advances by one character, as CPython does. -/
def finditerGo (r : RE) (tot : Nat) : Nat → Nat → Str → List (Nat × Nat × Str × Caps)
  | 0, _, _ => []
  | f + 1, pos, s =>
    match searchFrom r tot pos s with
    | none => []
    | some (st, rest, caps) =>
      let s' := s.drop (st - pos)
      let len := s'.length - rest.length
      let item := (st, st + len, s'.take len, caps)
      if len = 0 then
        match s' with
        | [] => [item]
        | _ :: tl => item :: finditerGo r tot f (st + 1) tl
      else item :: finditerGo r tot f (st + len) rest

def finditer (r : RE) (s : Str) : List (Nat × Nat × Str × Caps) :=
  finditerGo r s.length (s.length + 1) 0 s

end Py
