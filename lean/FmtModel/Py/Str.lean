import FmtModel.Py.Basic
/-
  FmtModel.Py.Str — the `str` methods fmtutil calls, on `List Char`.
  ASCII case mapping only (the call sites are behind ASCII-only patterns; see DESIGN §3.3).
-/
namespace Py

def isAsciiDigit (c : Char) : Bool := '0' ≤ c && c ≤ '9'
def isAsciiLower (c : Char) : Bool := 'a' ≤ c && c ≤ 'z'
def isAsciiUpper (c : Char) : Bool := 'A' ≤ c && c ≤ 'Z'
def isAsciiAlpha (c : Char) : Bool := isAsciiLower c || isAsciiUpper c
def isAsciiWord (c : Char) : Bool := isAsciiAlpha c || isAsciiDigit c || c == '_'
/-- Python `str.isspace` / `\s` on ASCII: space, \t \n \r \v \f and the separators 0x1c..0x1f -/
def isAsciiSpace (c : Char) : Bool :=
  c == ' ' || (9 ≤ c.toNat && c.toNat ≤ 13) || (28 ≤ c.toNat && c.toNat ≤ 31)

/-- Unicode decimal digits outside ASCII come in blocks of ten; (BMP only; the translator
    re-derives the table from the running interpreter and refuses to continue if it differs). -/
def ndBlocks : List (Nat × Nat) :=
  [(0x660,0x669),(0x6F0,0x6F9),(0x7C0,0x7C9),(0x966,0x96F),(0x9E6,0x9EF),(0xA66,0xA6F),
   (0xAE6,0xAEF),(0xB66,0xB6F),(0xBE6,0xBEF),(0xC66,0xC6F),(0xCE6,0xCEF),(0xD66,0xD6F),
   (0xDE6,0xDEF),(0xE50,0xE59),(0xED0,0xED9),(0xF20,0xF29),(0x1040,0x1049),(0x1090,0x1099),
   (0x17E0,0x17E9),(0x1810,0x1819),(0x1946,0x194F),(0x19D0,0x19D9),(0x1A80,0x1A89),
   (0x1A90,0x1A99),(0x1B50,0x1B59),(0x1BB0,0x1BB9),(0x1C40,0x1C49),(0x1C50,0x1C59),
   (0xA620,0xA629),(0xA8D0,0xA8D9),(0xA900,0xA909),(0xA9D0,0xA9D9),(0xA9F0,0xA9F9),
   (0xAA50,0xAA59),(0xABF0,0xABF9),(0xFF10,0xFF19)]

def isDigitU (c : Char) : Bool :=
  isAsciiDigit c || (c.toNat ≥ 128 && ndBlocks.any fun (a, b) => a ≤ c.toNat && c.toNat ≤ b)

/-- decimal value of a (Unicode, BMP) decimal digit, as `int()` reads it -/
def digitValU (c : Char) : Option Nat :=
  if isAsciiDigit c then some (c.toNat - 48)
  else if c.toNat ≥ 128 then
    (ndBlocks.find? fun (a, b) => a ≤ c.toNat && c.toNat ≤ b).map fun (a, _) => (c.toNat - a) % 10
  else none

def lowerC (c : Char) : Char := if isAsciiUpper c then Char.ofNat (c.toNat + 32) else c
def upperC (c : Char) : Char := if isAsciiLower c then Char.ofNat (c.toNat - 32) else c

def lower (s : Str) : Str := s.map lowerC
def upper (s : Str) : Str := s.map upperC
/-- `str.capitalize` (ASCII): first character upper, the rest lower -/
def capitalize : Str → Str
  | [] => []
  | c :: cs => upperC c :: lower cs

def startsWith (s p : Str) : Bool := p.isPrefixOf s
def endsWith (s p : Str) : Bool := p.isSuffixOf s

def removePrefix (s p : Str) : Str := if p.isPrefixOf s then s.drop p.length else s
def removeSuffix (s p : Str) : Str :=
  if p != [] && p.isSuffixOf s then s.take (s.length - p.length) else s

/-- `sub in s` -/
def contains (s sub : Str) : Bool :=
  match s with
  | [] => sub.isEmpty
  | c :: cs => sub.isPrefixOf (c :: cs) || contains cs sub

/-- `s.index(sub)` as an option (`none` = ValueError) -/
def indexOf (s sub : Str) : Option Nat :=
  match s with
  | [] => if sub.isEmpty then some 0 else none
  | c :: cs => if sub.isPrefixOf (c :: cs) then some 0 else (indexOf cs sub).map (· + 1)

/-- worker for `replace`: `skip` characters of a match still have to be dropped;
    `cnt = none` replaces every occurrence, `some k` at most `k` -/
def replaceGo (old new : Str) : Option Nat → Nat → Str → Str
  | _, _, [] => []
  | cnt, skip + 1, _ :: cs => replaceGo old new cnt skip cs
  | cnt, 0, c :: cs =>
    if cnt != some 0 && old.isPrefixOf (c :: cs) then
      new ++ replaceGo old new (cnt.map (· - 1)) (old.length - 1) cs
    else c :: replaceGo old new cnt 0 cs

/-- `s.replace(old, new)` for non-empty `old` (every call site passes a non-empty `old`;
    for empty `old` the string is returned unchanged, which the callers never observe) -/
def replaceAll (s old new : Str) : Str :=
  if old.isEmpty then s else replaceGo old new none 0 s

/-- `s.replace(old, new, 1)` -/
def replaceFirst (s old new : Str) : Str :=
  if old.isEmpty then s else replaceGo old new (some 1) 0 s

def lstripC (s : Str) (p : Char → Bool) : Str := s.dropWhile p
def rstripC (s : Str) (p : Char → Bool) : Str := (s.reverse.dropWhile p).reverse
def stripC (s : Str) (p : Char → Bool) : Str := rstripC (lstripC s p) p

/-- `s.rjust(w, c)` -/
def rjust (s : Str) (w : Nat) (c : Char) : Str := List.replicate (w - s.length) c ++ s

/-- `sep.join(parts)` -/
def join (sep : Str) : List Str → Str
  | [] => []
  | [x] => x
  | x :: xs => x ++ sep ++ join sep xs

/-- worker for `split(sep)`: `cur` is the current piece reversed -/
def splitGo (sep : Str) : Nat → Str → Str → List Str
  | _, cur, [] => [cur.reverse]
  | skip + 1, cur, _ :: cs => splitGo sep skip cur cs
  | 0, cur, c :: cs =>
    if sep.isPrefixOf (c :: cs) then cur.reverse :: splitGo sep (sep.length - 1) [] cs
    else splitGo sep 0 (c :: cur) cs

/-- `s.split(sep)` for non-empty `sep` -/
def splitOn (s sep : Str) : List Str :=
  if sep.isEmpty then [s] else splitGo sep 0 [] s

/-- `s.split(sep, maxsplit=1)[0]` -/
def splitFirst (s sep : Str) : Str := (splitOn s sep).headD []

/-- worker for `split()` (whitespace): -/
def splitWsGo (isSp : Char → Bool) : Str → Str → List Str
  | cur, [] => if cur.isEmpty then [] else [cur.reverse]
  | cur, c :: cs =>
    if isSp c then (if cur.isEmpty then splitWsGo isSp [] cs else cur.reverse :: splitWsGo isSp [] cs)
    else splitWsGo isSp (c :: cur) cs

/-- `s.split()` -/
def splitWs (s : Str) : List Str := splitWsGo isAsciiSpace [] s

/-- split on any character satisfying `p` (the model of `re.compile("[._-]").split`) -/
def splitOnChars (p : Char → Bool) : Str → Str → List Str
  | cur, [] => [cur.reverse]
  | cur, c :: cs => if p c then cur.reverse :: splitOnChars p [] cs else splitOnChars p (c :: cur) cs

end Py
