import FmtModel.Py.Str
/-
  FmtModel.Py.Cmp — Python's rich comparison on the values fmtutil puts into comparison keys:
  ints, strs, tuples, and the sentinels `Inf` / `NegInf` of `fmtutil/__type.py`.

  `InfObject.__lt__` is constantly False and `__gt__` constantly True (dually for `NegInf`);
  an int, str or tuple on the left returns NotImplemented against a sentinel, so Python
  falls back to the sentinel's reflected method.  int against str, or tuple against int/str,
  raises TypeError.
-/
namespace Py

mutual
inductive PV where
  | int (i : Int)
  | str (s : Str)
  | tup (l : PVs)
  | inf
  | ninf
inductive PVs where
  | nil
  | cons (h : PV) (t : PVs)
end

def PVs.ofList : List PV → PVs
  | [] => .nil
  | x :: xs => .cons x (PVs.ofList xs)

def strLt : Str → Str → Bool
  | [], [] => false
  | [], _ :: _ => true
  | _ :: _, [] => false
  | a :: as, b :: bs => if a < b then true else if b < a then false else strLt as bs

mutual
/-- `a == b` -/
def pvEq : PV → PV → Bool
  | .int a, .int b => a == b
  | .str a, .str b => a == b
  | .tup a, .tup b => pvsEq a b
  | .inf, .inf => true
  | .ninf, .ninf => true
  | _, _ => false
def pvsEq : PVs → PVs → Bool
  | .nil, .nil => true
  | .cons a as, .cons b bs => pvEq a b && pvsEq as bs
  | _, _ => false
end

mutual
/-- `a < b` (`none` = TypeError) -/
def pvLt : PV → PV → Option Bool
  | .inf, _ => some false
  | .ninf, _ => some true
  | _, .inf => some true          -- reflected `Inf.__gt__`
  | _, .ninf => some false        -- reflected `NegInf.__gt__`
  | .int a, .int b => some (decide (a < b))
  | .str a, .str b => some (strLt a b)
  | .tup a, .tup b => pvsLt a b
  | _, _ => none
def pvsLt : PVs → PVs → Option Bool
  | .nil, .nil => some false
  | .nil, .cons _ _ => some true
  | .cons _ _, .nil => some false
  | .cons a as, .cons b bs => if pvEq a b then pvsLt as bs else pvLt a b
end

mutual
/-- `a > b` (`none` = TypeError) -/
def pvGt : PV → PV → Option Bool
  | .inf, _ => some true
  | .ninf, _ => some false
  | _, .inf => some false         -- reflected `Inf.__lt__`
  | _, .ninf => some true         -- reflected `NegInf.__lt__`
  | .int a, .int b => some (decide (a > b))
  | .str a, .str b => some (strLt b a)
  | .tup a, .tup b => pvsGt a b
  | _, _ => none
def pvsGt : PVs → PVs → Option Bool
  | .nil, .nil => some false
  | .nil, .cons _ _ => some false
  | .cons _ _, .nil => some true
  | .cons a as, .cons b bs => if pvEq a b then pvsGt as bs else pvGt a b
end

/-- `cmp(a, b) = (a > b) - (a < b)` of `fmtutil/__version.py` -/
def pvCmp (a b : PV) : R Int :=
  match pvGt a b, pvLt a b with
  | some g, some l => .ok ((if g then 1 else 0) - (if l then 1 else 0))
  | _, _ => .error .pyType

end Py
