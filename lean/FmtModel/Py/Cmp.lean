import FmtModel.Py.Str
/-
  FmtModel.Py.Cmp — Python's rich comparison on the values fmtutil puts into comparison keys:
  ints, strs, tuples, and the sentinels `Inf` / `NegInf` of `fmtutil/__type.py`.

  `InfObject.__lt__` is constantly False and `__gt__` constantly True (dually for `NegInf`);
  an int, str or tuple on the left returns NotImplemented against a sentinel, so Python
  falls back to the sentinel's reflected method.  int against str, or tuple against int/str,
  raises TypeError.
-/
namespace Py

mutual
inductive PV where
  | int (i : Int)
  | str (s : Str)
  | tup (l : PVs)
  | inf
  | ninf
inductive PVs where
  | nil
  | cons (h : PV) (t : PVs)
end

deriving instance DecidableEq for PV, PVs

def PVs.ofList : List PV → PVs
  | [] => .nil
  | x :: xs => .cons x (PVs.ofList xs)

/-- `a < b` on strs: lexicographic by code point -/
def strLt (a b : Str) : Bool := compare a b == .lt

mutual
/-- `a == b` -/
def pvEq : PV → PV → Bool
  | .int a, .int b => a == b
  | .str a, .str b => a == b
  | .tup a, .tup b => pvsEq a b
  | .inf, .inf => true
  | .ninf, .ninf => true
  | _, _ => false
def pvsEq : PVs → PVs → Bool
  | .nil, .nil => true
  | .cons a as, .cons b bs => pvEq a b && pvsEq as bs
  | _, _ => false
end

mutual
/-- `a < b` (`none` = TypeError) -/
def pvLt : PV → PV → Option Bool
  | .inf, _ => some false
  | .ninf, _ => some true
  | _, .inf => some true          -- reflected `Inf.__gt__`
  | _, .ninf => some false        -- reflected `NegInf.__gt__`
  | .int a, .int b => some (decide (a < b))
  | .str a, .str b => some (strLt a b)
  | .tup a, .tup b => pvsLt a b
  | _, _ => none
def pvsLt : PVs → PVs → Option Bool
  | .nil, .nil => some false
  | .nil, .cons _ _ => some true
  | .cons _ _, .nil => some false
  | .cons a as, .cons b bs => if pvEq a b then pvsLt as bs else pvLt a b
end

mutual
/-- `a > b` (`none` = TypeError) -/
def pvGt : PV → PV → Option Bool
  | .inf, _ => some true
  | .ninf, _ => some false
  | _, .inf => some false         -- reflected `Inf.__lt__`
  | _, .ninf => some true         -- reflected `NegInf.__lt__`
  | .int a, .int b => some (decide (a > b))
  | .str a, .str b => some (strLt b a)
  | .tup a, .tup b => pvsGt a b
  | _, _ => none
def pvsGt : PVs → PVs → Option Bool
  | .nil, .nil => some false
  | .nil, .cons _ _ => some false
  | .cons _ _, .nil => some true
  | .cons a as, .cons b bs => if pvEq a b then pvsGt as bs else pvGt a b
end

/-- `cmp(a, b) = (a > b) - (a < b)` of `fmtutil/__version.py` -/
def pvCmp (a b : PV) : R Int :=
  match pvGt a b, pvLt a b with
  | some g, some l => .ok ((if g then 1 else 0) - (if l then 1 else 0))
  | _, _ => .error .pyType

/-- lexicographic order on pairs (the order of Python tuples of fixed length) -/
instance instOrdProdLex {α β} [Ord α] [Ord β] : Ord (α × β) := lexOrd

/-- a value, or one of fmtutil's sentinels: `NegInf` below every value, `Inf` above -/
inductive Sent (α : Type) where
  | ninf
  | val (a : α)
  | inf
  deriving Repr, DecidableEq

def Sent.rank {α} : Sent α → Nat × Option α
  | .ninf => (0, none)
  | .val a => (1, some a)
  | .inf => (2, none)

instance {α} [Ord α] : Ord (Sent α) := ⟨compareOn Sent.rank⟩

def Sent.enc {α} (e : α → PV) : Sent α → PV
  | .ninf => .ninf
  | .val a => e a
  | .inf => .inf

/-- `(s, n)` as a 2-tuple -/
def encLetter (p : Str × Int) : PV := .tup (.cons (.str p.1) (.cons (.int p.2) .nil))

/-- one item of a local label: `(i, "")` for a number, `(NegInf, s)` for text -/
def encLocItem (p : Sent Int × Str) : PV :=
  .tup (.cons (Sent.enc (fun i => PV.int i) p.1) (.cons (.str p.2) .nil))

def encLocal (l : List (Sent Int × Str)) : PV := .tup (PVs.ofList (l.map encLocItem))

def encRelease (l : List Nat) : PV := .tup (PVs.ofList (l.map fun (n : Nat) => PV.int (n : Int)))

end Py
