import FmtModel.Py.Num
/-
  FmtModel.Py.Cal — the parts of `datetime` that fmtutil's Datetime formatter calls: proleptic
  Gregorian ordinals, `strftime` for the directives in use (C locale), `fromisoformat` for the one
  shape the formatter builds, `strptime("%Y")`, `strptime("%Y-W%U-%w" / "%Y-W%W-%w")` with CPython's
  `_calc_julian_from_U_or_W`, and `+ timedelta(days=k)`.
-/
namespace Py.Cal

structure DT where
  year : Nat
  month : Nat
  day : Nat
  hour : Nat := 0
  minute : Nat := 0
  second : Nat := 0
  micro : Nat := 0
  deriving Repr, DecidableEq, Inhabited

def isLeap (y : Nat) : Bool := y % 4 == 0 && (y % 100 != 0 || y % 400 == 0)

def daysInMonth (y m : Nat) : Nat :=
  if m == 2 then (if isLeap y then 29 else 28)
  else if m == 4 || m == 6 || m == 9 || m == 11 then 30
  else if 1 ≤ m && m ≤ 12 then 31 else 0

/-- days before 1 January of year `y` (y ≥ 1) -/
def daysBeforeYear (y : Nat) : Nat :=
  let p := y - 1
  p * 365 + p / 4 - p / 100 + p / 400

def daysBeforeMonthGo (y : Nat) : Nat → Nat
  | 0 => 0
  | k + 1 => daysBeforeMonthGo y k + daysInMonth y (k + 1)

/-- days of year `y` before the first of month `m` -/
def daysBeforeMonth (y m : Nat) : Nat := daysBeforeMonthGo y (m - 1)

def daysInYear (y : Nat) : Nat := if isLeap y then 366 else 365

/-- 1-based day of the year -/
def yday (y m d : Nat) : Nat := daysBeforeMonth y m + d

/-- proleptic Gregorian ordinal, 0001-01-01 = 1 -/
def toOrdinal (y m d : Nat) : Nat := daysBeforeYear y + yday y m d

/-- Monday = 0 … Sunday = 6 -/
def weekdayMon (ord : Nat) : Nat := (ord + 6) % 7

/-- Sunday = 0 … Saturday = 6 (`%w`) -/
def weekdaySun (ord : Nat) : Nat := ord % 7

/-- (month, day) of the 1-based day-of-year `n` of year `y`, walking the months -/
def monthDayGo (y : Nat) : Nat → Nat → Nat → Nat × Nat
  | 0, m, n => (m, n)
  | f + 1, m, n =>
    let dim := daysInMonth y m
    if n ≤ dim || m ≥ 12 then (m, n) else monthDayGo y f (m + 1) (n - dim)

def monthDay (y n : Nat) : Nat × Nat := monthDayGo y 12 1 n

/-- year and 1-based day-of-year of an ordinal: candidate year by division, corrected by at most
    two steps -/
def ordToYearDay (ord : Nat) : Nat × Nat :=
  let y0 := (ord - 1) / 366 + 1          -- never too large
  let rec go : Nat → Nat → Nat
    | 0, y => y
    | f + 1, y => if daysBeforeYear (y + 1) < ord then go f (y + 1) else y
  let y := go 40 y0
  (y, ord - daysBeforeYear y)

def ofOrdinal (ord : Nat) : Nat × Nat × Nat :=
  let (y, n) := ordToYearDay ord
  let (m, d) := monthDay y n
  (y, m, d)

def validDate (y m d : Nat) : Bool := 1 ≤ y && y ≤ 9999 && 1 ≤ m && m ≤ 12 && 1 ≤ d && d ≤ daysInMonth y m

def pad (w : Nat) (n : Nat) : Str := rjust (showNat n) w '0'

def monthAbbr : List Str := ["Jan", "Feb", "Mar", "Apr", "May", "Jun", "Jul", "Aug", "Sep", "Oct", "Nov", "Dec"].map String.toList
def monthFull : List Str := ["January", "February", "March", "April", "May", "June", "July", "August",
  "September", "October", "November", "December"].map String.toList
def dayAbbr : List Str := ["Sun", "Mon", "Tue", "Wed", "Thu", "Fri", "Sat"].map String.toList
def dayFull : List Str := ["Sunday", "Monday", "Tuesday", "Wednesday", "Thursday", "Friday", "Saturday"].map String.toList

/-- one strftime directive (C locale) -/
def strftime1 (c : Char) (t : DT) : Option Str :=
  let ord := toOrdinal t.year t.month t.day
  let w := weekdaySun ord
  let yd0 := yday t.year t.month t.day - 1
  if c == 'Y' then some (showNat t.year)
  else if c == 'y' then some (pad 2 (t.year % 100))
  else if c == 'm' then some (pad 2 t.month)
  else if c == 'b' then some (monthAbbr.getD (t.month - 1) [])
  else if c == 'B' then some (monthFull.getD (t.month - 1) [])
  else if c == 'a' then some (dayAbbr.getD w [])
  else if c == 'A' then some (dayFull.getD w [])
  else if c == 'w' then some (showNat w)
  else if c == 'u' then some (showNat (if w == 0 then 7 else w))
  else if c == 'd' then some (pad 2 t.day)
  else if c == 'H' then some (pad 2 t.hour)
  else if c == 'I' then some (pad 2 (if t.hour % 12 == 0 then 12 else t.hour % 12))
  else if c == 'M' then some (pad 2 t.minute)
  else if c == 'S' then some (pad 2 t.second)
  else if c == 'j' then some (pad 3 (yd0 + 1))
  else if c == 'U' then some (pad 2 ((yd0 + 7 - w) / 7))
  else if c == 'W' then some (pad 2 ((yd0 + 7 - ((w + 6) % 7)) / 7))
  else if c == 'p' then some (if t.hour < 12 then "AM".toList else "PM".toList)
  else if c == 'f' then some (pad 6 t.micro)
  else if c == '%' then some ['%']
  else none

/-- `t.strftime(fmt)` for the directives above; anything else is kept as written -/
def strftime : Str → DT → Str
  | [], _ => []
  | '%' :: c :: rest, t =>
    match strftime1 c t with
    | some s => s ++ strftime rest t
    | none => '%' :: c :: strftime rest t
  | c :: rest, t => c :: strftime rest t

def asciiNum (s : Str) : Option Nat :=
  if !s.isEmpty && s.all isAsciiDigit then digitsVal 10 s 0 else none

/-- `datetime.fromisoformat` on the text `YYYY-MM-DD HH:MM:SS.ffffff` the formatter builds from
    its attributes (each attribute text is taken as it is; any other shape is a ValueError) -/
def fromIso (year month day hour minute second micro : Str) : R DT :=
  if year.length != 4 || month.length != 2 || day.length != 2 || hour.length != 2 || minute.length != 2
      || second.length != 2 || micro.length != 6 then .error .pyValue
  else
    match asciiNum year, asciiNum month, asciiNum day, asciiNum hour, asciiNum minute, asciiNum second, asciiNum micro with
    | some y, some mo, some d, some h, some mi, some s, some us =>
      if validDate y mo d && h ≤ 23 && mi ≤ 59 && s ≤ 59 then
        .ok { year := y, month := mo, day := d, hour := h, minute := mi, second := s, micro := us }
      else .error .pyValue
    | _, _, _, _, _, _, _ => .error .pyValue

/-- `datetime.strptime(f"{y}-{m}-{d}", "%Y-%m-%d")` for attribute texts -/
def strptimeYmd (year month day : Str) : R DT :=
  match asciiNum year, asciiNum month, asciiNum day with
  | some y, some mo, some d =>
    if year.length == 4 && month.length ≤ 2 && day.length ≤ 2 && validDate y mo d then .ok { year := y, month := mo, day := d }
    else .error .pyValue
  | _, _, _ => .error .pyValue

/-- `datetime.strptime(year, "%Y") + timedelta(days=k)` (k may be negative): 1 January plus k days;
    leaving 0001..9999 is an OverflowError -/
def yearPlusDays (year : Str) (k : Int) : R DT :=
  match asciiNum year with
  | some y =>
    if year.length != 4 || y == 0 then .error .pyValue
    else
      let ord : Int := (toOrdinal y 1 1 : Nat) + k
      if ord < 1 || ord > 3652059 then .error .pyOverflow
      else
        let (yy, m, d) := ofOrdinal ord.toNat
        .ok { year := yy, month := m, day := d }
  | none => .error .pyValue

/-- `_strptime._calc_julian_from_U_or_W` -/
def calcJulian (year week : Nat) (dayOfWeekMon : Nat) (weekStartsMon : Bool) : Int :=
  let fw0 := weekdayMon (toOrdinal year 1 1)
  let fw := if weekStartsMon then fw0 else (fw0 + 1) % 7
  let dow := if weekStartsMon then dayOfWeekMon else (dayOfWeekMon + 1) % 7
  let week0 := (7 - fw) % 7
  if week == 0 then (1 : Int) + dow - fw
  else (1 : Int) + (week0 + 7 * (week - 1) : Nat) + dow

/-- `datetime.strptime(f"{year}-W{week}-{w}", "%Y-W%U-%w" | "%Y-W%W-%w")` -/
def strptimeWeek (year week wday : Str) (weekStartsMon : Bool) : R DT :=
  match asciiNum year, asciiNum week, asciiNum wday with
  | some y, some wk, some wd =>
    -- %U/%W: 5[0-3]|[0-4]\d|\d ; %w: [0-6]; the whole text must be consumed
    if year.length != 4 || y == 0 || week.length == 0 || week.length > 2 || wk > 53 || wday.length != 1 || wd > 6 then
      .error .pyValue
    else
      let dowMon := if wd == 0 then 6 else wd - 1
      let j := calcJulian y wk dowMon weekStartsMon
      let (y', j') : Nat × Int := if j ≤ 0 then (y - 1, j + (daysInYear (y - 1) : Nat)) else (y, j)
      if y' == 0 then .error .pyValue
      else
        let ord : Int := j' - 1 + (toOrdinal y' 1 1 : Nat)
        if ord < 1 || ord > 3652059 then .error .pyValue
        else
          let (yy, m, d) := ofOrdinal ord.toNat
          .ok { year := yy, month := m, day := d }
  | _, _, _ => .error .pyValue

end Py.Cal
