import FmtModel.Py.ReParse
import FmtModel.Py.Num
import FmtModel.Generated.Esc
/-
  FmtModel.Esc — `utils.escape_fmt_group`, `utils.unescape`, `re.escape`, and UTF-8 decoding of bytes
  input (`utils.bytes2str`).
-/
namespace Esc
open Py

/-- `re.escape(s)`: a backslash in front of every character of the interpreter's special set -/
def reEscape (s : Str) : Str := s.flatMap fun c => if Gen.re_escape_chars.contains c then ['\\', c] else [c]

/-- `re.sub(r"\\(.)", r"\1", value, flags=re.DOTALL)`: left to right, a backslash followed by any character
    becomes that character; a trailing lone backslash stays -/
def unescape : Str → Str
  | [] => []
  | [c] => [c]
  | c :: d :: rest => if c = '\\' then d :: unescape rest else c :: unescape (d :: rest)

def sentinel (i : Nat) : Str :=
  Gen.escape_sentinel_pre ++ rjust (showNat i) Gen.escape_sentinel_width '0' ++ Gen.escape_sentinel_post

/-- `escape_fmt_group(value)` -/
def escapeFmtGroup (value : Str) : Option Str :=
  match parseRegex Gen.escape_group_re with
  | none => none
  | some pat =>
    let founds := (finditer pat value).map fun m => (alookup "found".toList m.2.2.2).getD []
    let step1 := (founds.zipIdx Gen.escape_sentinel_start).foldl (fun (acc : Str × List (Str × Str)) (fi : Str × Nat) =>
        (replaceAll acc.1 fi.1 (sentinel fi.2), ainsert (sentinel fi.2) fi.1 acc.2)) (value, [])
    let escaped := reEscape step1.1
    some (step1.2.foldl (fun (acc : Str) (kv : Str × Str) => replaceAll acc kv.1 kv.2) escaped)

/-- the regex that matches exactly the text `t` -/
def litRE : Str → RE
  | [] => .eps
  | [c] => .cls [.range c c] false
  | c :: d :: cs => .seq (.cls [.range c c] false) (litRE (d :: cs))

-- UTF-8 --------------------------------------------------------------------------------------------------

/-- the UTF-8 encoding of a code point -/
def encodeChar (c : Char) : List Nat :=
  let v := c.toNat
  if v < 0x80 then [v]
  else if v < 0x800 then [0xC0 + v / 64, 0x80 + v % 64]
  else if v < 0x10000 then [0xE0 + v / 4096, 0x80 + v / 64 % 64, 0x80 + v % 64]
  else [0xF0 + v / 262144, 0x80 + v / 4096 % 64, 0x80 + v / 64 % 64, 0x80 + v % 64]

def encode (s : Str) : List Nat := s.flatMap encodeChar

def isCont (b : Nat) : Bool := 0x80 ≤ b && b < 0xC0

/-- strict UTF-8 decoding (`str(value, "utf-8", "strict")`): overlong forms, surrogates, values above
    U+10FFFF, stray continuation bytes and truncated sequences are UnicodeDecodeError -/
def decode : List Nat → R Str
  | [] => .ok []
  | b0 :: rest =>
    if b0 < 0x80 then (decode rest).map (Char.ofNat b0 :: ·)
    else if 0xC2 ≤ b0 && b0 < 0xE0 then
      match rest with
      | b1 :: r => if isCont b1 then (decode r).map (Char.ofNat ((b0 - 0xC0) * 64 + (b1 - 0x80)) :: ·) else .error .unicodeDecode
      | _ => .error .unicodeDecode
    else if 0xE0 ≤ b0 && b0 < 0xF0 then
      match rest with
      | b1 :: b2 :: r =>
        let v := (b0 - 0xE0) * 4096 + (b1 - 0x80) * 64 + (b2 - 0x80)
        if isCont b1 && isCont b2 && 0x800 ≤ v && !(0xD800 ≤ v && v < 0xE000) then (decode r).map (Char.ofNat v :: ·)
        else .error .unicodeDecode
      | _ => .error .unicodeDecode
    else if 0xF0 ≤ b0 && b0 < 0xF5 then
      match rest with
      | b1 :: b2 :: b3 :: r =>
        let v := (b0 - 0xF0) * 262144 + (b1 - 0x80) * 4096 + (b2 - 0x80) * 64 + (b3 - 0x80)
        if isCont b1 && isCont b2 && isCont b3 && 0x10000 ≤ v && v < 0x110000 then (decode r).map (Char.ofNat v :: ·)
        else .error .unicodeDecode
      | _ => .error .unicodeDecode
    else .error .unicodeDecode

/-- the argument of a parse entry point -/
inductive Input where
  | str (s : Str)
  | bytes (b : List Nat)
  | other

/-- `bytes2str` -/
def bytes2str : Input → R Str
  | .str s => .ok s
  | .bytes b => decode b
  | .other => .error .pyType

end Esc
