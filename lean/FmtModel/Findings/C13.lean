import FmtModel.Ver
/-
  Findings.C13 — kernel-checked witnesses of the recorded C13 finding on the model.
  (If one of these stops building, the defect no longer reproduces on the model: a note, never a
  violation.)
-/
namespace Findings.C13
open Ver Py

def goesLower (s : String) : Bool :=
  match parse .sem s.toList with
  | .ok o =>
    match nextVersion o "pre".toList with
    | .ok o' => (match richCmp .lt o' (.obj o) with | .ok b => b | .error _ => false)
    | .error _ => false
  | .error _ => false

/-- `VersionSemver.next_version('pre')` goes below the receiver when a text-compared tag carries -/
theorem semver_text_tag_carry_goes_lower :
    goesLower "1.0.0-9" = true ∧ goesLower "1.0.0-rc.1.9" = true ∧ goesLower "1.0.0-a9b" = true
  ∧ goesLower "1.0.0-rc9" = false ∧ goesLower "1.0.0-rc.9" = false ∧ goesLower "1.0.0-8" = false := by
  decide +kernel

end Findings.C13
