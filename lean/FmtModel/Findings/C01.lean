import FmtModel.Classes.Version
/-! Findings.C01 — witness on the model of the Version %-f finding (the Datetime and Naming ones are in
    Findings.C02 / Findings.C08) -/
namespace Findings.C01
open Py Engine

theorem version_dash_f_rejected :
    Version.render "%-f".toList { cls := .pkg, major := 1, minor := 2, patch := 3 } = .ok "1_2_3".toList
  ∧ (match Engine.parse Version.cls "1_2_3".toList (some "%-f".toList) false with | .ok _ => true | .error _ => false) = false
  ∧ (match Engine.parse Version.cls "1-2-3".toList (some "%-f".toList) false with | .ok _ => true | .error _ => false) = true := by
  decide +kernel

end Findings.C01
