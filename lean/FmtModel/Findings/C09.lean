import FmtModel.Classes.Storage
/-! Findings.C09 — witness on the model of the recorded C09 finding -/
namespace Findings.C09
open Py Engine

def acceptedBits (text fmt : String) : Option Str :=
  match Engine.parse Storage.cls text.toList (some fmt.toList) false with
  | .ok o => some (Storage.string o)
  | .error _ => none

/-- a zero statement is ignored instead of being cross-checked -/
theorem storage_zero_statement_ignored :
    acceptedBits "8 0EB" "%b %E" = some "8".toList ∧ acceptedBits "0 1B" "%b %B" = some "8".toList
  ∧ acceptedBits "16 1B" "%b %B" = none := by decide +kernel

end Findings.C09
