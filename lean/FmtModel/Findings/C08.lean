import FmtModel.Classes.Naming
/-! Findings.C08 — witnesses on the model of the two recorded C08 findings -/
namespace Findings.C08
open Py Engine

def accepts (text fmt : String) : Bool :=
  match Engine.parse Naming.cls text.toList (some fmt.toList) false with
  | .ok _ => true
  | .error _ => false

theorem title_digit_initial_rejected :
    Naming.render "%t".toList ["be".toList, "11".toList] = .ok "Be 11".toList ∧ accepts "Be 11" "%t" = false
  ∧ accepts "Be Ab" "%t" = true ∧ accepts "Be_11" "%-S" = false ∧ accepts "Be-11" "%T" = false := by decide +kernel

theorem vowelless_digit_rejected :
    Naming.render "%v".toList ["b1".toList, "e".toList] = .ok "b1".toList ∧ accepts "b1" "%v" = false
  ∧ accepts "bd" "%v" = true ∧ accepts "B1" "%V" = false := by decide +kernel

end Findings.C08
