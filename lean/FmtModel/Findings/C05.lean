import FmtModel.Classes.Datetime
/-! Findings.C05 — witnesses on the model of the recorded C05 findings -/
namespace Findings.C05
open Py Engine

def parsed (text fmt : String) (strict : Bool) : Option Str :=
  match Engine.parse Datetime.cls text.toList (some fmt.toList) strict with
  | .ok o => some (Datetime.string o)
  | .error _ => none

/-- all three statements agree on 10 October 2023; non-strict mode loses the month of the day-of-year -/
theorem doy_ignored_after_day :
    parsed "2023 283 10" "%Y %j %d" true = some "2023-10-10 00:00:00.000000".toList
  ∧ parsed "2023 283 10" "%Y %j %d" false = some "2023-01-10 00:00:00.000000".toList
  ∧ parsed "2023 10 283" "%Y %d %j" false = some "2023-01-10 00:00:00.000000".toList := by decide +kernel

/-- 2024 has no week 00 counted from Monday (1 January 2024 is a Monday), yet it is accepted -/
theorem nonexistent_week_accepted :
    parsed "2024 00 3" "%Y %W %w" true = some "2024-01-03 00:00:00.000000".toList
  ∧ Cal.strftime "%W".toList { year := 2024, month := 1, day := 3 } = "01".toList := by decide +kernel

/-- Sunday-based week 10 and Monday-based week 12 disagree; strict mode accepts and differs from non-strict -/
theorem two_week_counts :
    parsed "2023 10 1 12" "%Y %U %w %W" true = some "2023-03-06 00:00:00.000000".toList
  ∧ parsed "2023 10 1 12" "%Y %U %w %W" false = some "2023-03-20 00:00:00.000000".toList := by decide +kernel

end Findings.C05
