import FmtModel.Classes.Datetime
/-! Findings.C02 — witnesses on the model of the two recorded Datetime findings (shared with C01) -/
namespace Findings.C02
open Py Engine

def parsed (text fmt : String) : Option Str :=
  match Engine.parse Datetime.cls text.toList (some fmt.toList) false with
  | .ok o => some (Datetime.string o)
  | .error _ => none

/-- 2000-07-04 is a Tuesday: its own name is rejected, the name of Thursday is accepted -/
theorem weekday_names_swapped :
    parsed "2000-07-04 Tue" "%Y-%m-%d %a" = none ∧ (parsed "2000-07-04 Thu" "%Y-%m-%d %a").isSome = true
  ∧ parsed "2000-07-06 Thursday" "%Y-%m-%d %A" = none ∧ (parsed "2000-07-05 Wed" "%Y-%m-%d %a").isSome = true := by
  decide +kernel

/-- `%-H` renders one digit for hours below ten and rejects it -/
theorem unpadded_hour_rejected :
    Datetime.render "%-H".toList { year := 2000, month := 1, day := 1, hour := 7 } = .ok "7".toList
  ∧ parsed "7" "%-H" = none ∧ (parsed "17" "%-H").isSome = true := by decide +kernel

end Findings.C02
