import FmtModel.Classes.Version
/-! Findings.C20 — witness on the model of the recorded C20 finding -/
namespace Findings.C20
open Py Engine

/-- `%l` of a version without local label has no text: the renderer yields Python's `None`
    (modelled as the TypeError `str.replace` raises on it) -/
theorem version_local_renders_none :
    Version.render "%l".toList { cls := .pkg, major := 1, minor := 2, patch := 3 } = .error .pyType
  ∧ Version.render "%-l".toList { cls := .pkg, major := 1, minor := 2, patch := 3 } = .ok "+None".toList := by
  decide +kernel

end Findings.C20
