import FmtModel.Ver
/-
  FmtModel.Wire — text encoding of model values for the line protocol (driver side).
  Not part of the model proper: nothing here is used by a theorem.
-/
open Py

namespace Wire

def hexVal (c : Char) : Nat :=
  if '0' ≤ c && c ≤ '9' then c.toNat - 48
  else if 'a' ≤ c && c ≤ 'f' then c.toNat - 87
  else if 'A' ≤ c && c ≤ 'F' then c.toNat - 55 else 0

def hexToBytes (s : String) : ByteArray :=
  let rec go : List Char → ByteArray → ByteArray
    | a :: b :: r, acc => go r (acc.push (UInt8.ofNat (hexVal a * 16 + hexVal b)))
    | _, acc => acc
  go s.toList ByteArray.empty

def decodeArg (s : String) : Str :=
  match String.fromUTF8? (hexToBytes s) with
  | some t => t.toList
  | none => []

def plain (c : Char) : Bool :=
  c.toNat ≥ 32 && c.toNat ≤ 126 && c != '\\' && c != '|' && c != ',' && c != ';' && c != '=' && c != '~'

/-- printable ASCII stays, everything else (and the protocol's separators) becomes \u{hex} -/
def esc (s : Str) : String :=
  String.ofList (s.flatMap fun c =>
    if plain c then [c] else ("\\u{".toList ++ (Nat.toDigits 16 c.toNat) ++ ['}']))

def unescGo : Nat → Str → Str
  | 0, _ => []
  | _ + 1, [] => []
  | f + 1, '\\' :: 'u' :: '{' :: r =>
    let h := r.takeWhile (· != '}')
    let rest := (r.dropWhile (· != '}')).drop 1
    Char.ofNat (h.foldl (fun a c => a * 16 + hexVal c) 0) :: unescGo f rest
  | f + 1, c :: r => c :: unescGo f r

def unesc (s : Str) : Str := unescGo (s.length + 1) s

def showOpt (o : Option Str) : String := match o with | some s => "=" ++ esc s | none => "~"

def readOpt (s : Str) : Option Str :=
  match s with
  | '=' :: r => some (unesc r)
  | _ => none

def showGroupdict (g : List (Str × Option Str)) : String :=
  String.intercalate "," (g.map fun (k, v) => esc k ++ showOpt v)

def showR {α} (f : α → String) : R α → String
  | .ok a => "ok:" ++ f a
  | .error e => "err:" ++ e.name

def showBool (b : Bool) : String := if b then "True" else "False"
def showIntS (i : Int) : String := String.ofList (showInt i)
def showStrList (l : List Str) : String := String.intercalate "," (l.map esc)

def clsName : Ver.Cls → String
  | .base => "base" | .sem => "sem" | .pkg => "pkg"

def readCls (s : Str) : Ver.Cls :=
  if s == "sem".toList then .sem else if s == "pkg".toList then .pkg else .base

def showObj (o : Ver.Obj) : String :=
  String.intercalate ";" [clsName o.cls, toString o.epoch, toString o.major, toString o.minor, toString o.patch,
    showOpt o.pre, showOpt o.post, showOpt o.dev, showOpt o.loc, showOpt o.build]

def natOfStr (s : Str) : Nat := (digitsVal 10 s 0).getD 0

def readObj (s : Str) : Ver.Obj :=
  match splitOn s [';'] with
  | [c, e, ma, mi, pa, pre, post, dev, loc, build] =>
    { cls := readCls c, epoch := natOfStr e, major := natOfStr ma, minor := natOfStr mi, patch := natOfStr pa,
      pre := readOpt pre, post := readOpt post, dev := readOpt dev, loc := readOpt loc, build := readOpt build }
  | _ => default

/-- `i:<int>` | `s:<text>` | `n` -/
def readArg (s : Str) : Ver.Arg :=
  match s with
  | 'i' :: ':' :: r => (match pyIntBase 10 r with | some i => .int i | none => .none)
  | 's' :: ':' :: r => .str (unesc r)
  | _ => .none

def readArgs (s : Str) : List Ver.Arg :=
  if s.isEmpty then [] else (splitOn s [',']).map readArg

def readKw (s : Str) : List (Str × Ver.Arg) :=
  if s.isEmpty then [] else (splitOn s [',']).map fun item =>
    let k := item.takeWhile (· != '=')
    (unesc k, readArg ((item.dropWhile (· != '=')).drop 1))

end Wire
