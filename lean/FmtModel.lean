import FmtModel.Py.Basic
import FmtModel.Py.Str
import FmtModel.Py.Num
import FmtModel.Py.Re
import FmtModel.Py.ReParse
