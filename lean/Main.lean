import FmtModel
open Py Wire

def baseDispatch (op : String) (a : List Str) : Option String :=
  match op, a with
  | "re_search", [vb, pat, subj] =>
    some (match parseRegexWith (vb == "1".toList) pat with
     | none => "err:re.error"
     | some r =>
       match search r subj with
       | none => "none"
       | some (st, rest, caps) =>
         s!"{st} {subj.length - rest.length} " ++ showGroupdict (groupdict r caps))
  | "re_finditer", [pat, subj] =>
    some (match parseRegex pat with
     | none => "err:re.error"
     | some r => String.intercalate ";" ((finditer r subj).map fun (st, en, _, caps) =>
         s!"{st} {en} " ++ showGroupdict (groupdict r caps)))
  | "replace", [s, o, n] => some (esc (replaceAll s o n))
  | "replace1", [s, o, n] => some (esc (replaceFirst s o n))
  | "split_ws", [s] => some (showStrList (splitWs s))
  | "split", [s, sep] => some (showStrList (splitOn s sep))
  | "int", [s] => some (showR showIntS (pyInt s))
  | _, _ => none

def dispatch (op : String) (a : List Str) : String :=
  match baseDispatch op a with
  | some r => r
  | none =>
    match Drv.verDispatch op a with
    | some r => r
    | none =>
      match Drv.fmtDispatch op a with
      | some r => r
      | none =>
        match Drv.grpDispatch op a with
        | some r => r
        | none =>
          match Drv.astDispatch op a with
          | some r => r
          | none =>
            match Drv.ariDispatch op a with
            | some r => r
            | none => "bad-op"

partial def loop (h : IO.FS.Stream) (out : IO.FS.Stream) : IO Unit := do
  let line ← h.getLine
  if line.isEmpty then return ()
  let line := (line.dropEndWhile (fun c => c == '\n' || c == '\r')).toString
  match line.splitOn "\t" with
  | [] => out.putStrLn "bad-op"
  | op :: args => out.putStrLn (dispatch op (args.map decodeArg))
  loop h out

def main : IO Unit := do
  let out ← IO.getStdout
  loop (← IO.getStdin) out
  out.flush
