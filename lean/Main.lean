import FmtModel
open Py

def hexVal (c : Char) : Nat :=
  if '0' ≤ c && c ≤ '9' then c.toNat - 48
  else if 'a' ≤ c && c ≤ 'f' then c.toNat - 87
  else if 'A' ≤ c && c ≤ 'F' then c.toNat - 55 else 0

def hexToBytes (s : String) : ByteArray :=
  let rec go : List Char → ByteArray → ByteArray
    | a :: b :: r, acc => go r (acc.push (UInt8.ofNat (hexVal a * 16 + hexVal b)))
    | _, acc => acc
  go s.toList ByteArray.empty

def decodeArg (s : String) : Str :=
  match String.fromUTF8? (hexToBytes s) with
  | some t => t.toList
  | none => []

def hexDigit (n : Nat) : Char := if n < 10 then Char.ofNat (48 + n) else Char.ofNat (87 + n)

/-- printable ASCII stays, everything else becomes \u{hex}; backslash is escaped too -/
def esc (s : Str) : String :=
  String.ofList (s.flatMap fun c =>
    if c.toNat ≥ 32 && c.toNat ≤ 126 && c != '\\' && c != '|' && c != ',' then [c]
    else ("\\u{".toList ++ (Nat.toDigits 16 c.toNat) ++ ['}']))

def showOpt (o : Option Str) : String := match o with | some s => "=" ++ esc s | none => "~"

def showGroupdict (g : List (Str × Option Str)) : String :=
  String.intercalate "," (g.map fun (k, v) => esc k ++ showOpt v)

def showR {α} (f : α → String) : R α → String
  | .ok a => "ok:" ++ f a
  | .error e => "err:" ++ e.name

def dispatch (op : String) (a : List Str) : String :=
  match op, a with
  | "re_search", [vb, pat, subj] =>
    (match parseRegexWith (vb == "1".toList) pat with
     | none => "err:re.error"
     | some r =>
       match search r subj with
       | none => "none"
       | some (st, rest, caps) =>
         s!"{st} {subj.length - rest.length} " ++ showGroupdict (groupdict r caps))
  | "re_finditer", [pat, subj] =>
    (match parseRegex pat with
     | none => "err:re.error"
     | some r => String.intercalate ";" ((finditer r subj).map fun (st, en, _, caps) =>
         s!"{st} {en} " ++ showGroupdict (groupdict r caps)))
  | "replace", [s, o, n] => esc (replaceAll s o n)
  | "replace1", [s, o, n] => esc (replaceFirst s o n)
  | "split_ws", [s] => String.intercalate "," ((splitWs s).map esc)
  | "split", [s, sep] => String.intercalate "," ((splitOn s sep).map esc)
  | "int", [s] => showR (fun i => String.ofList (showInt i)) (pyInt s)
  | _, _ => "bad-op"

partial def loop (h : IO.FS.Stream) (out : IO.FS.Stream) : IO Unit := do
  let line ← h.getLine
  if line.isEmpty then return ()
  let line := (line.dropEndWhile (fun c => c == '\n' || c == '\r')).toString
  match line.splitOn "\t" with
  | [] => out.putStrLn "bad-op"
  | op :: args => out.putStrLn (dispatch op (args.map decodeArg))
  loop h out

def main : IO Unit := do
  let out ← IO.getStdout
  loop (← IO.getStdin) out
  out.flush
