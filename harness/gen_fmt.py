"""Generators of (value, format) pairs inside the domains of C01/C05/C06 for the five formatters."""
from __future__ import annotations

import datetime as _dt
import random

import spec
from corr_fmt import SEPS, SERIAL_VALUES, rand_bits, rand_dt, rand_name

from fmtutil import Datetime, Naming, Serial, Storage, Version

CLASSES = {"serial": Serial, "datetime": Datetime, "version": Version, "naming": Naming, "storage": Storage}

TITLE = {"%-N", "%t", "%-S", "%-K", "%T"}
CAMEL = {"%c", "%-c", "%p"}


def letters(w):
    return sum(ch.isalpha() for ch in w)


# ---------------------------------------------------------------------------------------------- values

def value_of(c: str, r: random.Random):
    if c == "serial":
        return r.choice(SERIAL_VALUES + [r.randrange(10 ** r.randint(1, 24))])
    if c == "datetime":
        return rand_dt(r)
    if c == "version":
        ep = r.choice([0, 0, 1, 2])
        rel = [r.choice([0, 1, 2, 9, 10, 99, 100, 999, r.randint(0, 999)]) for _ in range(3)]
        return (f"{ep}!" if ep else "") + ".".join(map(str, rel))
    if c == "naming":
        return rand_name(r)
    b = rand_bits(r)
    while b >= 10 ** 27:
        b = rand_bits(r)
    return b


def make_obj(c: str, v):
    """the formatter object of a value: from_value, except that a Version with an epoch is parsed with
    a mirroring format (from_value goes through the base format, which has no epoch directive)"""
    cls = CLASSES[c]
    if c == "version" and "!" in v:
        return cls.parse(v, "%e%m.%n.%c")
    return cls.from_value(v)


# ---------------------------------------------------------------------------------------------- formats

def serial_fmt(r, n):
    ds = ["%n", "%b", "%c", "%u"] + (["%p"] if n < 1000 else [])
    k = r.randint(1, 4)
    toks = [r.choice(ds) for _ in range(k)]
    return toks, True, set()


def datetime_fmt(r, t: _dt.datetime, complete=None):
    """tokens obeying the side conditions of C01; returns (tokens, determines?, kinds)"""
    y = t.year
    kinds = set()
    ydirs = ["%Y"] + (["%y", "%-y"] if 1900 <= y <= 1999 else [])
    complete = r.random() < 0.6 if complete is None else complete
    toks = []
    if complete:
        fam = r.choice(["ymd", "ymd", "yj", "yU", "yW", "n"])
        if fam == "n":
            toks = ["%n", "%f"]
            return toks, True, kinds
        if fam == "ymd":
            toks = [r.choice(ydirs), r.choice(["%m", "%-m", "%b", "%B"]), r.choice(["%d", "%-d"])]
            if r.random() < 0.3:
                toks.append(r.choice(["%a", "%A", "%w", "%u"]))
        elif fam == "yj":
            toks = [r.choice(ydirs), r.choice(["%j", "%-j"])]
        else:
            toks = [r.choice(ydirs), "%U" if fam == "yU" else "%W", r.choice(["%w", "%u", "%a", "%A"])]
        if r.random() < 0.5:
            toks.append(r.choice(["%H", "%-H"]))
        else:
            toks += [r.choice(["%I", "%-I"]), "%p"]
        toks += [r.choice(["%M", "%-M"]), r.choice(["%S", "%-S"]), "%f"]
        det = True
    else:
        pool = [[r.choice(ydirs)], [r.choice(["%m", "%-m", "%b", "%B"])], [r.choice(["%d", "%-d"])], [r.choice(["%H", "%-H"])], [r.choice(["%I", "%-I"]), "%p"],
                [r.choice(["%M", "%-M"])], [r.choice(["%S", "%-S"])], ["%f"], [r.choice(["%j", "%-j"])]]
        pick = r.sample(pool, r.randint(1, 4))
        toks = [x for grp in pick for x in grp]
        # a day-of-year together with month/day, or 24h and 12h clocks together, are C05's business
        if any(x in toks for x in ("%j", "%-j")) and any(x in toks for x in ("%m", "%-m", "%b", "%B", "%d", "%-d")):
            toks = [x for x in toks if x not in ("%j", "%-j")]
        if any(x in toks for x in ("%H", "%-H")) and any(x in toks for x in ("%I", "%-I")):
            toks = [x for x in toks if x not in ("%I", "%-I", "%p")]
        det = False
        if not toks:
            toks = ["%Y"]
        # 29 February (or day 366) without a year would be read in the default year 1900, which has no such day:
        # a partial format that states the day of a leap day also states the year
        if (t.month, t.day) == (2, 29) and not any(x in toks for x in ydirs):
            toks.append(ydirs[0])
        if t.timetuple().tm_yday == 366 and any(x in toks for x in ("%j", "%-j")) and not any(x in toks for x in ydirs):
            toks.append(ydirs[0])
    r.shuffle(toks)
    w = spec.wday_sun(t.year, t.month, t.day)
    if any(d in ("%a", "%A") for d in toks) and w in (2, 4):
        kinds.add("weekday-name-tue-thu")
    if "%-H" in toks and t.hour < 10:
        kinds.add("unpadded-hour")
    return toks, det, kinds


def version_fmt(r, v):
    has_epoch = "!" in v
    base = r.choice([["%m", "%n", "%c"], ["%f"], ["%m", "%n", "%c"], ["%c", "%m", "%n"], ["%-f"]])
    toks = list(base)
    if has_epoch or r.random() < 0.3:
        toks = [r.choice(["%e", "%-e"])] + toks
    kinds = set()
    if "%-f" in toks:
        kinds.add("version-dash-f")
    det = True
    if r.random() < 0.25:
        toks = r.sample(["%m", "%n", "%c", "%-e"], r.randint(1, 3))
        det = set(toks) >= {"%m", "%n", "%c"} and (not has_epoch or "%-e" in toks)
        kinds.discard("version-dash-f")
    return toks, det, kinds


def naming_fmt(r, ws):
    full = [d for d in spec.FULL_NAME_STYLES if not (d in TITLE or d in CAMEL) or (len(ws) >= 2 and all(letters(w) >= 2 for w in ws) and (d in TITLE or not any(w[0].isdigit() for w in ws)))]
    kinds = set()
    if r.random() < 0.75:
        toks = [r.choice(full)]
        extra = r.randint(0, 2)
        ab = [d for d in spec.ABBREV_STYLES if d not in ("%v", "%V") or any(ch.isalpha() and ch not in "aeiou" for ch in "".join(ws))]
        toks += [r.choice(full + ab) for _ in range(extra)]
        det = True
    else:
        ab = [d for d in spec.ABBREV_STYLES if d not in ("%v", "%V") or any(ch.isalpha() and ch not in "aeiou" for ch in "".join(ws))]
        toks = [r.choice(ab)]
        det = False
    r.shuffle(toks)
    if any(d in TITLE for d in toks) and any(w[0].isdigit() for w in ws):
        kinds.add("title-digit-initial")
    if any(d in ("%v", "%V") for d in toks) and any(ch.isdigit() for ch in "".join(ws)):
        kinds.add("vowelless-digit")
    return toks, det, kinds


def storage_fmt(r, bits):
    units = ["%B", "%K", "%M", "%G", "%T", "%P", "%E", "%Z", "%Y"]
    ok = [u for k, u in enumerate(units) if bits % spec.unit_factor(k) == 0]
    pool = ["%b"] + ok
    toks = [r.choice(pool) for _ in range(r.randint(1, 3))]
    return toks, True, set()


def fmt_for(c: str, r: random.Random, v, **kw):
    if c == "serial":
        toks, det, kinds = serial_fmt(r, v)
    elif c == "datetime":
        toks, det, kinds = datetime_fmt(r, v, **kw)
    elif c == "version":
        toks, det, kinds = version_fmt(r, v)
    elif c == "naming":
        toks, det, kinds = naming_fmt(r, v)
    else:
        toks, det, kinds = storage_fmt(r, v)
    sep = r.choice(SEPS[c])
    return toks, sep, det, kinds


def value_repr(c: str, v) -> str:
    if c == "datetime":
        return v.strftime("%Y-%m-%d %H:%M:%S.%f")
    if c == "naming":
        return " ".join(v)
    return str(v)


def values_equal(c: str, parsed_value, v) -> bool:
    if c == "serial":
        return parsed_value == v
    if c == "datetime":
        return parsed_value == v
    if c == "version":
        from fmtutil import VerPackage
        return parsed_value == VerPackage.parse(v)
    if c == "naming":
        return parsed_value == v
    import decimal
    return parsed_value == decimal.Decimal(v)
