"""Sample / enumerate strings of the language of a regular expression (CPython's own parse tree),
used to draw inputs from the pattern language of a directive sequence (C06)."""
from __future__ import annotations

import random
import re

try:
    import re._parser as sre_parse  # py >= 3.11
    import re._constants as C
except ImportError:  # pragma: no cover
    import sre_parse
    import sre_constants as C

DIGITS = "0123456789"
POOL = "abz AZ09_-.\n%xé٣"


def _cat(cat, r):
    name = str(cat)
    if "DIGIT" in name and "NOT" not in name:
        return r.choice(DIGITS + ("٣" if r.random() < 0.02 else ""))
    if "WORD" in name and "NOT" not in name:
        return r.choice("abzAZ09_")
    if "SPACE" in name and "NOT" not in name:
        return r.choice(" \t")
    return r.choice(POOL)


def _in(items, r):
    neg = False
    choices = []
    for op, arg in items:
        if op is C.NEGATE:
            neg = True
        elif op is C.LITERAL:
            choices.append(chr(arg))
        elif op is C.RANGE:
            lo, hi = arg
            choices += [chr(lo), chr(hi), chr(r.randint(lo, hi))]
        elif op is C.CATEGORY:
            choices.append(_cat(arg, r))
    if neg:
        for _ in range(20):
            ch = r.choice(POOL)
            if ch not in choices:
                return ch
        return "~"
    return r.choice(choices) if choices else ""


def sample_tree(tree, r: random.Random, maxrep: int = 4) -> str:
    out = []
    for op, arg in tree:
        if op is C.LITERAL:
            out.append(chr(arg))
        elif op is C.NOT_LITERAL:
            out.append("x" if chr(arg) != "x" else "y")
        elif op is C.ANY:
            out.append(r.choice("a0 .-x"))
        elif op is C.IN:
            out.append(_in(arg, r))
        elif op is C.BRANCH:
            out.append(sample_tree(r.choice(arg[1]), r, maxrep))
        elif op is C.SUBPATTERN:
            out.append(sample_tree(arg[3], r, maxrep))
        elif op in (C.MAX_REPEAT, C.MIN_REPEAT):
            lo, hi, sub = arg
            hi = min(hi, lo + maxrep) if hi != C.MAXREPEAT else lo + maxrep
            # bias to the boundaries
            k = r.choice([lo, lo, hi, r.randint(lo, hi)])
            out.append("".join(sample_tree(sub, r, maxrep) for _ in range(k)))
        elif op is C.AT or op is C.ASSERT or op is C.ASSERT_NOT:
            pass
        elif op is C.CATEGORY:
            out.append(_cat(arg, r))
        else:
            pass
    return "".join(out)


def sample(pattern: str, r: random.Random, maxrep: int = 4) -> str:
    return sample_tree(sre_parse.parse(pattern), r, maxrep)
