"""Per-property claims: technique, level text, level note (read by manifest_gen.py)."""
CLAIMED = {
 "C07": dict(
  technique="Lean 4 proof: Python tuple comparison = lexicographic compare of a structured key (Std.TransOrd); model tied by regenerated tables + correspondence",
  text=("Order laws (trichotomy, transitivity, == equivalence and congruence, derived <=/>=/!=, a<b iff b>a), hash agreement, tuple/list spelling and the "
        "semver clauses are Lean theorems over ALL objects of the three version classes (unbounded numbers, arbitrary tags) whose comparison key exists; "
        "proved by showing that Py.Cmp (a model of CPython's rich comparison incl. the Inf/NegInf sentinels) on the key tuples equals the lexicographic "
        "`compare` of a structured key type, whose lawfulness comes from Lean core. The regex texts, slot tuples and spelling tables the model runs on are "
        "regenerated from /repo on every run; the hand-written half is compared with the real classes on parse/compare/operators/hash/increment/_extract_letter."),
  note=("Trusted: Lean kernel; axioms propext, Classical.choice, Quot.sound only; extract.py; Py.Cmp/Py.Re/Py.ReParse as models of CPython (validated "
        "differentially every run). Not proved: that the key exists for every parsed object (pyInt of the captured digits) and the str spelling for all "
        "objects - both are covered by the correspondence and the sweep only."),
  design="§6 C07"),
 "C04": dict(
  technique="Lean 4 proof: PEP 440 key order (lexicographic, lawful) + kernel-evaluated segment grammar on regenerated tables; vendored packaging as reference for the search",
  text=("Theorems: for ALL packaging-version objects whose key exists, compare() never raises and returns the sign of the lexicographic comparison of the "
        "PEP 440 key, which is shown to be the transcription of packaging._cmpkey (sentinel placement included); the class's letter table is PEP 440's "
        "normalisation; every pre/post/dev segment spelling of the property's bounded grammar (letters x separators x numbers, 1 200 spellings, and the "
        "implicit -N form) is read as PEP 440 reads it, by kernel evaluation of the model on the regex text regenerated from the source; the named "
        "spelling variants compare equal end to end. The splitting of a whole string into segments by the regenerated pattern is validated, not proved: "
        "correspondence model-vs-code and an exhaustive small-bound sweep against the vendored reference (acceptance inside the documented shape, fields, "
        "sign of every ordered pair)."),
  note=("Trusted: Lean kernel, axioms propext/Classical.choice/Quot.sound; extract.py; Py.Re/Py.ReParse/Py.Cmp as models of CPython; vendored packaging "
        "26.3 as PEP 440 reference. Partial: whole-string parsing (C04_read for unbounded numbers) is covered by correspondence + sweep only."),
  design="§6 C04"),
 "C10": dict(
  technique="Lean 4 proof: decision logic of match over the regenerated operator tables, reduced to the class order (C07)",
  text=("Theorems for ALL versions v, w of one class with a key (numbers unbounded): the six comparison operators and the bare form of a match expression "
        "coincide with the rich comparison operators; ^w and ~=w / ~w are exactly w <= v < bound with the documented bounds; the expression splitter "
        "recognises every operator in front of a digit and the bare form; the empty expression and any expression starting with neither an operator "
        "character nor a digit raise ValueError. The operator tables are regenerated from the source, so a changed table breaks the proof. Wildcard "
        "bounds (carries 9->10, 99->100) and the str(w) round trip are covered by kernel-evaluated instances, the correspondence and the sweep "
        "(interval semantics computed independently of match())."),
  note=("Trusted: as C07. Partial: extract_wildcard for unbounded numbers and parse(str(w)) = w are validated by correspondence/sweep, not proved."),
  design="§6 C10"),
 "C13": dict(
  technique="Lean 4 proof: next_version/bump on the structured key (lexicographic order lemmas); immutability by construction of the functional model + correspondence snapshots",
  text=("Theorems: bump_major/minor/patch give (X+1).0.0, X.(Y+1).0, X.Y.(Z+1) for every object (epoch kept for the packaging class); for the plain class "
        "next_version(part) exists for every valid part, is strictly higher and resets the lower parts, for all numbers; for EVERY packaging version whose key exists (any "
        "epoch, numbers, pre/post/dev/local segments) next_version of epoch/major/minor/patch exists, has a key and is strictly higher (C13_next_pkg: the segments are dropped when "
        "the version is before its final release - lt_final - otherwise the release is bumped); an invalid part is ValueError for "
        "every class; the valid parts are the advertised ones (regenerated tables); release-list lemmas nr_bump_* (the key strictly grows under each bump "
        "whatever the trailing zeros) are proved for reuse by the semantic and packaging classes. next_version of those two classes, and the pre/post/dev "
        "parts that go through increment on arbitrary tag text, are decided by kernel-evaluated instances plus the correspondence and a sweep over the C07 "
        "grammars (every valid part, never-lower, strictly-higher, reset, operation sequences with to_tuple/str/hash snapshots)."),
  note=("Trusted: as C07. Partial: monotonicity for the semantic class and for the pre/post/dev parts is validated, not proved; immutability of the real "
        "objects (slots, __setattr__) is observed through the correspondence, the functional model cannot mutate by construction."),
  design="§6 C13"),
}


CLAIMED["C09"] = dict(
  technique="Lean 4 proof: regex greedy-first calculus + digit-string lemmas give the parse theorem for every natural number; kernel evaluation for the other spellings",
  text=("Theorems for EVERY natural number n, strict and non-strict, on the regenerated Serial table and anchors: parsing str(n) with %n yields value n "
        "(also with any number of extra leading zeros); from_value(n) has value n; the renderers are Python's str / rjust / {:0wb} / {:,} / {:_}. The proof "
        "composes (i) a kernel-checked calculus of CPython's backtracking order (the preferred match of each stage composes without backtracking), (ii) "
        "int(str(n)) = n from Lean core's toDigits lemmas, (iii) a symbolic walk of the regenerated priorities table. %p on its WHOLE domain: for every n < 1000 and both modes the three-digit text of n is what %p renders and parses back to n (C09_serial_pad, kernel evaluation of all "
        "2000 cases in chunks, lifted to the quantified statement). The %b %c %u spellings and the "
        "Storage unit arithmetic (exact factors 8*1024^k, half-even rounding through decimal at precision 28, bits/bytes agreement) are kernel-evaluated "
        "on concrete sizes up to 2^100 and otherwise decided by the correspondence (Py.Dec against decimal) and the exact-rational sweep."),
  note=("Trusted: Lean kernel, axioms propext/Classical.choice/Quot.sound; extract.py; Py.Re/Py.ReParse/Py.Num/Py.Dec as models of re/int/str/decimal. "
        "Partial: %p %b %c %u and Storage for unbounded n are validated (sweep + correspondence), not proved. Known finding: a zero Storage statement is ignored."),
  design="§6 C09")
CLAIMED["C12"] = dict(
  technique="Lean 4 proof by kernel evaluation of the complete bounded format-string grammar against an independent tokeniser, on the regenerated tokeniser regexes",
  text=("Spec.scan is the independent left-to-right tokeniser (%% | %[-+!*]?letter | literal). Theorems: the regenerated tokeniser patterns of gen_format, "
        "format, regex and from_value describe one token language; for every format string over the property's alphabet {two supported directives, an "
        "unsupported one, %%, lone %, two literals} up to length 4 (2 800 strings, the complete finite grammar) the pattern gen_format builds equals the "
        "pattern the independent tokeniser builds, and format renders what the independent tokeniser renders, including FormatterKeyError / "
        "FormatterArgumentError for unsupported directives. Longer strings, the other formatters and repeated directives are decided by the correspondence "
        "and by a sweep that compares gen_format/format/parse with the independent tokeniser."),
  note=("Trusted: as C09. Partial: the statement for format strings of unbounded length is validated, not proved (a general proof needs a closed form of "
        "finditer for the token regex; planned)."),
  design="§6 C12")
CLAIMED["C20"] = dict(
  technique="Lean 4 proof by kernel evaluation of decidable well-formedness predicates over the tables regenerated from the source",
  text=("Theorems (decide +kernel on the regenerated tables): every directive of the five built-in classes has a pattern that parses, whose named groups "
        "are priorities the class interprets and whose field is a slot, and has a renderer; composite directives (Datetime %n, Version %f/%-f, the Naming "
        "aliases) expand to exactly their parts; the asset tables are well formed and use the classic tokenisers and anchors; for EVERY ordered pair of "
        "directives of each class, alone and under a group prefix/suffix, the generated pattern compiles with pairwise distinct capture names that map "
        "back to priorities (the complete length-2 grammar: 25+100+169+484+784 pairs x 2); convert_fmt_str is injective on the 260 spellings and never "
        "yields '_'; the characters escaped in constant patterns are exactly the regex special characters. Longer sequences, Config subclasses and "
        "constants from instances/mappings are decided by the sweep (re.compile as judge) and the correspondence."),
  note=("Trusted: as C09. Partial: sequences longer than 2 are validated, not proved. Known finding: Version without local label renders %l as None (pinned by tests)."),
  design="§6 C20")

CLAIMED["C01"] = dict(
  technique="Lean 4 proof: unbounded Serial %n round trip (regex greedy-first calculus + digit lemmas + symbolic priority loop); finite-field directive laws and multi-directive round trips by kernel evaluation",
  text=("Theorems: for EVERY natural number n and both modes, format with %n prints str(n), parse reads it back to value n and re-rendering reproduces the text "
        "(C01_serial_n, on the regenerated tables); the per-directive round trips of Datetime over the whole range of every finite field (C02_law_*); "
        "kernel-evaluated format->parse->re-render round trips with value comparison for all five formatters on multi-directive formats in both modes "
        "(leap day, year 9999, 2^53+1, epochs, unit boundaries). The general statement for all values x all separator-inert formats is decided by the "
        "sweep, which generates formats under the property's side conditions, and by the model-vs-code correspondence."),
  note=("Trusted: Lean kernel, axioms propext/Classical.choice/Quot.sound; extract.py; models of re/int/str/datetime/decimal validated differentially. "
        "Partial: the regex composition (separator) lemma for arbitrary formats is not proved. Known findings (pinned by the tests): Tue/Thu names, %-H, "
        "Version %-f, Naming title/vowel-less patterns."),
  design="§6 C01")
CLAIMED["C02"] = dict(
  technique="Lean 4 proof by kernel evaluation over the whole range of every finite calendar field on the regenerated patterns; renderer table = identity pairing",
  text=("Theorems: the regenerated renderer table pairs every Datetime directive with the strftime directive of the same letter ('-' variants = strip the "
        "padding); remove_pad on any digit string is 'drop leading zeros, keep one'; unmentioned fields default to 1900-01-01 00:00:00.000000; for every "
        "finite field the regenerated pattern accepts the calendar's text and the converter yields the canonical attribute text over the field's whole range "
        "- months in 4 spellings x 12, days 1..31 in 2, hours 0..23, minutes/seconds 0..59 in 2 each, weekday numbers (2 x 7), weekday names (with the "
        "recorded Tue/Thu exclusion), AM/PM, years incl. 1000/9999 and two-digit years; calendar facts (ordinals, week numbers) and six complete "
        "descriptions of one instant in every date family and both clocks, both modes. Py.Cal (the model of strftime/strptime/fromisoformat) is written "
        "from ordinal arithmetic and compared with CPython on every instant the sweep uses; the sweep builds descriptions from an independent calendar."),
  note=("Trusted: as C01 plus harness/spec.py calendar. Partial: composition into 'every complete description of every instant' is validated, not proved. "
        "Known findings: Tue/Thu weekday names, %-H with one digit."),
  design="§6 C02")
CLAIMED["C08"] = dict(
  technique="Lean 4 proof by induction on the word list: renderers = textbook styles for all names (incl. the regex-substitution mechanism of camel/Pascal); kernel-evaluated parse/consistency/rejection instances",
  text=("Theorem C08_render: for EVERY list of words over [a-z0-9] (any number, any length) each of the 22 directives renders exactly the textbook form "
        "Spec.style, written from the definitions. The camel/Pascal renderers substitute (?:^|_)(.) in the snake form; pascal_join / camel_join prove that "
        "mechanism equal to 'concatenate the capitalised words' by induction. Parse-back of all 16 full-name styles, mutual consistency with abbreviations "
        "and rejection of a different name's abbreviation (FormatterValueError, both modes) are kernel-evaluated instances; the grids are decided by the "
        "sweep (independent style definitions) and the correspondence."),
  note=("Trusted: as C01. Partial: parsing for all names is validated, not proved. Known findings: title-family patterns on digit-initial words, vowel-less "
        "patterns on names with digits (both pinned by the tests)."),
  design="§6 C08")

CLAIMED["C05"] = dict(
  technique="Lean 4 proof: order independence of the priority loop for every formatter class (permutation invariance of association-list lookups); repeated-directive rejection for every class; kernel-evaluated cross-check instances",
  text=("Theorems: C05_order - for EVERY formatter class, both modes and every permutation of captures with distinct, suffix-free names the constructor builds "
        "the same object or raises the same error (the loop walks the class's own priorities table and looks captures up by name; __validate_format is the "
        "identity on such captures); C05_repeated_directive - for every class, a directive repeated with two different texts is rejected with "
        "FormatterValueError in both modes, whatever the texts; kernel-evaluated instances of the strict cross-checks (month number vs name, day-of-year vs "
        "month/day, 24h vs 12h+AM/PM, decimal vs binary vs grouped serial) and of the checks that hold in non-strict mode too (lone weekday, AM/PM, bits vs "
        "bytes, initials/flat/vowel-less vs name). 'Strict succeeds exactly when all statements agree, and then non-strict agrees' over all values and "
        "perturbations is decided by the sweep with an independent statement semantics (brute force over the days of the stated year)."),
  note=("Trusted: as C01 plus the statement semantics in harness/props/C05.py. Partial: soundness/completeness of the cross-checks for all values is validated, "
        "not proved. Known findings: %j ignored after %d in non-strict mode, two week counts, a week number that does not exist in the year, Tue/Thu names, "
        "%-H, a zero Storage statement."),
  design="§6 C05")

CLAIMED["C06"] = dict(
  technique="Lean 4 proof: anchored-search theorem for every pattern body and every input (induction over the matcher); exception-wrapping mechanism; kernel-evaluated named impossible values",
  text=("Theorems: C06_anchored - for EVERY pattern body and EVERY subject string, a successful search of a pattern of the shape ^...\\\\Z starts at the first "
        "character and leaves nothing unread; C06_whole_string lifts it to parse of every formatter class, input, format and mode whose compiled pattern is "
        "anchored; C06_anchors pins the anchors really used by the classic engine, groups and the asset engine to ^ and \\\\Z on the regenerated tables "
        "(with $ the theorem is false - kernel-checked counterexample '12\\\\n', the defect repaired in /repo); C06_shape_base checks the compiled base "
        "pattern of every class is anchored; C06_wrap - nothing of Python's ValueError/ArithmeticError family leaves parse, it becomes "
        "FormatterValueError; C06_named evaluates the impossible values the property names (30 February, hour 25, minute 61, day 39, year 0000, week 59, "
        "empty numbers, malformed sizes, zero-padded version, contradictory month) in both modes. That no other foreign exception kind can arise from any "
        "string in the pattern language of any directive sequence is decided by the sweep (strings sampled from CPython's own parse tree of the generated "
        "pattern, extensions incl. newline, edits; formatters, constants, groups) and by the correspondence, which compares error kinds."),
  note=("Trusted: as C01 plus harness/regex_lang.py sampler. Partial: the exhaustive case analysis of every converter on its whole pattern language is validated, "
        "not proved."),
  design="§6 C06")

CLAIMED["C11"] = dict(
  technique="Lean 4 proof: the formatter's value is the version parser applied to the canonical string (definitional); kernel evaluation of the complete segment-spelling grammar on the regenerated Version table and __from_prefix tables",
  text=("Theorems: C11_value_is_parser - for every parsed object the formatter's value is VersionPackage.parse of its canonical string; C11_converter_pre / "
        "_post / _implicit - every letter x separator spelling that the %q / %p patterns admit (8 x 4, 3 x 4 and the implicit -N form: the complete finite "
        "spelling grammar) is accepted by __from_prefix and normalised to the canonical letter; C11_pre_short / _long / _strict, C11_post, C11_post_implicit, "
        "C11_dev, C11_combined - on the complete grammar lead-separator x letter x inner-separator of each segment, and on combinations with epoch and local "
        "label, Version.parse with the mirroring format yields a value that agrees with VersionPackage.parse of the same string on epoch, release, kind and "
        "number of pre/post/dev and local label, compares equal to it, and whose canonical string re-parses to the same version (kernel evaluation of the "
        "model on tables regenerated from /repo). Numbers and releases beyond the instances are decided by the sweep (every single-segment spelling x 5 numbers "
        "exhaustively; sampled combinations) and by the correspondence."),
  note=("Trusted: as C07/C01. Partial: the statement for all numbers below 1000 in every segment is validated by sweep + correspondence, the theorems fix the "
        "numbers (0, 7, 12, 99, 999) and quantify over the whole spelling grammar."),
  design="§6 C11")

CLAIMED["C14"] = dict(
  technique="Lean 4 proof: strict-partial-order laws of the group order by induction over the declaration from lawful member orders (Std.TransOrd keys); hash agreement of equal Serial/Version objects for all objects; CPython max/min loop theorem",
  text=("Theorems: C14_obj_order - for every member class and every pair of objects, <, == and the total_ordering-derived > are the comparisons of the values; "
        "C14_serial_hash / C14_version_hash - for EVERY pair of Serial / Version objects, however spelled, a == b implies both feed the same thing to hash "
        "(defect repaired in /repo: the hash was taken from the spelled text); C14_group_product / _irrefl / _asymm / _trans / _converse - for every "
        "declaration whose members have lawful value orders and all group objects, a<b is the strict product order, irreflexive, asymmetric, transitive, and "
        "a>b iff b<a; C14_lawful_serial / _datetime / _naming / _version / _storage - the value orders of the five formatters are lawful (N; lexicographic "
        "on the date-time fields; lexicographic on the word list; the C07 key order on versions whose key exists; integral Decimals); C14_max / C14_min / "
        "C14_max_perm - CPython's max/min loop returns the dominating/dominated element whatever its position, so every permutation gives the same answer; "
        "kernel-evaluated instances for spellings of equal values (hash included) for all five formatters and for a concrete group declaration. sorted() "
        "(timsort) and 'groups of different shapes are not comparable' are decided by the sweep; hash agreement of Datetime/Naming/Storage across all "
        "spellings by sweep + correspondence (obj.cmp compares <, ==, > and hash agreement of parsed pairs with the model)."),
  note=("Trusted: as C07/C01; HashSrc abstracts hash(): equal sources give equal hashes. Partial: sorted(); hash of Datetime/Naming/Storage for all objects; "
        "comparison of groups of different shapes (NotImplemented protocol) are validated, not proved."),
  design="§6 C14")

CLAIMED["C15"] = dict(
  technique="Lean 4 proof: invariant by induction over call histories of a store-of-dictionaries model (no dictionary of a class is ever in the caller's hands), instantiated with aliasing facts probed on the real code by the translator; kernel-evaluated acceptance/rejection instances",
  text=("Theorems: C15_frozen_parse / C15_frozen_render - for EVERY call history (creating mappings and classes, asking for values()/formatter()/regex() dictionaries, "
        "setting and deleting keys of any dictionary the caller holds, at any point and in any order) and every constant class existing at some point, what the class accepts and "
        "renders after the history is what it accepted and rendered at that point (invariant Inv + extension relation Ext, step_frozen / run_frozen by induction); "
        "C15_created - a new class accepts and renders from one and the same snapshot of its source mapping; C15_inv_reachable - the invariant holds on every reachable "
        "state. The theorems are about the model instantiated with C15_flags: the four aliasing facts (dict2const copies; values(), formatter(), regex() hand out copies) "
        "that the translator probes on /repo's code on every run - a change that shares a dictionary flips a flag, the proof no longer checks and the history sweep "
        "searches the real code for a failing history. C15_instances / C15_to_const_serial / C15_history_instance - kernel-evaluated: one text per directive, other "
        "texts rejected with FormatterValueError, to_const of an instance, a concrete mutation history. 'Exactly the frozen text for every mapping and every "
        "text' and to_const for the five formatters and for groups (every subset of members) are decided by the sweep (snapshot oracle) and the correspondence "
        "(const.history runs whole histories through model and code)."),
  note=("Trusted: as C01; the four probes in extract.py (extensional: they mutate what the real code hands out and observe). Partial: acceptance of exactly the frozen text "
        "for ALL texts is validated, not proved (it needs the literal-matching lemma on the generated pattern). Two defects repaired in /repo: regex() handed out the "
        "cached dictionary itself; dict2const kept the caller's mapping."),
  design="§6 C15")

CLAIMED["C16"] = dict(
  technique="Lean 4 proof: Serial arithmetic for every object and operand by composing the operator definitions with from_value(n).value = n (C09's unbounded parse theorem); kernel-evaluated Datetime/Version/Naming instances",
  text=("Theorems, for EVERY Serial object a (however spelled) of value v and every int n / Serial b of value w, unbounded: C16_serial_add_int (a+n, n+a), "
        "C16_serial_sub_int, C16_serial_add_obj, C16_serial_sub_obj - when the value-level result is a natural number the operator yields an object of exactly that value; "
        "C16_serial_negative_add / _sub / _sub_obj - when it is negative the operator raises TypeError (FormatterValueError inside from_value becomes NotImplemented); "
        "C16_serial_rsub - n - Serial(a) is the plain number n - v. C16_instances - kernel-evaluated on operands parsed from text: Datetime +/- timedelta across day, month, "
        "year and leap-day carries (1900 vs 2000), overflow past 9999, Datetime - Datetime in microseconds, Version + triple, Naming + Naming. Datetime/Version/Naming for all "
        "operands, group adjust over every subset of members, the corpus of wrong operand types and 'no operand is modified' (value/string/hash snapshots) are decided by the "
        "sweep against Python's own int/datetime/list arithmetic and by the correspondence (arith.* ops on spelled operands)."),
  note=("Trusted: as C09; Arith.lean as the model of the dunder methods (NotImplemented protocol collapsed to TypeError); Cal.toOrdinal/ofOrdinal as the model of "
        "datetime arithmetic (validated against datetime). Partial: only Serial is proved for all operands; immutability holds in the model by construction and is observed on the real objects."),
  design="§6 C16")

CLAIMED["C18"] = dict(
  technique="Lean 4 proof: rendering agreement for every value by reduction to the shared rendering functions and the regenerated configuration; pattern-table agreement by kernel evaluation; kernel-evaluated parse instances",
  text=("Theorems: C18_serial_render - for every shared Serial directive (%n %p %b %c %u) and EVERY natural number the asset-defined and the classic Serial render the same text; "
        "C18_datetime_render - for every shared Datetime directive (%n %Y %m %d %H %M %S) and EVERY instant the two render the same text (the classic table's strftime pattern "
        "of each directive is the asset's, on the regenerated tables); C18_serial_patterns / C18_same_compiled - the patterns of %n %p %c %u and the anchors are identical in "
        "the two regenerated tables and formats over them compile to the same pattern text (%b is an 8-bit field in the asset table, unbounded in the classic one); "
        "C18_pad_agree / C18_bin_agree - on the WHOLE domain of the two fixed-width directives (every n < 1000 with %p, every n < 256 with %b, both modes) both implementations read the "
        "rendered text as n (kernel evaluation of the complete finite domains, lifted to the quantified statement); C18_format_tokeniser - both render with the same single-pass tokeniser; "
        "C18_parse_instances - kernel-evaluated: strings both accept are read as the same value in strict and non-strict mode, contradictory statements are rejected by both in "
        "strict mode, impossible dates by both. Agreement of parsed values for all strings and formats, of arithmetic and ordering, and the round trip on the asset formatters' "
        "own directives are decided by the sweep (classic formatters as reference) and the correspondence (aserial.* / adatetime.* ops)."),
  note=("Trusted: as C01; Assets.lean as the model of fmtutil/__assets.py (its Datetime renderer is strftime of the directive, validated by correspondence). Partial: parse agreement, "
        "arithmetic and ordering for all inputs are validated, not proved. Defect repaired in /repo: asset Datetime - Datetime raised FormatterValueError."),
  design="§6 C18")

CLAIMED["C19"] = dict(
  technique="Lean 4 proof: unescape∘re.escape = id and strict UTF-8 decode∘encode = id by induction for every string; literal-regex theorem for every text; kernel evaluation of the regex parser on escaped texts; entry-point facts probed by the translator",
  text=("Theorems: C19_unescape_escape - for EVERY string t, unescape(re.escape(t)) = t (the escape set is regenerated by probing re.escape and contains the backslash); "
        "C19_literal_only - for EVERY t and s, the literal regex of t matches s from first to last character iff s = t ('matches t and nothing else'); "
        "C19_escape_parses_ascii / _pairs - the text re.escape produces is read by the regex parser as that literal regex, for every one-character string over ASCII 0..127 "
        "and every two-character string over a 29-character metacharacter alphabet (kernel evaluation); C19_utf8_roundtrip - for EVERY string s, strict UTF-8 decoding of "
        "its encoding gives s (all four sequence lengths, surrogate gap, by omega on the bit arithmetic), hence C19_bytes_equal_text - bytes2str gives the same text for the "
        "bytes as for the str and TypeError for anything else; C19_entry_points - all ten parse entry points (five formatters, constants, groups, three version classes) "
        "decode bytes and raise TypeError on other types: probed on /repo by the translator on every run; C19_source_shape - the unescape pattern/flags and the use of "
        "re.escape read from the source; C19_escape_group_instances - placeholders kept, rest escaped. Longer texts through the regex parser, placeholder embedding, real group "
        "parses with escaped file-name text, invalid UTF-8 and the wrong-type corpus are decided by the sweep (CPython's own regex parser as judge) and the correspondence."),
  note=("Trusted: as C01; CPython's re.escape (probed per character) and str(bytes,'utf-8','strict') (model Esc.decode validated on random and malformed byte strings). "
        "Partial: 'the parser reads re.escape(t) as the literal regex' is proved for strings of length <= 2 over the alphabet, validated beyond."),
  design="§6 C19")

CLAIMED["C17"] = dict(
  technique="Lean 4 proof: refinement of the lru_cache'd engine to the cache-free function by induction over every call history, plus a regenerated inventory of all process-wide mutable state pinned by a theorem",
  text=("Theorems: C17_history - for EVERY history of class creations and operations (any function of cls.regex() and its own arguments - parse, gen_format, regex, format, "
        "comparisons - on any class, failing or not, in any order, hence every interleaving of atomic steps of concurrent threads) from any cache state holding only correctly "
        "computed tables, every call returns what it returns with no cache at all; C17_fresh - the same as from the empty cache of a fresh interpreter; C17_call_alone - the "
        "result of a call is a function of the classes created before it and of its own arguments, no other call appears in it; C17_inventory - the complete inventory of "
        "process-wide mutable state in fmtutil (module-level containers, class-level containers, functools caches), regenerated by the translator from the imported modules on "
        "every run, is exactly the audited list: two regex() caches and read-only lookup tables; C17_cache_key - the cache is keyed by the class alone. A new module-level "
        "dict, memo or cache changes the inventory and the proof no longer checks; then (and on every run anyway) the sweep searches the real code: every pool item's outcome "
        "in random call orders and under 2..16 threads with a 1 microsecond switch interval is compared with its outcome alone in a fresh interpreter, and instances are "
        "snapshotted around format/valid/comparison/hash/arithmetic/values/to_const."),
  note=("Trusted: as C01; extract_shared_state's notion of mutable state (dict/list/set/bytearray objects and functools caches reachable as module or class attributes; closures and "
        "instance state are per call by construction and covered by the sweep only); steps are atomic in the model - real preemption inside lru_cache and dict operations is "
        "exercised by the threaded sweep, not proved. Immutability of instances holds in the model by construction."),
  design="§6 C17")

CLAIMED["C03"] = dict(
  technique="Lean 4 proof: kernel evaluation of the group model on the regenerated tables (prefix-related member names, two declaration orders, default placeholders, repeats incl. inner repeats, escaped literal text) and general theorems by induction about occurrence-tagged capture keys; reference-slice sweep for the unbounded statement",
  text=("Theorems (kernel-evaluated, declaration with member names date / datetime / date_time - prefixes of one another - in two declaration orders): C03_members - every member of the "
        "parsed group is exactly the object the member's own class parses from its own slice (memberAgrees compares the two objects), whatever the declaration order; C03_default_fmt - a "
        "placeholder without a format uses the member's base format and an omitted member is the default; C03_repeats - agreeing occurrences are merged, disagreeing ones rejected with "
        "FormatterValueError; C03_repeats_inner - the same for a directive repeated inside an occurrence that is itself repeated, at every disagreeing position (captures of different "
        "occurrences are kept apart: translator flag group_merge_apart, read off the code's behaviour); general (induction over the key): C03_tag_keeps_field / C03_tags_apart / "
        "C03_single_occurrence - tagging a capture key with its occurrence never changes the field it maps back to and never merges two keys; C03_format - formatting is the members' renderings joined by the literal text and what was printed parses back; C03_literal - escaped literal text with regex "
        "metacharacters matches itself around placeholders; C03_unknown - a placeholder naming no member is FormatterGroupArgumentError. The statement for all declarations (1..4 members of "
        "the five formatters and constants), names, orders, formats and C01-domain values is decided by the sweep - each member's own parse/format of its slice is the reference - and by "
        "the correspondence (group.gen_format / parse / parse_format / cmp)."),
  note=("Trusted: as C01; Group.lean as the model of FormatterGroup (validated by correspondence on random declarations). Partial: no unbounded theorem - the composition of member "
        "patterns inside one group pattern for arbitrary declarations needs a regex composition lemma that was not proved."),
  design="§6 C03")
