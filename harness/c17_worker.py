"""Pool items of C17 and their evaluation.  Run as a script it evaluates items given as JSON lines on stdin in a FRESH
interpreter — one item per process is the reference outcome of that item."""
from __future__ import annotations

import json
import sys


def _classes():
    import fmtutil
    from fmtutil import __assets as A
    return {"serial": fmtutil.Serial, "datetime": fmtutil.Datetime, "naming": fmtutil.Naming, "version": fmtutil.Version, "storage": fmtutil.Storage,
            "envconst": fmtutil.EnvConst, "aserial": A.Serial, "adatetime": A.Datetime, "ver": fmtutil.Ver, "versemver": fmtutil.VerSemver, "verpkg": fmtutil.VerPackage}


class Registry:
    """dynamic classes are created when an item first needs them — mid-sequence"""

    def __init__(self):
        self.made = {}

    def get(self, recipe):
        kind = recipe[0]
        if kind == "builtin":
            return _classes()[recipe[1]]
        key = json.dumps(recipe)
        if key not in self.made:
            from fmtutil import make_const, make_group
            if kind == "const":
                self.made[key] = make_const(name=recipe[1], formatter=dict(recipe[2]))
            elif kind == "group":
                self.made[key] = make_group({nm: _classes()[k] for nm, k in recipe[1]})
            elif kind == "subclass":
                # a subclass with its own configuration has its own patterns: it must not see its parent's
                import fmtutil
                if recipe[1] == "serial5":
                    class Serial5(fmtutil.Serial):
                        class Config(fmtutil.Serial.Config):
                            serial_max_padding = 5
                    self.made[key] = Serial5
                elif recipe[1] == "serial2":
                    class Serial2(fmtutil.Serial):
                        class Config(fmtutil.Serial.Config):
                            serial_max_padding = 2
                            serial_max_binary = 4
                    self.made[key] = Serial2
                else:
                    raise KeyError(recipe[1])
            else:
                raise KeyError(kind)
        return self.made[key]


def show(v):
    import datetime as _dt
    import decimal
    if isinstance(v, (_dt.datetime, decimal.Decimal)):
        return str(v)
    if isinstance(v, (list, tuple)):
        return "[" + ",".join(show(x) for x in v) + "]"
    if hasattr(v, "groups") and isinstance(getattr(v, "groups"), dict):
        return "{" + ";".join(f"{k}={x.string}" for k, x in v.groups.items()) + "}"
    return str(v)


def evaluate(item, reg: Registry) -> str:
    """outcome of one pool item: value/text, or the exception type"""
    try:
        cls = reg.get(item["cls"])
        op, a = item["op"], item["args"]
        if op == "parse":
            o = cls.parse(a[0], a[1], **({"strict": a[2]} if len(a) > 2 and a[2] is not None else {})) if a[1] is not None else cls.parse(a[0])
            return "ok:" + (show(o) if not hasattr(o, "value") else show(o.value) + "|" + o.string)
        if op == "parse_format":
            o = cls.parse(a[0], a[1])
            return "ok:" + o.format(a[2])
        if op == "gen_format":
            g = cls.gen_format(a[0])
            return "ok:" + (g if isinstance(g, str) else g[0])
        if op == "regex":
            return "ok:" + json.dumps(cls.regex(), sort_keys=True)
        if op == "cmp":
            x, y = cls.parse(a[0], a[1]), cls.parse(a[2], a[3])
            return "ok:" + ",".join(str(b) for b in (x < y, x == y, x > y, hash(x) == hash(y)))
        if op == "valid":
            o = cls.parse(a[0], a[1])
            return "ok:" + str(o.valid(a[2], a[3]))
        if op == "arith":
            o = cls.parse(a[0], a[1])
            r = o + a[2]
            return "ok:" + show(r.value)
        if op == "toconst":
            o = cls.parse(a[0], a[1])
            if hasattr(o, "groups") and isinstance(o.groups, dict):
                C = o.to_const(a[2]) if a[2] is not None else o.to_const()
                return "ok:" + ";".join(f"{k}={v.__name__}:{json.dumps(v.regex(), sort_keys=True)}" for k, v in C.base_groups.items())
            C = o.to_const()
            return "ok:" + C.__name__ + ":" + json.dumps(C.regex(), sort_keys=True)
        if op == "toconst_chain":
            # a constant of a constant: the class that comes back belongs to the object it was asked of
            o = cls.parse(a[0], a[1])
            c1 = o.to_const().parse(a[0], a[1])
            C = c1.to_const()
            return "ok:" + C.__name__ + ":" + json.dumps(C.regex(), sort_keys=True) + ":" + C.parse(a[0], a[1]).format(a[1])
        raise KeyError(op)
    except RecursionError:
        raise
    except BaseException as e:  # noqa: BLE001
        return "err:" + type(e).__name__


if __name__ == "__main__":
    reg = Registry()
    for line in sys.stdin:
        line = line.strip()
        if line:
            print(json.dumps(evaluate(json.loads(line), reg)), flush=True)   # JSON: an outcome may end in a space or contain a newline
