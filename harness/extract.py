#!/usr/bin/env python
"""Translator: re-emit the declarative half of the Lean model from /repo's working tree.

Runs under /venv/bin/python in a fresh process.  Three extraction modes (DESIGN §4.1):
introspection of live objects, `ast` literal extraction for tables inside function bodies
(located by content, not by line), extensional probing of finite functions.

Output: lean/FmtModel/Generated/Tables.lean (deterministic text; only rewritten when changed).
Exit status 0 = tables written; 3 = a table could not be extracted (the tie is broken; the
caller goes to the failing-input search, it does not guess).
"""
from __future__ import annotations

import ast
import inspect
import os
import re
import sys
import textwrap

HERE = os.path.dirname(os.path.abspath(__file__))
sys.path.insert(0, HERE)
from common import REPO, LEAN_DIR  # noqa: E402

OUT = os.path.join(LEAN_DIR, "FmtModel", "Generated", "Tables.lean")


class ExtractError(Exception):
    pass


def lean_chr(ch: str) -> str:
    o = ord(ch)
    if ch == "\\":
        return "'\\\\'"
    if ch == "'":
        return "'\\''"
    if ch == "\n":
        return "'\\n'"
    if ch == "\t":
        return "'\\t'"
    if 32 <= o <= 126:
        return f"'{ch}'"
    return f"(Char.ofNat {o})"


def lean_str(s: str) -> str:
    """a Python str as a Lean `List Char` literal (String literals are far too slow to unfold in
    the kernel: `String.toList` of a 1 100-character literal takes minutes under `decide +kernel`)"""
    return "[" + ", ".join(lean_chr(c) for c in s) + "]"


def lean_list(items, f=lean_str) -> str:
    return "[" + ", ".join(f(i) for i in items) + "]"


def lean_opt_str(s) -> str:
    return "none" if s is None else f"(some {lean_str(s)})"


def lean_level(level) -> str:
    if level is None:
        return "[0]"
    if isinstance(level, int):
        return f"[{level}]"
    return "[" + ", ".join(str(int(x)) for x in level) + "]"


# ---------------------------------------------------------------------------------------------
# ast helpers


def module_ast(mod) -> ast.Module:
    return ast.parse(inspect.getsource(mod))


def find_func(tree: ast.AST, name: str, cls: str | None = None) -> ast.FunctionDef:
    for node in ast.walk(tree):
        if cls is not None:
            if isinstance(node, ast.ClassDef) and node.name == cls:
                for sub in ast.walk(node):
                    if isinstance(sub, (ast.FunctionDef, ast.AsyncFunctionDef)) and sub.name == name:
                        return sub
        elif isinstance(node, (ast.FunctionDef, ast.AsyncFunctionDef)) and node.name == name:
            return node
    raise ExtractError(f"function {cls + '.' if cls else ''}{name} not found")


def str_consts(node: ast.AST) -> list[str]:
    return [n.value for n in ast.walk(node) if isinstance(n, ast.Constant) and isinstance(n.value, str)]


def re_call_patterns(func: ast.AST, methods=("match", "search", "finditer", "sub", "compile", "findall", "fullmatch")) -> list[tuple[str, str]]:
    """(method, pattern-text) for every `re.<method>(<literal>, …)` call in source order.
    f-strings are rendered with `{}` placeholders for the interpolated parts."""
    res = []
    calls = [n for n in ast.walk(func) if isinstance(n, ast.Call)]
    calls.sort(key=lambda n: (n.lineno, n.col_offset))
    for n in calls:
        f = n.func
        if isinstance(f, ast.Attribute) and isinstance(f.value, ast.Name) and f.value.id == "re" and f.attr in methods and n.args:
            a = n.args[0]
            if isinstance(a, ast.Constant) and isinstance(a.value, str):
                res.append((f.attr, a.value))
            elif isinstance(a, ast.JoinedStr):
                parts = []
                for v in a.values:
                    if isinstance(v, ast.Constant):
                        parts.append(v.value)
                    else:
                        parts.append("\x00")
                res.append((f.attr, "".join(parts)))
    return res


# ---------------------------------------------------------------------------------------------


def extract_versions(emit):
    import fmtutil.__version as V

    tree = module_ast(V)
    B, P, S = V.BaseVersion, V.VersionPackage, V.VersionSemver
    for name, cre in (
        ("ver_base_regex", B.regex),
        ("ver_base_regex_opt", B.regex_optional_minor_and_patch),
        ("ver_sem_regex", S.regex),
        ("ver_sem_regex_opt", S.regex_optional_minor_and_patch),
        ("ver_pkg_regex", P.regex),
    ):
        if not (cre.flags & re.VERBOSE):
            raise ExtractError(f"{name}: expected a VERBOSE pattern")
        if cre.flags & (re.IGNORECASE | re.MULTILINE | re.DOTALL):
            raise ExtractError(f"{name}: unexpected flags {cre.flags}")
        emit(f"def {name} : List Char := {lean_str(cre.pattern)}")
    # which parse variants each class actually uses for optional_minor_and_patch (extensional)
    def accepts(cls, s, **kw):
        try:
            cls.parse(s, **kw)
            return True
        except ValueError:
            return False

    emit(f"def ver_base_slots : List (List Char) := {lean_list(B.__slots__)}")
    emit(f"def ver_sem_slots : List (List Char) := {lean_list(S.__slots__)}")
    emit(f"def ver_pkg_slots : List (List Char) := {lean_list(P.__slots__)}")

    # valid parts of next_version, by probing
    def valid_parts(cls, sample):
        out = []
        cand = list(dict.fromkeys(list(cls.__slots__) + ["epoch", "major", "minor", "patch", "pre", "post", "dev", "local", "build"]))
        for part in cand:
            try:
                cls.parse(sample).next_version(part)
                out.append(part)
            except ValueError as e:
                if "Invalid part" not in str(e):
                    out.append(part)
            except Exception:
                out.append(part)
        return out

    emit(f"def ver_base_parts : List (List Char) := {lean_list(valid_parts(B, '1.2.3'))}")
    emit(f"def ver_sem_parts : List (List Char) := {lean_list(valid_parts(S, '1.2.3'))}")
    emit(f"def ver_pkg_parts : List (List Char) := {lean_list(valid_parts(P, '1.2.3'))}")

    # _extract_letter: its regexes and the spelling table
    fn = find_func(tree, "_extract_letter", "BaseVersion")
    pats = [p for m, p in re_call_patterns(fn) if m == "match"]
    if len(pats) != 2:
        raise ExtractError(f"_extract_letter: expected 2 re.match patterns, found {pats}")
    emit(f"def extract_letter_regex : List Char := {lean_str(pats[0])}")
    emit(f"def extract_letter_implicit_regex : List Char := {lean_str(pats[1])}")
    table = None
    for n in ast.walk(fn):
        if isinstance(n, ast.For) and isinstance(n.iter, ast.Tuple):
            try:
                table = ast.literal_eval(n.iter)
            except Exception:
                pass
    if not table or not all(isinstance(t, tuple) and all(isinstance(x, str) for x in t) for t in table):
        raise ExtractError("_extract_letter: spelling table not found")
    emit("def extract_letter_table : List (List (List Char)) := " + lean_list(table, lambda t: lean_list(t)))

    # increment: the regex it compiles
    fn = find_func(tree, "increment")
    pats = [p for m, p in re_call_patterns(fn)]
    if len(pats) != 1:
        raise ExtractError("increment: regex not found")
    emit(f"def increment_regex : List Char := {lean_str(pats[0])}")

    # __extract_local split regex
    fn = find_func(tree, "__extract_local", "VersionPackage")
    pats = [p for m, p in re_call_patterns(fn)]
    if len(pats) != 1:
        raise ExtractError("__extract_local: regex not found")
    emit(f"def extract_local_split : List Char := {lean_str(pats[0])}")

    # match: operator tables
    fn = find_func(tree, "__validate_expr_match", "BaseVersion")
    tuples = []
    for n in ast.walk(fn):
        if isinstance(n, ast.Compare) and isinstance(n.comparators[0], ast.Tuple):
            tuples.append(ast.literal_eval(n.comparators[0]))
    if len(tuples) != 2:
        raise ExtractError("__validate_expr_match: operator tuples not found")
    two = [t for t in tuples if all(len(x) == 2 for x in t)]
    one = [t for t in tuples if all(len(x) == 1 for x in t)]
    if len(two) != 1 or len(one) != 1:
        raise ExtractError("__validate_expr_match: unexpected operator tuples")
    emit(f"def match_ops2 : List (List Char) := {lean_list(two[0])}")
    emit(f"def match_ops1 : List (List Char) := {lean_list(one[0])}")
    digit_strs = [s for s in str_consts(fn) if s and set(s) <= set("0123456789") and len(s) >= 2]
    if len(digit_strs) != 1:
        raise ExtractError("__validate_expr_match: bare-version digit set not found")
    emit(f"def match_bare_first : List Char := {lean_str(digit_strs[0])}")
    fn = find_func(tree, "match", "BaseVersion")
    poss = None
    for n in ast.walk(fn):
        if isinstance(n, ast.Dict) and n.keys and all(isinstance(k, ast.Constant) and isinstance(k.value, str) for k in n.keys):
            try:
                d = ast.literal_eval(n)
            except Exception:
                continue
            if all(isinstance(v, tuple) for v in d.values()):
                poss = d
    if poss is None:
        raise ExtractError("match: possibilities table not found")
    emit(
        "def match_possibilities : List (List Char × List Int) := "
        + lean_list(poss.items(), lambda kv: f"({lean_str(kv[0])}, [" + ", ".join(f"({int(x)} : Int)" for x in kv[1]) + "])")
    )
    tilde = None
    for n in ast.walk(fn):
        if isinstance(n, ast.Compare) and isinstance(n.ops[0], ast.In) and isinstance(n.comparators[0], ast.Tuple):
            t = ast.literal_eval(n.comparators[0])
            if all(isinstance(x, str) for x in t):
                tilde = t
                break
    if tilde is None:
        raise ExtractError("match: tilde operator tuple not found")
    emit(f"def match_tilde_ops : List (List Char) := {lean_list(tilde)}")


def fstring_template(node) -> str | None:
    """text of a str constant or f-string, with \x00 for interpolated parts"""
    if isinstance(node, ast.Constant) and isinstance(node.value, str):
        return node.value
    if isinstance(node, ast.JoinedStr):
        return "".join(v.value if isinstance(v, ast.Constant) else "\x00" for v in node.values)
    return None


def emit_class_tables(emit, prefix: str, cls, inst):
    fm = cls.formatter()
    rows = []
    for k, v in fm.items():
        if "regex" in v:
            rows.append((k, False, v["regex"]))
        elif "cregex" in v:
            rows.append((k, True, v["cregex"]))
        else:
            raise ExtractError(f"{prefix}: directive {k} has neither regex nor cregex")
        if "value" not in v:
            raise ExtractError(f"{prefix}: directive {k} has no renderer")
    emit(f"def {prefix}_formatter : List (List Char × Bool × List Char) := " + lean_list(rows, lambda r: f"({lean_str(r[0])}, {'true' if r[1] else 'false'}, {lean_str(r[2])})"))
    pr = inst.priorities
    emit(f"def {prefix}_priorities : List (List Char × List Nat) := " + lean_list(pr.items(), lambda kv: f"({lean_str(kv[0])}, {lean_level(kv[1].get('level', (0,)))})"))
    emit(f"def {prefix}_base_fmt : List Char := {lean_str(cls.base_fmt)}")
    emit(f"def {prefix}_base_level : Nat := {int(cls.base_level)}")
    emit(f"def {prefix}_slots : List (List Char) := {lean_list(cls.__slots__)}")
    emit(f"def {prefix}_name : List Char := {lean_str(cls.__name__)}")


def extract_formatters(emit):
    import functools
    import fmtutil.formatter as F

    tree = module_ast(F)
    # the engine's meta-regexes ------------------------------------------------------------------
    fn = find_func(tree, "gen_format", "Formatter")
    pats = re_call_patterns(fn)
    fi = [p for m, p in pats if m == "finditer"]
    su = [p for m, p in pats if m == "sub"]
    if len(fi) != 1 or len(su) != 2:
        raise ExtractError(f"Formatter.gen_format: expected 1 finditer + 2 sub patterns, got {pats}")
    rename = [p for p in su if "\x00" in p]
    token = [p for p in su if "\x00" not in p]
    if len(rename) != 1 or len(token) != 1:
        raise ExtractError(f"Formatter.gen_format: unexpected sub patterns {su}")
    emit(f"def gen_format_token_re : List Char := {lean_str(token[0])}")
    emit(f"def gen_format_inner_re : List Char := {lean_str(fi[0])}")
    pre, _, post = rename[0].partition("\x00")
    emit(f"def gen_format_sub_pre : List Char := {lean_str(pre)}")
    emit(f"def gen_format_sub_post : List Char := {lean_str(post)}")
    # what `%%` is replaced by
    pct = None
    for n in ast.walk(fn):
        if isinstance(n, ast.If) and isinstance(n.test, ast.Compare) and isinstance(n.test.comparators[0], ast.Constant) and n.test.comparators[0].value == "%%":
            for b in n.body:
                if isinstance(b, ast.Return) and isinstance(b.value, ast.Constant):
                    pct = b.value.value
    if pct is None:
        raise ExtractError("Formatter.gen_format: the replacement of '%%' was not found")
    emit(f"def gen_format_percent : List Char := {lean_str(pct)}")
    # replacement template of the sub and the escape handling, by ast
    tmpl = None
    for n in ast.walk(fn):
        if isinstance(n, ast.JoinedStr):
            t = fstring_template(n)
            if t and t.startswith("(?P<"):
                tmpl = t
    # adjacent f-strings are concatenated by the parser into one JoinedStr
    if tmpl is None or tmpl.count("\x00") != 4:
        raise ExtractError(f"Formatter.gen_format: alias template not found ({tmpl!r})")
    parts = tmpl.split("\x00")
    emit(f"def gen_format_alias_parts : List (List Char) := {lean_list(parts)}")
    # regex() may delegate to a cached helper (`cls._regex()`): follow the calls on `cls`
    fn = find_func(tree, "regex", "Formatter")
    pats = [p for m, p in re_call_patterns(fn) if m == "finditer"]
    if not pats:
        for n in ast.walk(fn):
            if isinstance(n, ast.Call) and isinstance(n.func, ast.Attribute) and isinstance(n.func.value, ast.Name) and n.func.value.id == "cls":
                try:
                    helper = find_func(tree, n.func.attr, "Formatter")
                except Exception:  # noqa: BLE001
                    continue
                pats += [p for m, p in re_call_patterns(helper) if m == "finditer"]
    if len(pats) != 1:
        raise ExtractError("Formatter.regex: token pattern not found")
    emit(f"def regex_token_re : List Char := {lean_str(pats[0])}")
    def format_shape(fn, who):
        """(token pattern, single pass?, what '%%' becomes) of a `format` method.  Single pass: one re.sub with a
        replacement function that returns a constant for '%%'.  The older shape (mask '%%', finditer, str.replace on
        the evolving string) is recognised so that a return to it is reported as a changed shape, not as a crash."""
        subs = [p for m, p in re_call_patterns(fn) if m == "sub"]
        finds = [p for m, p in re_call_patterns(fn) if m == "finditer"]
        if len(subs) == 1 and not finds:
            pct = None
            for n in ast.walk(fn):
                if isinstance(n, ast.If) and isinstance(n.test, ast.Compare) and isinstance(n.test.comparators[0], ast.Constant) and n.test.comparators[0].value == "%%":
                    for b in n.body:
                        if isinstance(b, ast.Return) and isinstance(b.value, ast.Constant):
                            pct = b.value.value
            if pct is None:
                raise ExtractError(f"{who}.format: the replacement of '%%' was not found")
            return subs[0], True, pct
        if len(finds) == 1:
            return finds[0], False, "%"
        raise ExtractError(f"{who}.format: token pattern not found")

    fn = find_func(tree, "format", "Formatter")
    tok, single, pct = format_shape(fn, "Formatter")
    emit(f"def format_token_re : List Char := {lean_str(tok)}")
    emit(f"def format_single_pass : Bool := {'true' if single else 'false'}")
    emit(f"def format_percent : List Char := {lean_str(pct)}")
    # the sentinel regex() masks '%%' with while it expands composite patterns
    rfn = find_func(tree, "_regex", "Formatter") if any(isinstance(n, ast.FunctionDef) and n.name == "_regex" for n in ast.walk(tree)) else find_func(tree, "regex", "Formatter")
    strs = [c for c in str_consts(rfn)]
    if "[ESCAPE]" not in strs or "%%" not in strs:
        raise ExtractError("Formatter.regex: escape sentinel not found")
    emit(f"def format_escape : List Char := {lean_str('[ESCAPE]')}")
    fn = find_func(tree, "from_value", "Formatter")
    pats = [p for m, p in re_call_patterns(fn) if m == "findall"]
    if len(pats) != 1:
        raise ExtractError("Formatter.from_value: token pattern not found")
    emit(f"def from_value_token_re : List Char := {lean_str(pats[0])}")
    fn = find_func(tree, "parse", "Formatter")
    pats = [p for m, p in re_call_patterns(fn) if m == "search"]
    if len(pats) != 1 or pats[0].count("\x00") != 1:
        raise ExtractError("Formatter.parse: anchored search not found")
    a, _, b = pats[0].partition("\x00")
    emit(f"def parse_anchor_pre : List Char := {lean_str(a)}")
    emit(f"def parse_anchor_post : List Char := {lean_str(b)}")
    fn = find_func(tree, "__parse", "FormatterGroup")
    pats = [p for m, p in re_call_patterns(fn) if m == "search"]
    if len(pats) != 1 or pats[0].count("\x00") != 1:
        raise ExtractError("FormatterGroup.__parse: anchored search not found")
    a, _, b = pats[0].partition("\x00")
    emit(f"def group_anchor_pre : List Char := {lean_str(a)}")
    emit(f"def group_anchor_post : List Char := {lean_str(b)}")
    fn = find_func(tree, "gen_format", "FormatterGroup")
    pats = [p for m, p in re_call_patterns(fn) if m == "finditer"]
    if len(pats) != 1 or pats[0].count("\x00") != 1:
        raise ExtractError("FormatterGroup.gen_format: placeholder pattern not found")
    a, _, b = pats[0].partition("\x00")
    emit(f"def group_gen_pre : List Char := {lean_str(a)}")
    emit(f"def group_gen_post : List Char := {lean_str(b)}")
    fn = find_func(tree, "format", "FormatterGroup")
    pats = [p for m, p in re_call_patterns(fn) if m == "finditer"]
    if len(pats) != 1:
        raise ExtractError("FormatterGroup.format: placeholder pattern not found")
    emit(f"def group_format_re : List Char := {lean_str(pats[0])}")
    # how FormatterGroup.parse merges the captures of several occurrences of one member: are the captures of every
    # occurrence kept apart (key + "__" + occurrence), or merged under the bare key (where the counter of a directive
    # repeated inside one occurrence collides with the suffix of the next occurrence)?  Read off the behaviour.
    _G = F.make_group({"y": F.Serial})
    try:
        _G.parse("12 12 12 12", "{y:%n %n} {y:%n %n}")
    except Exception as e:  # noqa: BLE001
        raise ExtractError(f"FormatterGroup.parse: agreeing repeated occurrences are refused ({type(e).__name__})")
    apart = []
    for _t in ("12 13 12 12", "12 12 13 12"):
        try:
            _G.parse(_t, "{y:%n %n} {y:%n %n}")
            apart.append(False)
        except F.FormatterValueError:
            apart.append(True)
    if apart[0] != apart[1] and apart != [False, True]:
        raise ExtractError(f"FormatterGroup.parse: merge of repeated occurrences has an unknown shape {apart}")
    emit(f"def group_merge_apart : Bool := {'true' if all(apart) else 'false'}")

    # the five formatter classes ----------------------------------------------------------------
    emit_class_tables(emit, "serial", F.Serial, F.Serial())
    emit(f"def serial_max_padding : Nat := {int(F.Serial.Config.serial_max_padding)}")
    emit(f"def serial_max_binary : Nat := {int(F.Serial.Config.serial_max_binary)}")
    emit_class_tables(emit, "datetime", F.Datetime, F.Datetime())
    emit_class_tables(emit, "version", F.Version, F.Version())
    emit_class_tables(emit, "naming", F.Naming, F.Naming())
    emit_class_tables(emit, "storage", F.Storage, F.Storage())
    emit(f"def storage_rounding : Nat := {int(F.Storage.Config.storage_rounding)}")
    emit(f"def months : List (List Char × List Char) := " + lean_list(F.MONTHS.items(), lambda kv: f"({lean_str(kv[0])}, {lean_str(kv[1])})"))
    emit(f"def weeks : List (List Char × List Char) := " + lean_list(F.WEEKS.items(), lambda kv: f"({lean_str(kv[0])}, {lean_str(kv[1])})"))
    emit(f"def weeks_full : List (List Char × List Char) := " + lean_list(F.WEEKS_FULL.items(), lambda kv: f"({lean_str(kv[0])}, {lean_str(kv[1])})"))
    emit(f"def sizes : List (List Char) := {lean_list(F.SIZE)}")

    # Datetime renderer table: directive -> (strip leading zeros?, strftime directive)
    import datetime as _dt
    probe = _dt.datetime(2023, 9, 8, 7, 6, 5, 4321)
    rows = []
    for k, v in F.Datetime.formatter(probe).items():
        f = v["value"]
        if not isinstance(f, functools.partial):
            raise ExtractError(f"Datetime renderer of {k} is not a functools.partial")
        name = getattr(f.func, "__name__", "")
        if name == "strftime" and len(f.args) == 1 and getattr(f.func, "__self__", None) == probe:
            rows.append((k, False, f.args[0]))
        elif name == "remove_pad_dt" and len(f.args) == 2 and f.args[0] == probe:
            rows.append((k, True, f.args[1]))
        else:
            raise ExtractError(f"Datetime renderer of {k}: unexpected shape {f!r}")
    emit("def datetime_renderers : List (List Char × Bool × List Char) := " + lean_list(rows, lambda r: f"({lean_str(r[0])}, {'true' if r[1] else 'false'}, {lean_str(r[2])})"))

    # Version.__from_prefix table
    fn = find_func(tree, "__from_prefix", "Version")
    table = None
    for n in ast.walk(fn):
        if isinstance(n, ast.For) and isinstance(n.iter, ast.Tuple):
            try:
                table = ast.literal_eval(n.iter)
            except Exception:
                pass
    if not table:
        raise ExtractError("Version.__from_prefix: table not found")
    emit("def from_prefix_table : List (List Char × List (List Char)) := " + lean_list(table, lambda t: f"({lean_str(t[0])}, {lean_list(t[1])})"))
    pats = [p for m, p in re_call_patterns(fn) if m == "match"]
    if len(pats) != 3:
        raise ExtractError(f"Version.__from_prefix: expected 3 patterns, got {pats}")
    emit(f"def from_prefix_tail : List Char := {lean_str(pats[0].partition(chr(0))[2])}")
    emit(f"def from_prefix_tail2 : List Char := {lean_str(pats[1].partition(chr(0))[2])}")
    emit(f"def from_prefix_implicit : List Char := {lean_str(pats[2])}")


def extract_assets(emit):
    import fmtutil.__assets as A

    def rows(asset):
        out = []
        for k, f in asset.items():
            if isinstance(f, A.CommonFormat):
                out.append((k, f.alias, False, f.regex))
            elif isinstance(f, A.CombineFormat):
                out.append((k, f.alias, True, f.cregex))
            else:
                raise ExtractError(f"asset entry {k}: unknown format type")
            if not callable(f.fmt):
                raise ExtractError(f"asset entry {k}: no renderer")
        return out

    row = lambda r: f"({lean_str(r[0])}, {lean_str(r[1])}, {'true' if r[2] else 'false'}, {lean_str(r[3])})"  # noqa: E731
    emit("def asset_serial_rows : List (List Char × List Char × Bool × List Char) := " + lean_list(rows(A.Serial.asset), row))
    emit(f"def asset_serial_default_fmt : List Char := {lean_str(A.Serial.config.default_fmt)}")
    emit(f"def asset_serial_max_padding : Nat := {int(A.SERIAL_MAX_PADDING)}")
    emit(f"def asset_serial_max_binary : Nat := {int(A.SERIAL_MAX_BINARY)}")
    emit("def asset_datetime_rows : List (List Char × List Char × Bool × List Char) := " + lean_list(rows(A.Datetime.asset), row))
    emit(f"def asset_datetime_default_fmt : List Char := {lean_str(A.Datetime.config.default_fmt)}")
    # the default year of the asset Datetime, by probing
    emit(f"def asset_datetime_default_year : Nat := {A.Datetime().year}")
    tree = module_ast(A)
    fn = find_func(tree, "parse", "Formatter")
    pats = [p for m, p in re_call_patterns(fn) if m == "search"]
    if len(pats) != 1 or pats[0].count("\x00") != 1:
        raise ExtractError("asset Formatter.parse: anchored search not found")
    a, _, b = pats[0].partition("\x00")
    emit(f"def asset_anchor_pre : List Char := {lean_str(a)}")
    emit(f"def asset_anchor_post : List Char := {lean_str(b)}")
    # the asset engine repeats the classic tokenisers: they must be the same texts
    fn = find_func(tree, "gen_format", "Formatter")
    pats = re_call_patterns(fn)
    fi = [p for m, p in pats if m == "finditer"]
    token = [p for m, p in pats if m == "sub" and "\x00" not in p]
    if len(fi) != 1 or len(token) != 1:
        raise ExtractError("asset Formatter.gen_format: patterns not found")
    emit(f"def asset_gen_format_token_re : List Char := {lean_str(token[0])}")
    emit(f"def asset_gen_format_inner_re : List Char := {lean_str(fi[0])}")
    fn = find_func(tree, "format", "Formatter")
    subs = [p for m, p in re_call_patterns(fn) if m == "sub"]
    finds = [p for m, p in re_call_patterns(fn) if m == "finditer"]
    emit(f"def asset_format_token_re : List Char := {lean_str(subs[0] if len(subs) == 1 and not finds else (finds[0] if finds else ''))}")
    emit(f"def asset_format_single_pass : Bool := {'true' if len(subs) == 1 and not finds else 'false'}")


def extract_probes(emit):
    """extensional facts about aliasing of constant classes (C15): does a later change of the
    source mapping, or of the dictionary values() hands out, reach the class?"""
    import fmtutil.formatter as F

    m = {"%n": "abc", "%d": "dev"}
    C = F.dict2const(m, "ProbeConst")
    before = C.parse("abc", "%n").format("%n")
    m["%n"] = "xyz"
    after_src = C.parse("abc", "%n").format("%n")
    d = C.parse("abc", "%n").values()
    d["%n"] = "q"
    after_vals = C.parse("abc", "%n").format("%n")
    # which characters of a constant text are escaped in its pattern (extensional, per character)
    esc_chars = []
    for o in range(32, 127):
        ch = chr(o)
        rx = F.dict2const({"%n": ch}, "ProbeConst").regex()["%n"]
        if rx == "(?P<november>\\" + ch + ")":
            esc_chars.append(ch)
        elif rx != "(?P<november>" + ch + ")":
            raise ExtractError(f"dict2const: unexpected pattern for the one-character text {ch!r}: {rx!r}")
    emit(f"def const_escape_chars : List Char := {lean_str(''.join(esc_chars))}")
    emit(f"def const_aliases_source : Bool := {'true' if after_src != before else 'false'}")
    emit(f"def const_values_aliases : Bool := {'true' if after_vals != before else 'false'}")
    # does a change of the dictionary regex() / formatter() hands out reach the class?  (fresh classes: regex() is cached per class)
    C2 = F.dict2const({"%n": "abc", "%d": "dev"}, "ProbeConst2")
    rx0 = dict(C2.regex())
    handed = C2.regex()
    handed["%n"] = "(?P<november>q)"
    handed.pop("%d", None)
    fm = C2.formatter()
    fm["%n"]["value"] = "q"
    fm["%n"]["regex"] = "(?P<november>q)"
    reached = dict(C2.regex()) != rx0 or C2.formatter()["%n"]["value"] != "abc"
    try:
        reached = reached or C2.parse("abc", "%n").format("%n") != "abc"
    except Exception:  # noqa: BLE001
        reached = True
    emit(f"def const_regex_aliases : Bool := {'true' if reached else 'false'}")
    # the same for an ordinary formatter class
    rx0 = dict(F.Naming.regex())
    handed = F.Naming.regex()
    saved = dict(handed)
    handed["%n"] = "(?P<strings>q)"
    reached = dict(F.Naming.regex()) != rx0
    if reached:  # undo, the cache is shared with the rest of this process
        handed.clear()
        handed.update(saved)
    emit(f"def fmt_regex_aliases : Bool := {'true' if reached else 'false'}")


def extract_escape(emit):
    """utils.escape_fmt_group / unescape / bytes2str (C19): patterns by ast, re.escape's character set and the
    entry points' treatment of bytes / wrong types by probing"""
    import inspect
    import re as _re
    import fmtutil.utils as U
    import fmtutil.formatter as F
    import fmtutil.__version as V

    tree = ast.parse(inspect.getsource(U))
    fn = find_func(tree, "escape_fmt_group")
    pats = [p for m, p in re_call_patterns(fn) if m == "finditer"]
    if len(pats) != 1:
        raise ExtractError("escape_fmt_group: placeholder pattern not found")
    emit(f"def escape_group_re : List Char := {lean_str(pats[0])}")
    tmpls = set()
    for n in ast.walk(fn):
        if isinstance(n, ast.JoinedStr):
            parts = []
            for v in n.values:
                if isinstance(v, ast.Constant):
                    parts.append(v.value)
                else:
                    spec = fstring_template(v.format_spec) if v.format_spec is not None else ""
                    parts.append("\x00" + (spec or "") + "\x00")
            if any("\x00" in q for q in parts):
                tmpls.add("".join(parts))
    if len(tmpls) != 1:
        raise ExtractError(f"escape_fmt_group: sentinel template not found ({tmpls})")
    t = tmpls.pop()
    pre, spec, post = t.split("\x00")
    m = _re.fullmatch(r"0(\d+)d", spec)
    if not m:
        raise ExtractError(f"escape_fmt_group: unexpected sentinel number format {spec!r}")
    emit(f"def escape_sentinel_pre : List Char := {lean_str(pre)}")
    emit(f"def escape_sentinel_post : List Char := {lean_str(post)}")
    emit(f"def escape_sentinel_width : Nat := {int(m.group(1))}")
    # enumerate(..., start=k)
    start = None
    for n in ast.walk(fn):
        if isinstance(n, ast.Call) and isinstance(n.func, ast.Name) and n.func.id == "enumerate":
            start = 0
            for kw in n.keywords:
                if kw.arg == "start" and isinstance(kw.value, ast.Constant):
                    start = kw.value.value
    if start is None:
        raise ExtractError("escape_fmt_group: enumerate not found")
    emit(f"def escape_sentinel_start : Nat := {start}")
    uses_re_escape = any(isinstance(n, ast.Call) and isinstance(n.func, ast.Attribute) and n.func.attr == "escape" and isinstance(n.func.value, ast.Name) and n.func.value.id == "re" for n in ast.walk(fn))
    emit(f"def escape_uses_re_escape : Bool := {'true' if uses_re_escape else 'false'}")
    fn = find_func(tree, "unescape")
    subs = [n for n in ast.walk(fn) if isinstance(n, ast.Call) and isinstance(n.func, ast.Attribute) and n.func.attr == "sub" and isinstance(n.func.value, ast.Name) and n.func.value.id == "re"]
    if len(subs) != 1 or len(subs[0].args) < 3 or not all(isinstance(a, ast.Constant) for a in subs[0].args[:2]):
        raise ExtractError("unescape: the re.sub call was not found")
    emit(f"def unescape_pattern : List Char := {lean_str(subs[0].args[0].value)}")
    emit(f"def unescape_repl : List Char := {lean_str(subs[0].args[1].value)}")
    dotall = any(kw.arg == "flags" and isinstance(kw.value, ast.Attribute) and kw.value.attr in ("DOTALL", "S") for kw in subs[0].keywords)
    emit(f"def unescape_dotall : Bool := {'true' if dotall else 'false'}")
    # re.escape of this interpreter, per character
    special = [chr(o) for o in range(0, 128) if _re.escape(chr(o)) == "\\" + chr(o)]
    for o in list(range(0, 128)) + [0xE9, 0x4E2D, 0x1F600]:
        e = _re.escape(chr(o))
        if e not in (chr(o), "\\" + chr(o)):
            raise ExtractError(f"re.escape({chr(o)!r}) = {e!r}: neither the character nor its backslash escape")
        if o >= 128 and e != chr(o):
            raise ExtractError("re.escape escapes a non-ASCII character")
    emit(f"def re_escape_chars : List Char := {lean_str(''.join(special))}")
    # every parse entry point: bytes are decoded as UTF-8, anything else is TypeError
    import datetime as _dt
    K = F.dict2const({"%n": "d\u00e9v"}, "ProbeK")
    G = F.make_group({"name": K, "serial": F.Serial})
    entries = {
        "serial": (lambda v: F.Serial.parse(v, "%n").value, "12"),
        "datetime": (lambda v: F.Datetime.parse(v, "%Y").value, "2024"),
        "naming": (lambda v: F.Naming.parse(v, "%n").value, "data engineer"),
        "version": (lambda v: F.Version.parse(v, "%m.%n.%c").value, "1.2.3"),
        "storage": (lambda v: F.Storage.parse(v, "%b").value, "8"),
        "constant": (lambda v: K.parse(v, "%n").value, "d\u00e9v"),
        "group": (lambda v: str(G.parse(v, "{name:%n}_{serial:%n}")), "d\u00e9v_7"),
        "ver_base": (lambda v: str(V.BaseVersion.parse(v)), "1.2.3"),
        "ver_sem": (lambda v: str(V.VersionSemver.parse(v)), "1.2.3-rc.1"),
        "ver_pkg": (lambda v: str(V.VersionPackage.parse(v)), "1!1.2.3rc1"),
    }
    ok_bytes, ok_type = [], []
    for name, (fn_, text) in entries.items():
        want = fn_(text)
        try:
            if fn_(text.encode("utf-8")) == want:
                ok_bytes.append(name)
        except Exception:  # noqa: BLE001
            pass
        good = True
        for wrong in (12, None, 1.5, ["x"], bytearray(b"12"), memoryview(b"12")):
            try:
                fn_(wrong)
                good = False
            except TypeError:
                pass
            except Exception:  # noqa: BLE001
                good = False
        if good:
            ok_type.append(name)
    emit(f"def entry_points : List (List Char) := {lean_list(list(entries))}")
    emit(f"def entry_points_decode_bytes : List (List Char) := {lean_list(ok_bytes)}")
    emit(f"def entry_points_type_error : List (List Char) := {lean_list(ok_type)}")


def extract_shared_state(emit):
    """inventory of process-wide mutable state in fmtutil (C17): module-level containers, class-level containers and
    functools caches.  A result can only depend on the call history through one of these."""
    import importlib
    mods = ["fmtutil", "fmtutil.formatter", "fmtutil.utils", "fmtutil.__version", "fmtutil.__assets", "fmtutil.exceptions", "fmtutil.__type", "fmtutil.__about__"]
    out = []
    skip = {"__annotations__", "__dataclass_fields__", "__match_args__", "__slots__", "__all__", "__path__", "__builtins__"}
    for mn in mods:
        try:
            m = importlib.import_module(mn)
        except ModuleNotFoundError:
            continue
        for name, val in sorted(vars(m).items()):
            if name in skip or (name.startswith("__") and name.endswith("__")):
                continue
            if isinstance(val, (dict, list, set, bytearray)):
                out.append(f"module:{mn}.{name}:{type(val).__name__}:{len(val)}")
            elif hasattr(val, "cache_info"):
                out.append(f"cache:{mn}.{name}")
            elif isinstance(val, type) and getattr(val, "__module__", None) == mn:
                for a, v in sorted(vars(val).items()):
                    if a in skip:
                        continue
                    f = getattr(v, "__func__", v)
                    if isinstance(v, (dict, list, set, bytearray)):
                        out.append(f"class:{mn}.{name}.{a}:{type(v).__name__}:{len(v)}")
                    elif hasattr(f, "cache_info"):
                        out.append(f"cache:{mn}.{name}.{a}")
    emit(f"def shared_state : List (List Char) := {lean_list(sorted(set(out)))}")
    # the memoised function is keyed by the class alone
    import inspect
    import fmtutil.formatter as F
    sig = list(inspect.signature(F.Formatter.__dict__["_regex"].__func__.__wrapped__).parameters) if "_regex" in F.Formatter.__dict__ else None
    emit(f"def regex_cache_params : List (List Char) := {lean_list(sig or [])}")


SECTIONS = [("versions", extract_versions), ("formatters", extract_formatters), ("assets", extract_assets), ("probes", extract_probes), ("escape", extract_escape), ("state", extract_shared_state)]


FILES = {"versions": "Ver", "formatters": "Fmt", "assets": "Assets", "probes": "Assets", "escape": "Esc", "state": "State"}


def generate() -> dict[str, str]:
    """one Lean file per group of sections, so that a changed table only rebuilds what depends on it"""
    out: dict[str, list[str]] = {}
    for name, fn in SECTIONS:
        lines = out.setdefault(FILES[name], [
            "/- GENERATED by /verif/harness/extract.py from /repo's working tree — do not edit. -/",
            "namespace Gen",
            "",
        ])
        lines.append(f"-- ---- {name} " + "-" * 60)
        fn(lines.append)
        lines.append("")
    files = {k: "\n".join(v + ["end Gen"]) + "\n" for k, v in out.items()}
    files["Tables"] = ("/- GENERATED: all regenerated tables. -/\n" + "".join(f"import FmtModel.Generated.{k}\n" for k in sorted(files)))
    return files


def main() -> int:
    try:
        files = generate()
    except ExtractError as e:
        print(f"EXTRACT-FAILED: {e}")
        return 3
    except Exception as e:  # the code no longer imports, a table has an unexpected type, ...
        print(f"EXTRACT-FAILED: {type(e).__name__}: {e}")
        return 3
    d = os.path.dirname(OUT)
    os.makedirs(d, exist_ok=True)
    changed = []
    for name, text in files.items():
        path = os.path.join(d, name + ".lean")
        old = open(path).read() if os.path.exists(path) else None
        if old != text:
            with open(path, "w") as f:
                f.write(text)
            changed.append(name)
    print("tables: rewritten " + ",".join(changed) if changed else "tables: unchanged")
    return 0


if __name__ == "__main__":
    sys.exit(main())
