#!/venv/bin/python
"""MANIFEST.setup_cmd: regenerate the tables from /repo, build the model library and the driver (must succeed), then
pre-build every property's theorem modules and the Findings witnesses with all cores.  The pre-build is bounded: on a
tree where a kernel-evaluated theorem became false Lean does not fail quickly, so the whole process group is killed after
SETUP_BUILD_TIMEOUT seconds and the individual checks (which build their own module in the background while they search
for a failing input) take over.  Exit status: 0 when the driver is built, 2 otherwise."""
import json
import os
import signal
import subprocess
import sys
import time

VERIF = os.path.dirname(os.path.dirname(os.path.abspath(__file__)))
LEAN = os.path.join(VERIF, "lean")
TIMEOUT = int(os.environ.get("SETUP_BUILD_TIMEOUT", "2700"))


def run(cmd, timeout):
    t0 = time.time()
    p = subprocess.Popen(cmd, cwd=LEAN, start_new_session=True)
    try:
        rc = p.wait(timeout=timeout)
    except subprocess.TimeoutExpired:
        try:
            os.killpg(os.getpgid(p.pid), signal.SIGKILL)
        except Exception:  # noqa: BLE001
            pass
        rc = 124
    print(f"[setup] {' '.join(cmd[:4])} … rc={rc} {time.time() - t0:.0f}s", flush=True)
    return rc


def main():
    rc = run(["/venv/bin/python", os.path.join(VERIF, "harness", "extract.py")], 600)
    if rc != 0:
        print("[setup] translator failed on this tree; the checks will report it", flush=True)
    if run(["lake", "build", "FmtModel", "fmtdrv"], 1800) != 0:
        return 2
    checks = json.load(open(os.path.join(VERIF, "MANIFEST.json")))["checks"]
    props = [f"FmtModel.Props.{c['property_id']}" for c in checks]
    findings = [f"FmtModel.Findings.{x[:-5]}" for x in sorted(os.listdir(os.path.join(LEAN, "FmtModel", "Findings"))) if x.endswith(".lean")]
    run(["lake", "build", *props, *findings], TIMEOUT)   # best effort: the checks build what is missing
    return 0


if __name__ == "__main__":
    sys.exit(main())
