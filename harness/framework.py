"""Correspondence / sweep framework shared by the per-property modules.

Two streams (DESIGN §4.3):
  * Cases  — model ≡ implementation: one protocol line per case, the implementation's canonical
             outcome computed in-process, the model's by the Lean driver; they must be equal.
  * Sweep  — specification vs implementation: an independent oracle judges the real code; every
             disagreement is a property violation on the real code (matched against the committed
             known findings).
"""
from __future__ import annotations

import collections
import hashlib
import json
import os
from typing import Any, Callable

from common import VERIF, err_name, line, run_model


# ---- stall guard: a call into the library that does not come back (a pattern that backtracks for ever, a loop) must end
# as a failing input, not as a check that never finishes.  Every note / check / case is a tick; an interval timer looks
# whether there was a tick since its last look and, when there was none, raises StallError inside the call that hangs
# (CPython's regex engine and bytecode loop both honour signals).  Suspended while the harness itself waits (driver run).
_progress = [0]
_suspended = [0]


class StallError(Exception):
    pass


class StallAbort(BaseException):
    """after a few stalls the search stops: what it found so far is the result"""


_stalls = [0]
_current_sweep = [None]
MAX_STALLS = 3


def tick():
    _progress[0] += 1


def install_stall_guard(seconds: float = 60.0):
    import signal
    import threading
    if threading.current_thread() is not threading.main_thread():
        return
    last = [-1]

    def handler(signum, frame):
        if _suspended[0]:
            last[0] = -1
            return
        if _progress[0] == last[0]:
            last[0] = -1
            _stalls[0] += 1
            if _stalls[0] > MAX_STALLS:
                raise StallAbort(f"{_stalls[0]} calls into the library did not return within {seconds:.0f} s each")
            raise StallError(f"a call into the library did not return within {seconds:.0f} s")
        last[0] = _progress[0]

    signal.signal(signal.SIGALRM, handler)
    signal.setitimer(signal.ITIMER_REAL, seconds, seconds)


def remove_stall_guard():
    import signal
    try:
        signal.setitimer(signal.ITIMER_REAL, 0)
    except Exception:  # noqa: BLE001
        pass


class suspended_guard:
    def __enter__(self):
        _suspended[0] += 1

    def __exit__(self, *a):
        _suspended[0] -= 1
        tick()


def outcome(fn: Callable[[], str]) -> str:
    try:
        return fn()
    except (RecursionError, StallAbort):
        raise
    except BaseException as e:  # noqa: BLE001 - the kind of exception *is* the outcome
        return "err:" + err_name(e)


class Cases:
    """model-vs-implementation cases"""

    def __init__(self, name: str):
        self.name = name
        self.lines: list[str] = []
        self.exp: list[str] = []
        self.desc: list[Any] = []
        self.ops = collections.Counter()
        self.kinds = collections.Counter()

    def add(self, op: str, args: list[str], pyfn: Callable[[], str], desc: Any = None):
        self.lines.append(line(op, *args))
        tick()
        e = outcome(pyfn)
        self.exp.append(e)
        self.desc.append(desc if desc is not None else [op, *args])
        self.ops[op] += 1
        self.kinds["err:" + e[4:] if e.startswith("err:") else "ok"] += 1

    def __len__(self):
        return len(self.lines)

    def run(self) -> list[dict]:
        """returns the disagreements"""
        with suspended_guard():
            out = run_model(self.lines)
        bad = []
        from common import MODEL_CRASH
        self.model_crashes = sum(1 for o in out if o == MODEL_CRASH)
        for i, (o, e) in enumerate(zip(out, self.exp)):
            if o == MODEL_CRASH:
                continue
            if o != e:
                bad.append({"op": self.lines[i].split("\t")[0], "case": self.desc[i], "model": o, "impl": e})
        return bad

    def stats(self) -> dict:
        return {
            "cases": len(self.lines),
            "distinct": len(set(self.lines)),
            "ops": dict(self.ops),
            "outcomes": dict(self.kinds),
            "model_crashes_skipped": getattr(self, "model_crashes", 0),
        }


class Sweep:
    """spec-vs-implementation oracle results"""

    def __init__(self, prop: str):
        self.prop = prop
        _current_sweep[0] = self
        self.evaluations = 0
        self.seen: set[str] = set()
        self.violations: list[dict] = []
        self.branches = collections.Counter()
        self.samples: list[Any] = []
        self._per_key = collections.Counter()

    def note(self, key: Any, branch: str | None = None):
        tick()
        self.evaluations += 1
        k = json.dumps(key, sort_keys=True, default=str)
        if k not in self.seen:
            self.seen.add(k)
            if len(self.samples) < 6:
                self.samples.append(key)
        if branch:
            self.branches[branch] += 1

    def check(self, ok: bool, what: str, case: dict, expected: Any = None, actual: Any = None, snippet: str | None = None):
        """record a violation when `ok` is false"""
        tick()
        if ok:
            return True
        # keep up to 60 records per (what, clause, kind) so that one frequent failure class cannot
        # crowd another one out of the record
        key = (what, case.get("clause"), case.get("kind"), case.get("cls"))
        self._per_key[key] += 1
        if self._per_key[key] <= 60 and len(self.violations) < 3000:
            self.violations.append(
                {"property": self.prop, "what": what, "case": case, "expected": expected, "actual": actual, "snippet": snippet}
            )
        return False

    def stats(self) -> dict:
        return {"evaluations": self.evaluations, "distinct": len(self.seen), "branches": dict(self.branches)}


# --- known findings ------------------------------------------------------------------------------


def load_known_findings() -> list[dict]:
    p = os.path.join(VERIF, "known_findings.json")
    if not os.path.exists(p):
        return []
    with open(p) as f:
        data = json.load(f)
    return data.get("findings", [])


def match_finding(finding: dict, v: dict) -> bool:
    """A finding matches a violation record when the property agrees and every key of the
    finding's `match` object equals (or, for lists, contains) the record's case value."""
    if finding.get("property") != v.get("property"):
        return False
    m = finding.get("match", {})
    case = dict(v.get("case", {}))
    case["what"] = v.get("what")
    for k, want in m.items():
        if k == "kind_has":
            # the record's kind is a comma-separated set; the finding names the member(s) it explains
            kinds = set(str(case.get("kind", "")).split(","))
            wants = want if isinstance(want, list) else [want]
            if not (kinds & set(wants)):
                return False
            continue
        have = case.get(k)
        if isinstance(want, list):
            if have not in want:
                return False
        elif have != want:
            return False
    return True


def triage(violations: list[dict], prop: str):
    """split violations into (new, known) and return the known finding ids that matched"""
    findings = [f for f in load_known_findings() if f.get("property") == prop and f.get("status", "open") == "open"]
    new, known = [], collections.OrderedDict()
    for v in violations:
        hit = None
        for f in findings:
            if match_finding(f, v):
                hit = f
                break
        if hit is None:
            new.append(v)
        else:
            known.setdefault(hit["id"], {"finding": hit, "count": 0, "example": v})["count"] += 1
    return new, known


def write_replay(prop: str, payload: dict) -> str:
    d = os.path.join(VERIF, "replays", prop)
    os.makedirs(d, exist_ok=True)
    blob = json.dumps(payload, indent=1, sort_keys=True, default=str)
    h = hashlib.sha1(blob.encode()).hexdigest()[:12]
    p = os.path.join(d, f"{h}.json")
    with open(p, "w") as f:
        f.write(blob)
    return os.path.relpath(p, VERIF)
