"""Shared plumbing for the correspondence harness: repo import, hex line protocol, model driver."""
from __future__ import annotations

import os
import subprocess
import sys
import random
import time

VERIF = os.path.dirname(os.path.dirname(os.path.abspath(__file__)))
REPO = os.environ.get("VERIF_REPO", "/repo")
LEAN_DIR = os.path.join(VERIF, "lean")
DRV = os.path.join(LEAN_DIR, ".lake", "build", "bin", "fmtdrv")

if REPO not in sys.path:
    sys.path.insert(0, REPO)
os.environ.setdefault("LC_ALL", "C")


def seed() -> int:
    try:
        return int(os.environ.get("VERIF_SEED", "0"))
    except ValueError:
        return 0


def rng(tag: str = "") -> random.Random:
    return random.Random(f"{seed()}:{tag}")


def enc(s: str) -> str:
    return s.encode("utf-8", "surrogatepass").hex()


def esc(s: str) -> str:
    out = []
    for ch in s:
        o = ord(ch)
        if 32 <= o <= 126 and ch not in "\\|,;=~":
            out.append(ch)
        else:
            out.append("\\u{%x}" % o)
    return "".join(out)


def line(op: str, *args: str) -> str:
    return "\t".join([op, *[enc(a) for a in args]])


MODEL_CRASH = "model-crash"   # marker for a line the executable model could not evaluate (skipped by Cases.run, counted)


def _run_driver(lines: list[str], timeout: float):
    data = ("\n".join(lines) + "\n").encode()
    p = subprocess.run([DRV], input=data, stdout=subprocess.PIPE, stderr=subprocess.PIPE, timeout=timeout)
    out = p.stdout.decode().split("\n")
    if out and out[-1] == "":
        out.pop()
    return p.returncode, out, p.stderr.decode()[:500]


def run_model(lines: list[str], timeout: float = 600.0) -> list[str]:
    """Feed protocol lines to the Lean driver, return one output line per input line.  If the driver dies on some input
    (a runtime panic of the compiled model, e.g. an astronomically large power), the offending lines are isolated by
    bisection and answered with MODEL_CRASH: a limitation of the model says nothing about the code, so such a line is
    skipped and counted rather than reported as a disagreement."""
    if not lines:
        return []
    if not os.path.exists(DRV):
        raise RuntimeError(f"model driver missing: {DRV} (run setup)")
    rc, out, err = _run_driver(lines, timeout)
    if rc == 0 and len(out) == len(lines):
        return out
    if len(lines) == 1:
        return [MODEL_CRASH]
    res: list[str] = []
    budget = [40]   # at most this many single-line isolations

    def solve(chunk):
        rc_, out_, _ = _run_driver(chunk, timeout)
        if rc_ == 0 and len(out_) == len(chunk):
            return out_
        if len(chunk) == 1:
            budget[0] -= 1
            return [MODEL_CRASH]
        if budget[0] <= 0:
            raise RuntimeError(f"model driver failed on too many inputs: {err}")
        mid = len(chunk) // 2
        return solve(chunk[:mid]) + solve(chunk[mid:])

    res = solve(lines)
    return res


def err_name(e: BaseException) -> str:
    """Canonical exception kind: most specific class the model's Err enum knows."""
    import decimal, re as _re
    from fmtutil import exceptions as X
    table = [
        (X.FormatterGroupValueError, "FormatterGroupValueError"),
        (X.FormatterGroupArgumentError, "FormatterGroupArgumentError"),
        (X.FormatterValueError, "FormatterValueError"),
        (X.FormatterKeyError, "FormatterKeyError"),
        (X.FormatterArgumentError, "FormatterArgumentError"),
        (decimal.InvalidOperation, "InvalidOperation"),
        (_re.error, "re.error"),
        (UnicodeDecodeError, "UnicodeDecodeError"),
        (NotImplementedError, "NotImplementedError"),
        (OverflowError, "OverflowError"),
        (KeyError, "KeyError"),
        (IndexError, "IndexError"),
        (AttributeError, "AttributeError"),
        (TypeError, "TypeError"),
        (ValueError, "ValueError"),
    ]
    for cls, name in table:
        if isinstance(e, cls):
            return name
    return type(e).__name__


class Timer:
    def __init__(self):
        self.t0 = time.time()

    def s(self) -> float:
        return round(time.time() - self.t0, 3)
