"""Shared plumbing for the correspondence harness: repo import, hex line protocol, model driver."""
from __future__ import annotations

import os
import subprocess
import sys
import random
import time

VERIF = os.path.dirname(os.path.dirname(os.path.abspath(__file__)))
REPO = os.environ.get("VERIF_REPO", "/repo")
LEAN_DIR = os.path.join(VERIF, "lean")
DRV = os.path.join(LEAN_DIR, ".lake", "build", "bin", "fmtdrv")

if REPO not in sys.path:
    sys.path.insert(0, REPO)
os.environ.setdefault("LC_ALL", "C")


def seed() -> int:
    try:
        return int(os.environ.get("VERIF_SEED", "0"))
    except ValueError:
        return 0


def rng(tag: str = "") -> random.Random:
    return random.Random(f"{seed()}:{tag}")


def enc(s: str) -> str:
    return s.encode("utf-8", "surrogatepass").hex()


def esc(s: str) -> str:
    out = []
    for ch in s:
        o = ord(ch)
        if 32 <= o <= 126 and ch not in "\\|,;=~":
            out.append(ch)
        else:
            out.append("\\u{%x}" % o)
    return "".join(out)


def line(op: str, *args: str) -> str:
    return "\t".join([op, *[enc(a) for a in args]])


def run_model(lines: list[str], timeout: float = 600.0) -> list[str]:
    """Feed protocol lines to the Lean driver, return one output line per input line."""
    if not lines:
        return []
    if not os.path.exists(DRV):
        raise RuntimeError(f"model driver missing: {DRV} (run setup)")
    data = ("\n".join(lines) + "\n").encode()
    p = subprocess.run([DRV], input=data, stdout=subprocess.PIPE, stderr=subprocess.PIPE, timeout=timeout)
    if p.returncode != 0:
        raise RuntimeError(f"model driver failed rc={p.returncode}: {p.stderr.decode()[:2000]}")
    out = p.stdout.decode().split("\n")
    if out and out[-1] == "":
        out.pop()
    if len(out) != len(lines):
        raise RuntimeError(f"model driver returned {len(out)} lines for {len(lines)} inputs")
    return out


def err_name(e: BaseException) -> str:
    """Canonical exception kind: most specific class the model's Err enum knows."""
    import decimal, re as _re
    from fmtutil import exceptions as X
    table = [
        (X.FormatterGroupValueError, "FormatterGroupValueError"),
        (X.FormatterGroupArgumentError, "FormatterGroupArgumentError"),
        (X.FormatterValueError, "FormatterValueError"),
        (X.FormatterKeyError, "FormatterKeyError"),
        (X.FormatterArgumentError, "FormatterArgumentError"),
        (decimal.InvalidOperation, "InvalidOperation"),
        (_re.error, "re.error"),
        (UnicodeDecodeError, "UnicodeDecodeError"),
        (NotImplementedError, "NotImplementedError"),
        (OverflowError, "OverflowError"),
        (KeyError, "KeyError"),
        (IndexError, "IndexError"),
        (AttributeError, "AttributeError"),
        (TypeError, "TypeError"),
        (ValueError, "ValueError"),
    ]
    for cls, name in table:
        if isinstance(e, cls):
            return name
    return type(e).__name__


class Timer:
    def __init__(self):
        self.t0 = time.time()

    def s(self) -> float:
        return round(time.time() - self.t0, 3)
