"""Independent specifications (oracles) used by the sweeps.  Nothing in this file calls fmtutil."""
from __future__ import annotations

import re
from fractions import Fraction

# ------------------------------------------------------------------------------------------------ tokens (C12)


def scan(fmt: str):
    """left to right: '%%' -> ('pct',), '%[-+!*]?[A-Za-z]' -> ('dir', text), anything else literal"""
    toks = []
    i = 0
    while i < len(fmt):
        if fmt.startswith("%%", i):
            toks.append(("pct", "%%"))
            i += 2
            continue
        m = re.match(r"%[-+!*]?[A-Za-z]", fmt[i:])
        if m:
            toks.append(("dir", m.group()))
            i += len(m.group())
            continue
        toks.append(("lit", fmt[i]))
        i += 1
    return toks


# ------------------------------------------------------------------------------------------------ calendar (C02)

MONTH_ABBR = ["Jan", "Feb", "Mar", "Apr", "May", "Jun", "Jul", "Aug", "Sep", "Oct", "Nov", "Dec"]
MONTH_FULL = ["January", "February", "March", "April", "May", "June", "July", "August", "September", "October", "November", "December"]
DAY_ABBR = ["Sun", "Mon", "Tue", "Wed", "Thu", "Fri", "Sat"]
DAY_FULL = ["Sunday", "Monday", "Tuesday", "Wednesday", "Thursday", "Friday", "Saturday"]


def is_leap(y: int) -> bool:
    return y % 4 == 0 and (y % 100 != 0 or y % 400 == 0)


def days_in_month(y: int, m: int) -> int:
    return [31, 29 if is_leap(y) else 28, 31, 30, 31, 30, 31, 31, 30, 31, 30, 31][m - 1]


def days_before_year(y: int) -> int:
    p = y - 1
    return 365 * p + p // 4 - p // 100 + p // 400


def yday(y: int, m: int, d: int) -> int:
    return sum(days_in_month(y, k) for k in range(1, m)) + d


def ordinal(y: int, m: int, d: int) -> int:
    return days_before_year(y) + yday(y, m, d)


def wday_sun(y: int, m: int, d: int) -> int:
    """0 = Sunday (0001-01-01 is a Monday)"""
    return ordinal(y, m, d) % 7


def week_u(y, m, d):
    return (yday(y, m, d) - 1 + 7 - wday_sun(y, m, d)) // 7


def week_w(y, m, d):
    return (yday(y, m, d) - 1 + 7 - ((wday_sun(y, m, d) + 6) % 7)) // 7


def strftime_spec(directive: str, t) -> str:
    """t = (y, m, d, H, M, S, us)"""
    y, m, d, H, M, S, us = t
    w = wday_sun(y, m, d)
    table = {
        "%Y": f"{y:04d}", "%y": f"{y % 100:02d}", "%m": f"{m:02d}", "%b": MONTH_ABBR[m - 1], "%B": MONTH_FULL[m - 1],
        "%a": DAY_ABBR[w], "%A": DAY_FULL[w], "%w": str(w), "%u": str(7 if w == 0 else w), "%d": f"{d:02d}", "%H": f"{H:02d}",
        "%I": f"{(H % 12) or 12:02d}", "%M": f"{M:02d}", "%S": f"{S:02d}", "%j": f"{yday(y, m, d):03d}", "%U": f"{week_u(y, m, d):02d}",
        "%W": f"{week_w(y, m, d):02d}", "%p": "AM" if H < 12 else "PM", "%f": f"{us:06d}",
    }
    if directive == "%n":
        return f"{y:04d}{m:02d}{d:02d}_{H:02d}{M:02d}{S:02d}"
    if directive.startswith("%-"):
        s = table["%" + directive[2:]].lstrip("0")
        return s or "0"
    return table[directive]


# ------------------------------------------------------------------------------------------------ case styles (C08)

VOWELS = set("aeiou")


def style(directive: str, ws: list[str]) -> str:
    cap = lambda w: w[:1].upper() + w[1:].lower()  # noqa: E731
    if directive in ("%n", "%l"):
        return " ".join(ws)
    if directive in ("%N", "%u"):
        return " ".join(w.upper() for w in ws)
    if directive in ("%-N", "%t"):
        return " ".join(cap(w) for w in ws)
    if directive == "%a":
        return "".join(w[0] for w in ws)
    if directive == "%A":
        return "".join(w[0].upper() for w in ws)
    if directive == "%f":
        return "".join(ws)
    if directive == "%F":
        return "".join(ws).upper()
    if directive == "%c":
        return ws[0] + "".join(w[:1].upper() + w[1:] for w in ws[1:])
    if directive in ("%-c", "%p"):
        return "".join(w[:1].upper() + w[1:] for w in ws)
    if directive == "%k":
        return "-".join(ws)
    if directive == "%K":
        return "-".join(w.upper() for w in ws)
    if directive in ("%-K", "%T"):
        return "-".join(cap(w) for w in ws)
    if directive == "%s":
        return "_".join(ws)
    if directive == "%S":
        return "_".join(w.upper() for w in ws)
    if directive == "%-S":
        return "_".join(cap(w) for w in ws)
    if directive == "%v":
        return "".join(ch for ch in "".join(ws) if ch not in VOWELS)
    if directive == "%V":
        return "".join(ch for ch in "".join(ws).upper() if ch.lower() not in VOWELS)
    raise KeyError(directive)


FULL_NAME_STYLES = ["%n", "%l", "%N", "%u", "%-N", "%t", "%c", "%-c", "%p", "%k", "%K", "%-K", "%T", "%s", "%S", "%-S"]
ABBREV_STYLES = ["%a", "%A", "%f", "%F", "%v", "%V"]

# ------------------------------------------------------------------------------------------------ exact sizes (C09)

UNITS = ["B", "KB", "MB", "GB", "TB", "PB", "EB", "ZB", "YB"]


def half_even(q: Fraction) -> int:
    fl = q.numerator // q.denominator
    rem = q - fl
    if rem > Fraction(1, 2):
        return fl + 1
    if rem < Fraction(1, 2):
        return fl
    return fl if fl % 2 == 0 else fl + 1


def unit_factor(k: int) -> int:
    return 8 * 1024 ** k
