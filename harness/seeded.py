#!/usr/bin/env python3
"""seeded.py add <property> <src_dir> <name> [--needs TEXT]
Confirm a seeded change (patch.diff + demo.py in src_dir) in a scratch worktree of /repo:
the suite still passes with the change, the demonstration passes without it and fails with it.
Then store it as /verif/seeded/<name>/ with meta.json.   seeded.py run [<name>…] runs the
registered checks against each stored change (apply to /repo, check, undo)."""
import json, os, shutil, subprocess, sys, tempfile

VERIF = os.path.dirname(os.path.dirname(os.path.abspath(__file__)))
PY = "/venv/bin/python"


def sh(cmd, cwd=None, env=None):
    p = subprocess.run(cmd, cwd=cwd, env=env, stdout=subprocess.PIPE, stderr=subprocess.STDOUT)
    return p.returncode, p.stdout.decode(errors="replace")


def add(prop, src, name, needs):
    wt = tempfile.mkdtemp(prefix="seedwt_", dir="/tmp")
    os.rmdir(wt)
    rc, out = sh(["git", "-C", "/repo", "worktree", "add", "-q", "--detach", wt, "HEAD"])
    assert rc == 0, out
    try:
        env = dict(os.environ, PYTHONPATH=wt, PYTHONDONTWRITEBYTECODE="1")
        demo = os.path.join(src, "demo.py")
        rc0, out0 = sh([PY, demo], cwd=wt, env=env)
        rc, out = sh(["git", "-C", wt, "apply", os.path.join(src, "patch.diff")])
        assert rc == 0, "patch does not apply: " + out
        rct, outt = sh([PY, "-m", "pytest", "-q", "-p", "no:cacheprovider", "-x"], cwd=wt, env=env)
        tail = outt.strip().split("\n")[-1]
        rc1, out1 = sh([PY, demo], cwd=wt, env=env)
        ok = rc0 == 0 and rc1 != 0 and rct == 0 and "131 passed" in tail
        print(f"{name}: demo clean rc={rc0}, demo patched rc={rc1}, suite: {tail} -> {'CONFIRMED' if ok else 'REJECTED'}")
        if not ok:
            print(out0[-500:], out1[-500:])
            return 1
        dst = os.path.join(VERIF, "seeded", name)
        os.makedirs(dst, exist_ok=True)
        shutil.copy(os.path.join(src, "patch.diff"), dst)
        # the demo was written against the agent's own worktree path: make it location independent
        text = open(demo).read().replace(src.replace("_out", "").rsplit("/", 1)[0], "/repo")
        open(os.path.join(dst, "demo.py"), "w").write(text)
        notes = open(os.path.join(src, "notes.txt")).read() if os.path.exists(os.path.join(src, "notes.txt")) else ""
        meta = {"breaks": prop, "needs_to_manifest": needs or notes[:1500], "confirmed": {
            "suite_with_change": tail, "demo_without_change_rc": rc0, "demo_with_change_rc": rc1,
            "ran": ["git worktree add <scratch> HEAD", "python demo.py (clean)", "git apply patch.diff", "pytest -q", "python demo.py (patched)"]},
            "source": "written by an independent sub-agent that saw only the property text"}
        json.dump(meta, open(os.path.join(dst, "meta.json"), "w"), indent=1)
        return 0
    finally:
        sh(["git", "-C", "/repo", "worktree", "remove", "--force", wt])


def run(names):
    base = os.path.join(VERIF, "seeded")
    names = names or sorted(os.listdir(base))
    res = {}
    for n in names:
        meta = json.load(open(os.path.join(base, n, "meta.json")))
        prop = meta["breaks"]
        rc, out = sh(["git", "-C", "/repo", "apply", os.path.join(base, n, "patch.diff")])
        if rc != 0:
            print(n, "patch does not apply", out)
            continue
        try:
            rc, out = sh([os.path.join(VERIF, "check"), prop], cwd=VERIF)
        finally:
            sh(["git", "-C", "/repo", "checkout", "--", "."])
        vio = [l for l in out.split("\n") if l.startswith("VIOLATION")]
        summ = [l for l in out.split("\n") if " theorems=" in l and "->" in l]
        caught = []
        if summ:
            import re
            m = re.search(r"theorems=(\d+) proved=(\d+) corr=(\d+) cases/(\d+) diffs sweep=(\d+) evals/(\d+) new", summ[-1])
            if m:
                th, pr, _, diffs, _, new = map(int, m.groups())
                if th == 0 or pr < th:
                    caught.append("proof no longer checks")
                if diffs:
                    caught.append("correspondence model-vs-code")
                if new:
                    caught.append("sweep (failing input on the real code)")
        res[n] = {"property": prop, "exit": rc, "violation": vio[0] if vio else None, "summary": summ[-1].strip() if summ else None, "caught_by": caught}
        print(f"{n}: exit={rc} {vio[0] if vio else 'MISSED'}")
        meta["last_run"] = res[n]
        json.dump(meta, open(os.path.join(base, n, "meta.json"), "w"), indent=1)
    return res


def table():
    """markdown table of the stored changes and what caught them (from the last `run`)"""
    base = os.path.join(VERIF, "seeded")
    rows = ["| change | breaks | what it needs to manifest | caught by | result |", "|---|---|---|---|---|"]
    for n in sorted(os.listdir(base)):
        mp = os.path.join(base, n, "meta.json")
        if not os.path.exists(mp):
            continue
        m = json.load(open(mp))
        lr = m.get("last_run") or {}
        needs = " ".join((m.get("needs_to_manifest") or "").split())[:220]
        rows.append(f"| {n} | {m['breaks']} | {needs} | {', '.join(lr.get('caught_by') or []) or '-'} | {'VIOLATION' if lr.get('violation') else ('not run' if not lr else 'MISSED')} |")
    open(os.path.join(base, "README.md"), "w").write("# Seeded changes\n\nEach directory holds `patch.diff` (apply with `git -C /repo apply`, undo with `git -C /repo checkout -- .`), "
        "`demo.py` (exits 0 on the unchanged code, non-zero with the change) and `meta.json`. The table is regenerated by `harness/seeded.py table` from the last "
        "`harness/seeded.py run`.\n\n" + "\n".join(rows) + "\n")
    print("\n".join(rows))


if __name__ == "__main__":
    if sys.argv[1] == "table":
        table()
        sys.exit(0)
    if sys.argv[1] == "add":
        needs = sys.argv[sys.argv.index("--needs") + 1] if "--needs" in sys.argv else None
        sys.exit(add(sys.argv[2], sys.argv[3], sys.argv[4], needs))
    elif sys.argv[1] == "run":
        run(sys.argv[2:])
