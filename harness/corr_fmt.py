"""model ≡ implementation for the formatter classes (engine + class models)."""
from __future__ import annotations

import datetime as _dt
import decimal
import random

from common import esc
from framework import Cases

import fmtutil
from fmtutil import Datetime, Naming, Serial, Storage, Version

SEPS = {
    "serial": list(" -/:;#@=~") + ["ab", "x"],
    "datetime": list(" -/:;,#@=~_"),
    "version": list(" -/:;,#@=~_"),
    "storage": list(" -/:;,#@=~_"),
    "naming": list("/:;,#@=~"),
}
CLASSES = {"serial": Serial, "datetime": Datetime, "version": Version, "naming": Naming, "storage": Storage}


def wopt(s):
    return "~" if s is None else "=" + esc(s)


def dec_text(d: decimal.Decimal) -> str:
    t = d.as_tuple()
    coeff = int("".join(map(str, t.digits))) if t.digits else 0
    return f"D{'-' if t.sign else ''}{coeff}e{t.exponent}"


def value_text(c: str, v) -> str:
    if c == "serial":
        return str(v)
    if c == "datetime":
        return f"{v.year:04d}-{v.month:02d}-{v.day:02d} {v.hour:02d}:{v.minute:02d}:{v.second:02d}.{v.microsecond:06d}"
    if c == "version":
        from gen_ver import wire
        return wire(v)
    if c == "naming":
        return ",".join(esc(w) for w in v)
    if c == "storage":
        return dec_text(v)
    return repr(v)


def parse_outcome(c, cls, value, fmt, strict):
    def f():
        o = cls.parse(value, fmt, strict=strict)
        try:
            s = o.string
            v = o.value
        except Exception as e:  # noqa: BLE001
            from common import err_name
            return "valerr:" + err_name(e)
        return "ok:" + esc(s) + "|" + value_text(c, v)

    return f


def directives(c):
    return list(CLASSES[c].formatter().keys())


def rand_fmt(r: random.Random, c: str, k: int | None = None, weird: float = 0.15) -> str:
    ds = directives(c)
    k = k or r.randint(1, 4)
    out = []
    for i in range(k):
        x = r.random()
        if x < weird / 3:
            out.append("%%")
        elif x < 2 * weird / 3:
            out.append(r.choice(["%", "%Q", "%-q", "%!x"]))
        elif x < weird:
            out.append(r.choice(ds) + r.choice(ds))
        else:
            out.append(r.choice(ds))
        if i < k - 1 or r.random() < 0.2:
            out.append(r.choice(SEPS[c]))
    return "".join(out)


def mutate(r: random.Random, s: str, alphabet: str) -> str:
    k = r.randrange(5)
    if k == 0 or not s:
        i = r.randrange(len(s) + 1)
        return s[:i] + r.choice(alphabet) + s[i:]
    i = r.randrange(len(s))
    if k == 1:
        return s[:i] + s[i + 1:]
    if k == 2:
        return s[:i] + r.choice(alphabet) + s[i + 1:]
    if k == 3:
        return s + r.choice(alphabet)
    return r.choice(alphabet) + s


SERIAL_VALUES = [0, 1, 7, 9, 10, 99, 100, 101, 255, 256, 999, 1000, 1001, 1234567, 2**53 - 1, 2**53, 2**53 + 1, 10**18, 10**30 + 7, 9999999999999999]


def serial_cases(r: random.Random, n: int) -> Cases:
    cs = Cases("serial")
    c, cls = "serial", Serial
    alpha = "0123456789,_ -ab\n١"
    cs.add("serial.regex", [], lambda: "ok:" + ",".join(esc(k) + "=" + esc(v) for k, v in cls.regex().items()))
    for _ in range(n):
        v = r.choice(SERIAL_VALUES + [r.randrange(0, 10 ** r.randint(1, 24))])
        fmt = rand_fmt(r, c)
        cs.add("serial.format", [str(v), fmt], lambda v=v, fmt=fmt: "ok:" + esc(cls.from_value(v).format(fmt)))
        cs.add("serial.from_value", [str(v)], lambda v=v: "ok:" + esc(cls.from_value(v).string))
        cs.add("serial.gen_format", [fmt, "", ""], lambda fmt=fmt: "ok:" + esc(cls.gen_format(fmt)))
        pre, suf = r.choice(["", "g___", "name__1___"]), r.choice(["", "__1", "__2"])
        cs.add("serial.gen_format", [fmt, pre, suf], lambda fmt=fmt, pre=pre, suf=suf: "ok:" + esc(cls.gen_format(fmt, prefix=pre, suffix=suf)))
        try:
            text = cls.from_value(v).format(fmt)
        except Exception:  # noqa: BLE001
            text = str(v)
        for t in (text, mutate(r, text, alpha)):
            strict = r.random() < 0.5
            cs.add("serial.parse", [t, wopt(fmt), "1" if strict else "0"], parse_outcome(c, cls, t, fmt, strict))
        fmt2 = rand_fmt(r, c, weird=0.05)
        cs.add("serial.parse_format", [text, wopt(fmt), "0", fmt2], lambda text=text, fmt=fmt, fmt2=fmt2: "ok:" + esc(cls.parse(text, fmt).format(fmt2)))
    for t in ["", "0", "007", "12\n", "1,234", "1_000", "101", "00000101", "abc", "١٢٣"]:
        cs.add("serial.parse", [t, "~", "0"], parse_outcome(c, cls, t, None, False))
    return cs


# ------------------------------------------------------------------------------------------------ Datetime

def rand_dt(r: random.Random) -> _dt.datetime:
    k = r.random()
    if k < 0.25:
        base = r.choice([_dt.datetime(1000, 1, 1), _dt.datetime(9999, 12, 31, 23, 59, 59, 999999), _dt.datetime(2000, 2, 29, 12), _dt.datetime(1900, 1, 1),
                         _dt.datetime(1999, 12, 31, 0, 0, 0), _dt.datetime(2023, 10, 10, 10, 10, 10, 10), _dt.datetime(2024, 12, 30, 12, 50, 20, 500000),
                         _dt.datetime(1905, 3, 20, 0, 30, 0), _dt.datetime(2021, 1, 3, 12, 0, 0), _dt.datetime(2018, 12, 31, 23, 0, 0)])
        return base
    y = r.choice([r.randint(1000, 9999), r.randint(1900, 1999), r.randint(1990, 2030)])
    m = r.randint(1, 12)
    d = r.randint(1, [31, 29 if (y % 4 == 0 and (y % 100 != 0 or y % 400 == 0)) else 28, 31, 30, 31, 30, 31, 31, 30, 31, 30, 31][m - 1])
    return _dt.datetime(y, m, d, r.choice([0, 1, 9, 10, 11, 12, 13, 20, 23, r.randint(0, 23)]), r.choice([0, 5, 10, 50, 59, r.randint(0, 59)]),
                        r.choice([0, 9, 10, 30, 59, r.randint(0, 59)]), r.choice([0, 1, 10, 999999, 500000, r.randint(0, 999999)]))


def dt_arg(t: _dt.datetime) -> str:
    return f"{t.year},{t.month},{t.day},{t.hour},{t.minute},{t.second},{t.microsecond}"


def datetime_cases(r: random.Random, n: int) -> Cases:
    cs = Cases("datetime")
    c, cls = "datetime", Datetime
    alpha = "0123456789 -:/APMJan\nx"
    cs.add("datetime.regex", [], lambda: "ok:" + ",".join(esc(k) + "=" + esc(v) for k, v in cls.regex().items()))
    ds = directives(c)
    for _ in range(n):
        t = rand_dt(r)
        # the stdlib model on its own
        f = "".join(r.choice(["%Y", "%y", "%m", "%b", "%B", "%a", "%A", "%w", "%u", "%d", "%H", "%I", "%M", "%S", "%j", "%U", "%W", "%p", "%f", "-", " "]) for _ in range(4))
        cs.add("datetime.strftime", [dt_arg(t), f], lambda t=t, f=f: esc(t.strftime(f)))
        fmt = rand_fmt(r, c, k=r.randint(1, 5))
        cs.add("datetime.format", [dt_arg(t), fmt], lambda t=t, fmt=fmt: "ok:" + esc(cls.from_value(t).format(fmt)))
        cs.add("datetime.from_value", [dt_arg(t)], lambda t=t: "ok:" + esc(cls.from_value(t).string))
        cs.add("datetime.gen_format", [fmt, "", ""], lambda fmt=fmt: "ok:" + esc(cls.gen_format(fmt)))
        try:
            text = cls.from_value(t).format(fmt)
        except Exception:  # noqa: BLE001
            text = "2023"
        for tx in (text, mutate(r, text, alpha)):
            strict = r.random() < 0.5
            cs.add("datetime.parse", [tx, wopt(fmt), "1" if strict else "0"], parse_outcome(c, cls, tx, fmt, strict))
        # perturbation: one field rendered from another instant
        t2 = rand_dt(r)
        toks = [r.choice(ds) for _ in range(r.randint(2, 5))]
        sep = r.choice(SEPS[c])
        fm = sep.join(toks)
        try:
            pieces = [cls.from_value(t).format(k) for k in toks]
            j = r.randrange(len(toks))
            pieces[j] = cls.from_value(t2).format(toks[j])
            tx = sep.join(pieces)
            for strict in (False, True):
                cs.add("datetime.parse", [tx, wopt(fm), "1" if strict else "0"], parse_outcome(c, cls, tx, fm, strict))
        except Exception:  # noqa: BLE001
            pass
    for tx, fm in [("2023 000", "%Y %j"), ("2023 399", "%Y %j"), ("2023 366", "%Y %j"), ("2024 366", "%Y %j"), ("2023 097 07", "%Y %j %d"),
                   ("0000", "%Y"), ("0001 000", "%Y %j"), ("9999 399", "%Y %j"), ("2023 53 0", "%Y %U %w"), ("2023 54 0", "%Y %U %w"), ("2023 00 1", "%Y %W %w"),
                   ("12 AM", "%I %p"), ("12 PM", "%I %p"), ("00 PM", "%I %p"), ("5", "%-H"), ("05", "%-H"), ("Tue", "%a"), ("Thu", "%a"), ("2023-02-30", "%Y-%m-%d"),
                   ("25", "%H"), ("61", "%M"), ("39", "%d"), ("00", "%d"), ("2023 10 1 10", "%Y %U %w %W"), ("2023 10 1 11", "%Y %U %w %W")]:
        for strict in (False, True):
            cs.add("datetime.parse", [tx, wopt(fm), "1" if strict else "0"], parse_outcome(c, cls, tx, fm, strict))
    cs.add("datetime.parse", ["2023-01-02 03:04:05.000006", "~", "0"], parse_outcome(c, cls, "2023-01-02 03:04:05.000006", None, False))
    return cs


# ------------------------------------------------------------------------------------------------ Naming

WORDS = ["data", "engineer", "a", "e", "b", "d", "de", "ab", "x1", "1", "1a", "io", "aeiou", "bcd", "dd", "pipeline", "v2", "k8s", "id", "foo", "bar9"]


def rand_name(r: random.Random) -> list[str]:
    k = r.choice([1, 1, 2, 2, 3, 4])
    ws = []
    for _ in range(k):
        if r.random() < 0.7:
            ws.append(r.choice(WORDS))
        else:
            ws.append("".join(r.choice("abdeio19xz") for _ in range(r.randint(1, 5))))
    return ws


def words_arg(ws) -> str:
    return ",".join(esc(w) for w in ws)


def naming_cases(r: random.Random, n: int) -> Cases:
    cs = Cases("naming")
    c, cls = "naming", Naming
    alpha = "abdeiABDE019 _-xZ\n"
    cs.add("naming.regex", [], lambda: "ok:" + ",".join(esc(k) + "=" + esc(v) for k, v in cls.regex().items()))
    ds = directives(c)
    for _ in range(n):
        ws = rand_name(r)
        for k in r.sample(ds, 4):
            cs.add("naming.render", [words_arg(ws), k], lambda ws=ws, k=k: "ok:" + esc(__import__("fmtutil").utils.caller(cls.formatter(ws)[k]["value"])))
        fmt = rand_fmt(r, c, k=r.randint(1, 3))
        cs.add("naming.format", [words_arg(ws), fmt], lambda ws=ws, fmt=fmt: "ok:" + esc(cls.from_value(ws).format(fmt)))
        cs.add("naming.from_value", [words_arg(ws)], lambda ws=ws: "ok:" + esc(cls.from_value(ws).string))
        cs.add("naming.gen_format", [fmt, "", ""], lambda fmt=fmt: "ok:" + esc(cls.gen_format(fmt)))
        toks = [r.choice(ds) for _ in range(r.randint(1, 3))]
        sep = r.choice(SEPS[c])
        fm = sep.join(toks)
        ws2 = rand_name(r)
        try:
            pieces = [__import__("fmtutil").utils.caller(cls.formatter(ws)[k]["value"]) for k in toks]
            variants = [sep.join(pieces)]
            j = r.randrange(len(toks))
            p2 = list(pieces)
            p2[j] = __import__("fmtutil").utils.caller(cls.formatter(ws2)[toks[j]]["value"])
            variants.append(sep.join(p2))
            variants.append(mutate(r, variants[0], alpha))
            for tx in variants:
                for strict in (False, True):
                    cs.add("naming.parse", [tx, wopt(fm), "1" if strict else "0"], parse_outcome(c, cls, tx, fm, strict))
                fmt2 = r.choice(ds)
                cs.add("naming.parse_format", [tx, wopt(fm), "0", fmt2], lambda tx=tx, fm=fm, fmt2=fmt2: "ok:" + esc(cls.parse(tx, fm).format(fmt2)))
        except Exception:  # noqa: BLE001
            pass
    return cs


# ------------------------------------------------------------------------------------------------ Version

def mirror_fmt(v) -> tuple[str, str]:
    """(text, format) that mirrors the structure of a VersionPackage object"""
    text = f"{v.major}.{v.minor}.{v.patch}"
    fmt = "%m.%n.%c"
    if v.epoch:
        text, fmt = f"{v.epoch}!{text}", "%e" + fmt
    if v.pre:
        text, fmt = text + v.pre, fmt + "%q"
    if v.post:
        text, fmt = text + v.post, fmt + "%p"
    if v.dev:
        text, fmt = text + v.dev, fmt + "%d"
    if v.local:
        text, fmt = text + "+" + v.local, fmt + "%l"
    return text, fmt


def version_cases(r: random.Random, n: int) -> Cases:
    from gen_ver import pkg_strings, wire
    from fmtutil import VerPackage
    cs = Cases("version")
    c, cls = "version", Version
    alpha = "0123456789.-_+!abrcvpost \n"
    cs.add("version.regex", [], lambda: "ok:" + ",".join(esc(k) + "=" + esc(v) for k, v in cls.regex().items()))
    ds = directives(c)
    vers = []
    for s in pkg_strings(r, n):
        try:
            vers.append(VerPackage.parse(s))
        except ValueError:
            pass
    for _ in range(n):
        v = r.choice(vers)
        for k in r.sample(ds, 4):
            cs.add("version.render", [wire(v), k], lambda v=v, k=k: "ok:" + esc(__import__("fmtutil").utils.caller(cls.formatter(v)[k]["value"])))
        fmt = rand_fmt(r, c, k=r.randint(1, 4))
        cs.add("version.format", [wire(v), fmt], lambda v=v, fmt=fmt: "ok:" + esc(cls.from_value(v).format(fmt)))
        cs.add("version.from_value", [wire(v)], lambda v=v: "ok:" + esc(cls.from_value(v).string))
        cs.add("version.gen_format", [fmt, "", ""], lambda fmt=fmt: "ok:" + esc(cls.gen_format(fmt)))
        text, mf = mirror_fmt(v)
        if r.random() < 0.3:
            mf = mf.replace(".", r.choice(["_", "-", " "]))
            text2 = text
        for tx in (text, mutate(r, text, alpha)):
            for strict in (False, True):
                cs.add("version.parse", [tx, wopt(mf), "1" if strict else "0"], parse_outcome(c, cls, tx, mf, strict))
        fmt2 = rand_fmt(r, c, k=2, weird=0.0)
        cs.add("version.parse_format", [text, wopt(mf), "0", fmt2], lambda text=text, mf=mf, fmt2=fmt2: "ok:" + esc(cls.parse(text, mf).format(fmt2)))
    for tx, fm in [("01.2.3", "%m.%n.%c"), ("1.2.3-1", "%m.%n.%c%p"), ("1.2.3rc1", "%m.%n.%c%q"), ("1.2.3.rc1", "%m.%n.%c.%q"), ("1_2_3", "%f"), ("1-2-3", "%-f"),
                   ("1!2.3.4", "%e%m.%n.%c"), ("1 2.3.4", "%-e %m.%n.%c"), ("1.2.3+abc.1", "%m.%n.%c%l"), ("1.2.3 abc.1", "%m.%n.%c %-l"), ("1.2.3 5", "%m.%n.%c %-p"),
                   ("1.2.3dev4", "%m.%n.%c%d"), ("999.999.999", "%m.%n.%c"), ("1000.0.0", "%m.%n.%c"), ("1.2.3c1", "%m.%n.%c%q"), ("1.2.3preview-2", "%m.%n.%c%q"),
                   ("1.2.3r.2", "%m.%n.%c%p"), ("1.2.3alpha1", "%m.%n.%c%q")]:
        for strict in (False, True):
            cs.add("version.parse", [tx, wopt(fm), "1" if strict else "0"], parse_outcome(c, cls, tx, fm, strict))
    return cs


# ------------------------------------------------------------------------------------------------ Storage

def rand_bits(r: random.Random) -> int:
    k = r.random()
    if k < 0.3:
        u = r.randint(0, 8)
        return r.choice([0, 1, 2, 3, 7, 10, 100, 1023, 1024, 1025]) * 8 * 1024 ** u
    if k < 0.5:
        return r.randint(0, 10 ** r.randint(1, 26))
    if k < 0.7:
        u = r.randint(0, 8)
        return (8 * 1024 ** u) * r.randint(0, 2000) + r.choice([0, 4 * 1024 ** u, 4 * 1024 ** u + 1, 4 * 1024 ** u - 1, 1])
    return r.choice([0, 8, 80, 81, 800, 1000, 8192, 8191, 10 ** 26, 10 ** 27 - 1, 2 ** 80, 12 * 8 * 1024 ** 2])


def storage_cases(r: random.Random, n: int) -> Cases:
    cs = Cases("storage")
    c, cls = "storage", Storage
    D = decimal.Decimal
    alpha = "0123456789.BKMGE x\n-+_e"
    cs.add("storage.regex", [], lambda: "ok:" + ",".join(esc(k) + "=" + esc(v) for k, v in cls.regex().items()))
    ds = directives(c)
    for _ in range(n):
        # the decimal model on its own
        a, b = r.randint(0, 10 ** r.randint(1, 32)), r.choice([8, 1024, 1024 ** 2, 1024 ** 5, 1024 ** 8, 3, 7])
        ea = r.choice([0, 0, -1, -3, 2])
        sa = f"{a}E{ea}"
        cs.add("storage.decdiv", [sa, str(b)], lambda sa=sa, b=b: dec_text(D(sa) / D(b)))
        cs.add("storage.decmul", [sa, str(b)], lambda sa=sa, b=b: dec_text(D(sa) * D(b)))
        def q0(sa=sa):
            try:
                return dec_text(round(D(sa), 0))
            except decimal.InvalidOperation:
                return "invalid"
        cs.add("storage.decq0", [sa], q0)
        t = r.choice(["1", "1.50", ".5", "5.", "1E5", "1e-3", "007", "0.000001", "0.0000001", "1_0", " 5 ", "-3", "+2", ".", "", "1.2.3", "e5", "1E", "12345678901234567890123456789012"]) if r.random() < 0.5 else mutate(r, str(r.randint(0, 10**6)), alpha)
        def dd(t=t):
            try:
                d = D(t)
                if not d.is_finite():
                    return "nonfinite"
                return dec_text(d) + " " + esc(str(d))
            except decimal.InvalidOperation:
                return "invalid"
        if "n" not in t.lower() and "i" not in t.lower():
            cs.add("storage.dec", [t], dd)
        v = rand_bits(r)
        for k in r.sample(ds, 3):
            cs.add("storage.render", [str(v), k], lambda v=v, k=k: "ok:" + esc(__import__("fmtutil").utils.caller(cls.formatter(v)[k]["value"])))
        fmt = rand_fmt(r, c, k=r.randint(1, 2))
        cs.add("storage.format", [str(v), fmt], lambda v=v, fmt=fmt: "ok:" + esc(cls.from_value(v).format(fmt)))
        cs.add("storage.from_value", [str(v)], lambda v=v: "ok:" + esc(cls.from_value(v).string))
        toks = [r.choice(ds) for _ in range(r.randint(1, 3))]
        sep = r.choice(SEPS[c])
        fm = sep.join(toks)
        try:
            pieces = [__import__("fmtutil").utils.caller(cls.formatter(v)[k]["value"]) for k in toks]
            variants = [sep.join(pieces), mutate(r, sep.join(pieces), alpha)]
            v2 = rand_bits(r)
            j = r.randrange(len(toks))
            p2 = list(pieces)
            p2[j] = __import__("fmtutil").utils.caller(cls.formatter(v2)[toks[j]]["value"])
            variants.append(sep.join(p2))
            for tx in variants:
                for strict in (False, True):
                    cs.add("storage.parse", [tx, wopt(fm), "1" if strict else "0"], parse_outcome(c, cls, tx, fm, strict))
            fmt2 = r.choice(ds)
            cs.add("storage.parse_format", [variants[0], wopt(fm), "0", fmt2], lambda tx=variants[0], fm=fm, fmt2=fmt2: "ok:" + esc(cls.parse(tx, fm).format(fmt2)))
        except Exception:  # noqa: BLE001
            pass
    for tx, fm in [("", "%b"), ("B", "%B"), ("1x2", "%b"), ("80.0", "%b"), ("80.5", "%b"), ("10B 80", "%B %b"), ("10B 81", "%B %b"), ("1KB 8192", "%K %b"),
                   ("1E3", "%b"), ("-8", "%b"), (" 8", "%b"), ("12345678901234567890123456789B", "%B"), ("9999999999999999999999999999B", "%B"), ("0B", "%B"), ("0", "%b")]:
        for strict in (False, True):
            cs.add("storage.parse", [tx, wopt(fm), "1" if strict else "0"], parse_outcome(c, cls, tx, fm, strict))
    return cs


# ------------------------------------------------------------------------------------------------ constants and groups

from fmtutil import dict2const, make_const, make_group  # noqa: E402

CONST_TEXTS = ["dev", "development", "sit", "prod", "data engineer", "DE", "v1", "2023", "a-b", "x_y", "normal", "special", "7", "a.b", "+abc.1", "x|y", "(q)", "1.0*", "a\\b", "[z]", "100%", "$x^"]
ALL_DIRECTIVE_SPELLINGS = [f"%{p}{c}" for p in ("", "-", "+", "!", "*") for c in "abcdefghijklmnopqrstuvwxyzABCDEFGHIJKLMNOPQRSTUVWXYZ"]


def wmap(m: dict) -> str:
    return ",".join(f"{esc(k)}={esc(v)}" for k, v in m.items())


def rand_mapping(r: random.Random) -> dict:
    ks = r.sample(ALL_DIRECTIVE_SPELLINGS, r.randint(1, 4))
    return {k: r.choice(CONST_TEXTS) for k in ks}


def const_cases(r: random.Random, n: int) -> Cases:
    import fmtutil.utils as U
    cs = Cases("const")
    for f in ALL_DIRECTIVE_SPELLINGS + ["G", "%ab", "%", "%%", "%-", "%1", "%_a"]:
        cs.add("convert_fmt_str", [f], lambda f=f: esc(U.convert_fmt_str(f)))
    for _ in range(n):
        m = rand_mapping(r)
        name = r.choice(["EnvConst", "NameConst", "X"])
        base = r.choice([None, None, "%n", "".join(m.keys())])
        C = dict2const(dict(m), name, base_fmt=base)
        toks = [r.choice(list(m.keys()) + ["%Q"] * (r.random() < 0.1)) for _ in range(r.randint(1, 3))]
        sep = r.choice(list("_-/ :") + ["__", "."])
        fmt = sep.join(toks)
        good = sep.join(m.get(k, "?") for k in toks)
        for tx in (good, mutate(r, good, "abdev_- 1\n"), r.choice(CONST_TEXTS)):
            strict = r.random() < 0.5
            cs.add("const.parse", [wmap(m), name, wopt(base), tx, wopt(fmt), "1" if strict else "0"],
                   lambda C=C, tx=tx, fmt=fmt, strict=strict: "ok:" + esc(C.parse(tx, fmt, strict=strict).string))
        fmt2 = sep.join(r.choice(list(m.keys())) for _ in range(2))
        cs.add("const.parse_format", [wmap(m), name, wopt(base), good, wopt(fmt), fmt2], lambda C=C, good=good, fmt=fmt, fmt2=fmt2: "ok:" + esc(C.parse(good, fmt).format(fmt2)))
        cs.add("const.gen_format", [wmap(m), name, wopt(base), fmt], lambda C=C, fmt=fmt: "ok:" + esc(C.gen_format(fmt)))
        cs.add("const.parse", [wmap(m), name, wopt(base), good, "~", "0"], lambda C=C, good=good: "ok:" + esc(C.parse(good).string))
    return cs


KINDS = {"serial": Serial, "datetime": Datetime, "version": Version, "naming": Naming, "storage": Storage}
MEMBER_NAMES = ["date", "datetime", "name", "naming", "serial", "ver", "size", "a", "ab", "a_b", "d1", "x", "name2", "nm", "date_time"]
MEMBER_FMTS = {
    "serial": ["%n", "%p", "%c", "%b", ""],
    "datetime": ["%Y%m%d", "%Y-%m-%d", "%H%M%S", "%Y", "%d/%m/%Y", "%n", ""],
    "version": ["%m.%n.%c", "%m_%n_%c", "v%m", ""],
    "naming": ["%s", "%k", "%c", "%a", "%n", ""],
    "storage": ["%B", "%K", "%b", ""],
}


def rand_member_value(r: random.Random, kind: str):
    if kind == "serial":
        return r.choice(SERIAL_VALUES[:12])
    if kind == "datetime":
        return rand_dt(r).replace(microsecond=0)
    if kind == "version":
        from fmtutil import VerPackage
        return VerPackage.parse(f"{r.randint(0, 20)}.{r.randint(0, 9)}.{r.randint(0, 30)}")
    if kind == "naming":
        return rand_name(r)
    return rand_bits(r)


def group_decl(r: random.Random, k: int | None = None):
    k = k or r.randint(1, 4)
    names = r.sample(MEMBER_NAMES, k)
    kinds = [r.choice(list(KINDS)) for _ in names]
    return list(zip(names, kinds))


def wdecl(decl) -> str:
    return "|".join(f"{esc(n)}:{k}" for n, k in decl)


def group_fmt(r: random.Random, decl, repeats=True):
    """(format string, list of (name, kind, member-format))"""
    items = [(n, k) for n, k in decl if r.random() < 0.9] or [decl[0]]
    if repeats and r.random() < 0.3:
        items.append(r.choice(items))
    r.shuffle(items)
    parts, used = [], []
    for i, (n, k) in enumerate(items):
        mf = r.choice(MEMBER_FMTS[k])
        parts.append("{" + n + (":" + mf if mf else "") + "}")
        used.append((n, k, mf))
        if i < len(items) - 1:
            parts.append(r.choice(["_", "-", "/", " ", "__", ".", "_x_"]))
    return "".join(parts), used


def gshow(G, g) -> str:
    return ";".join(f"{esc(n)}={esc(g.groups[n].string)}" for n in G.base_groups)


def group_cases(r: random.Random, n: int) -> Cases:
    cs = Cases("group")
    for _ in range(n):
        decl = group_decl(r)
        G = make_group({nm: KINDS[k] for nm, k in decl})
        fmt, used = group_fmt(r, decl)
        cs.add("group.gen_format", [wdecl(decl), fmt],
               lambda G=G, fmt=fmt: (lambda p: "ok:" + esc(p[0]) + "|" + ",".join(f"{esc(k)}={esc(v['fmt'])}" for k, v in p[1].items()))(G.gen_format(fmt)))
        vals = {nm: rand_member_value(r, k) for nm, k in decl}
        try:
            g0 = G.from_value(vals)
            text = g0.format(fmt)
        except Exception:  # noqa: BLE001
            continue
        for tx in (text, mutate(r, text, "0123456789_-ab \n")):
            cs.add("group.parse", [wdecl(decl), tx, fmt], lambda G=G, tx=tx, fmt=fmt: "ok:" + gshow(G, G.parse(tx, fmt)))
        fmt2, _ = group_fmt(r, decl, repeats=False)
        cs.add("group.parse_format", [wdecl(decl), text, fmt, fmt2], lambda G=G, text=text, fmt=fmt, fmt2=fmt2: "ok:" + esc(G.parse(text, fmt).format(fmt2)))
        vals2 = {nm: (rand_member_value(r, k) if r.random() < 0.6 else vals[nm]) for nm, k in decl}
        try:
            text2 = G.from_value(vals2).format(fmt)
        except Exception:  # noqa: BLE001
            continue
        def cmp3(G=G, text=text, text2=text2, fmt=fmt):
            a, b = G.parse(text, fmt), G.parse(text2, fmt)
            return "ok:" + ",".join("True" if x else "False" for x in (a < b, a == b, a > b))
        cs.add("group.cmp", [wdecl(decl), text, fmt, text2, fmt], cmp3)
    # a directive repeated inside an occurrence that is itself repeated (capture names x__1___number__1__1 …): agreeing
    # and disagreeing texts at every position
    for decl, d, t1, t2 in (([("x", "serial"), ("other", "naming")], "%n", "12", "13"), ([("x", "datetime")], "%d", "05", "07"), ([("ab", "serial"), ("a", "serial")], "%p", "012", "013"),
                            ([("x", "version")], "%m", "1", "2"), ([("x", "storage")], "%b", "8", "16")):
        G = make_group({nm: KINDS[k] for nm, k in decl})
        nm0 = decl[0][0]
        for shape in ([1, 2], [2, 2], [1, 1, 3]):
            fmt = " ".join("{" + nm0 + ":" + " ".join([d] * k) + "}" for k in shape)
            cs.add("group.gen_format", [wdecl(decl), fmt],
                   lambda G=G, fmt=fmt: (lambda p: "ok:" + esc(p[0]) + "|" + ",".join(f"{esc(k)}={esc(v['fmt'])}" for k, v in p[1].items()))(G.gen_format(fmt)))
            npos = sum(shape)
            for bad in [None] + list(range(npos)):
                tx = " ".join(t2 if i == bad else t1 for i in range(npos))
                cs.add("group.parse", [wdecl(decl), tx, fmt], lambda G=G, tx=tx, fmt=fmt: "ok:" + gshow(G, G.parse(tx, fmt)))
    return cs


# ------------------------------------------------------------------------------------------------ asset-defined formatters

def assets_cases(r: random.Random, n: int) -> Cases:
    from fmtutil.__assets import Datetime as AD, Serial as AS
    cs = Cases("assets")
    cs.add("aserial.regex", [], lambda: "ok:" + ",".join(esc(k) + "=" + esc(v) for k, v in AS.regex().items()))
    cs.add("adatetime.regex", [], lambda: "ok:" + ",".join(esc(k) + "=" + esc(v) for k, v in AD.regex().items()))
    sd = list(AS.asset.keys())
    dd = list(AD.asset.keys())
    for _ in range(n):
        v = r.choice(SERIAL_VALUES + [r.randrange(0, 10 ** r.randint(1, 20))])
        toks = [r.choice(sd + ["%%", "%Q"] * (r.random() < 0.1)) for _ in range(r.randint(1, 3))]
        sep = r.choice(SEPS["serial"])
        fmt = sep.join(toks)
        cs.add("aserial.format", [str(v), fmt], lambda v=v, fmt=fmt: "ok:" + esc(AS.from_value(v).format(fmt)))
        try:
            text = AS.from_value(v).format(fmt)
        except Exception:  # noqa: BLE001
            text = str(v)
        for tx in (text, mutate(r, text, "0123456789,_ ab\n")):
            strict = r.random() < 0.5
            cs.add("aserial.parse", [tx, wopt(fmt), "1" if strict else "0"], lambda tx=tx, fmt=fmt, strict=strict: "ok:" + str(AS.parse(tx, fmt, strict=strict).value))
        t = rand_dt(r).replace(microsecond=0)
        toks = [r.choice(dd) for _ in range(r.randint(1, 4))]
        sep = r.choice(SEPS["datetime"])
        fmt = sep.join(toks)
        cs.add("adatetime.format", [dt_arg(t), fmt], lambda t=t, fmt=fmt: "ok:" + esc(AD.from_value(t).format(fmt)))
        try:
            text = AD.from_value(t).format(fmt)
        except Exception:  # noqa: BLE001
            continue
        t2 = rand_dt(r)
        pieces = [AD.from_value(t).format(k) for k in toks]
        j = r.randrange(len(toks))
        p2 = list(pieces)
        p2[j] = AD.from_value(t2).format(toks[j])
        for tx in (text, mutate(r, text, "0123456789 -:\n"), sep.join(p2)):
            for strict in (False, True):
                cs.add("adatetime.parse", [tx, wopt(fmt), "1" if strict else "0"],
                       lambda tx=tx, fmt=fmt, strict=strict: "ok:" + value_text("datetime", AD.parse(tx, fmt, strict=strict).value))
    for tx, fm in [("0305", "%m%d"), ("20230230", "%Y%m%d"), ("", "%n"), ("12\n", "%n"), ("", "%b"), ("00000101", "%b"), ("0000", "%Y"), ("25", "%H")]:
        for strict in (False, True):
            if fm in ("%n", "%b") and tx in ("", "12\n", "00000101"):
                cs.add("aserial.parse", [tx, wopt(fm), "1" if strict else "0"], lambda tx=tx, fm=fm, strict=strict: "ok:" + str(AS.parse(tx, fm, strict=strict).value))
            else:
                cs.add("adatetime.parse", [tx, wopt(fm), "1" if strict else "0"],
                       lambda tx=tx, fm=fm, strict=strict: "ok:" + value_text("datetime", AD.parse(tx, fm, strict=strict).value))
    return cs


def group_inner_repeats():
    """(class name, group class, directive, format, text, index of the disagreeing position or None, agreed text):
    one member that occurs several times, with a directive repeated inside an occurrence"""
    from fmtutil import Datetime, Serial, Storage, Version
    table = [("Serial", Serial, [("%n", "12", "13"), ("%p", "012", "013"), ("%c", "1,234", "1,235"), ("%b", "00001100", "00001101"), ("%u", "12", "13")]),
             ("Datetime", Datetime, [("%Y", "2024", "2023"), ("%m", "01", "02"), ("%d", "05", "07"), ("%H", "10", "11"), ("%M", "10", "11"), ("%S", "10", "11"), ("%y", "24", "23"),
                                     ("%j", "005", "006"), ("%B", "January", "March"), ("%-d", "5", "7"), ("%f", "000123", "000124")]),
             ("Version", Version, [("%m", "1", "2"), ("%n", "1", "2"), ("%c", "1", "2")]),
             ("Storage", Storage, [("%b", "8", "16"), ("%B", "1B", "2B"), ("%K", "1KB", "2KB")])]
    for name, cls, rows in table:
        G = make_group({"x": cls, "other": Serial})
        for d, t1, t2 in rows:
            for shape in ([1, 2], [1, 1, 3], [2, 2], [3, 1]):
                fmt = " ".join("{x:" + " ".join([d] * k) + "}" for k in shape)
                npos = sum(shape)
                for bad in [None] + list(range(npos)):
                    yield name, G, d, fmt, " ".join(t2 if i == bad else t1 for i in range(npos)), bad, t1
