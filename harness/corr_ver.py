"""model ≡ implementation for fmtutil/__version.py (operations used by C04, C07, C10, C13, C19)."""
from __future__ import annotations

import random

from common import esc
from framework import Cases
from gen_ver import (
    CLS, base_strings, mutate, parse_ok, pkg_strings, pkg_variant_group, res_bool, res_int, res_obj, sem_same_release, sem_strings, wargs, wire, wkw, wopt,
)

import fmtutil.__version as V

OPS = {"eq": "__eq__", "ne": "__ne__", "lt": "__lt__", "le": "__le__", "gt": "__gt__", "ge": "__ge__"}


def strings_for(c: str, r: random.Random, n: int) -> list[str]:
    return {"base": base_strings, "sem": sem_strings, "pkg": pkg_strings}[c](r, n)


def spell(kind: str, b):
    """(wire kind, wire payload, python value) for a spelling of version object b"""
    if kind == "obj":
        return "obj", wire(b), b
    if kind == "str":
        return "str", str(b), str(b)
    if kind == "tuple":
        return "tuple", wargs(b.to_tuple()), b.to_tuple()
    if kind == "list":
        return "tuple", wargs(b.to_tuple()), list(b.to_tuple())
    if kind == "dict":
        return "dict", wkw(b.to_dict()), b.to_dict()
    return "bad", "", 3.5


def rich(a, opname, other):
    r = getattr(a, OPS[opname])(other)
    if r is NotImplemented:
        # what the interpreter does with NotImplemented from the left operand when the right
        # operand (a float here) does not know the type either
        if opname == "eq":
            return False
        if opname == "ne":
            return True
        raise TypeError("not supported")
    return r


def build(r: random.Random, n: int, classes=("base", "sem", "pkg"), which=("parse", "cmp", "bump", "match", "misc")) -> Cases:
    cs = Cases("ver")
    for c in classes:
        cls = CLS[c]
        strs = strings_for(c, r, n)
        objs = [o for o in (parse_ok(cls, s) for s in strs) if o is not None]
        if "parse" in which:
            for s in strs:
                for t in (s, mutate(r, s)):
                    opt = r.random() < 0.3
                    kw = {"optional_minor_and_patch": True} if opt else {}
                    cs.add("ver_parse", [c, t, "1" if opt else "0"], res_obj(lambda t=t, kw=kw: cls.parse(t, **kw)))
            for _ in range(max(10, n // 4)):
                args = [r.choice([0, 1, 2, 10, -1, "3", "", None, "x", "01"]) for _ in range(r.randint(0, 9 if c == "pkg" else 6))]
                cs.add("ver_new", [c, wargs(args)], res_obj(lambda args=args: cls(*args)))
        if "cmp" in which and objs:
            for _ in range(n):
                a, b = r.choice(objs), r.choice(objs)
                kind = r.choice(["obj", "obj", "str", "tuple", "list", "dict", "bad"])
                wk, wp, pv = spell(kind, b)
                cs.add("ver_compare", [wire(a), wk, wp], res_int(lambda a=a, pv=pv: a.compare(pv)))
                opn = r.choice(list(OPS))
                cs.add("ver_op", [opn, wire(a), wk, wp], res_bool(lambda a=a, opn=opn, pv=pv: rich(a, opn, pv)))
                cs.add("ver_hasheq", [wire(a), wire(b)], res_bool(lambda a=a, b=b: hash(a) == hash(b)))
                raw = r.choice(strs)
                cs.add("ver_compare", [wire(a), "str", raw], res_int(lambda a=a, raw=raw: a.compare(raw)))
            # pairs that tie on the release numbers (tags decide) and spelling variants of one version
            special = []
            if c == "sem":
                for rel, ss in sem_same_release().items():
                    oo = [o for o in (parse_ok(cls, s) for s in ss) if o is not None]
                    special += [(r.choice(oo), r.choice(oo)) for _ in range(n // 3)]
                    if rel == "1.0.0":
                        special += [(a, b) for a in oo for b in oo]
            if c == "pkg":
                for _ in range(n // 2):
                    oo = [o for o in (parse_ok(cls, s) for s in pkg_variant_group(r)) if o is not None]
                    special += [(a, b) for a in oo[:3] for b in oo[:3]]
            for a, b in special:
                cs.add("ver_compare", [wire(a), "obj", wire(b)], res_int(lambda a=a, b=b: a.compare(b)))
                cs.add("ver_hasheq", [wire(a), wire(b)], res_bool(lambda a=a, b=b: hash(a) == hash(b)))
            for o in objs[: n // 2]:
                cs.add("ver_str", [wire(o)], lambda o=o: esc(str(o)))
        if "bump" in which and objs:
            parts = ["epoch", "major", "minor", "patch", "pre", "post", "dev", "local", "build", "zzz"]
            for _ in range(n):
                o = r.choice(objs)
                part = r.choice(parts)
                cs.add("ver_next", [wire(o), part], res_obj(lambda o=o, part=part: o.next_version(part)))
                w = r.choice([p for p in parts[:-1] if hasattr(o, "bump_" + p)])
                if w in ("pre", "build"):
                    tok = r.choice([None, "", "rc", "a", "beta"])
                    cs.add("ver_bump", [wire(o), w, wopt(tok)], res_obj(lambda o=o, w=w, tok=tok: getattr(o, "bump_" + w)(tok)))
                else:
                    cs.add("ver_bump", [wire(o), w, "~"], res_obj(lambda o=o, w=w: getattr(o, "bump_" + w)()))
                kw = {r.choice(list(cls.__slots__) + ["bogus"]): r.choice([0, 5, None, "rc1", "x", -1])}
                cs.add("ver_replace", [wire(o), wkw(kw)], res_obj(lambda o=o, kw=kw: o.replace(**kw)))
                slot = r.choice(list(cls.__slots__))
                cs.add("ver_setattr", [wire(o), slot], res_obj(lambda o=o, slot=slot: (setattr(o, slot, 1), o)[1]))
        if "match" in which and objs:
            ops = [">", "<", "==", "!=", ">=", "<=", "~=", "~", "^", "", "=", "=>", " ", "*"]
            for _ in range(n):
                v, w = r.choice(objs), r.choice(strs)
                e = r.choice(ops) + w
                if r.random() < 0.1:
                    e = mutate(r, e)
                cs.add("ver_match", [wire(v), e], res_bool(lambda v=v, e=e: v.match(e)))
            wild = ["*", "1.*", "1.2.*", "0.*", "9.*", "99.*", "1.9.*", "1.99.*", "*.1", "1.*.*", "", "1.2.3", "1.2.3.*", "a.*", "1.*.2", "10.*", "1.*rc1", "01.*"]
            for e in wild:
                cs.add(
                    "ver_wild",
                    [c, e],
                    lambda e=e: (lambda p: "ok:" + wire(p[0]) + "|" + ("Inf" if not isinstance(p[1], V.BaseVersion) else wire(p[1])))(cls.extract_wildcard(e)),
                )
    if "misc" in which:
        pool = ["rc.9", "rc9", "009", "a1b2", "", "rc", "post0", "1.9.9", "x99y", "9", "99", "build.10", "٣", "a٩", "-1", "dev-009"]
        for s in pool + [mutate(r, r.choice(pool)) for _ in range(n // 2)]:
            cs.add("increment", [s], lambda s=s: esc(V.increment(s)))
        letters = ["a1", "alpha.2", ".rc-3", "RC1", "c", "pre_1", "preview", "post1", "-1", "-12", "r.2", "rev", "x", "", "1", "dev3", "Beta", "a.b", "rc1x", "--1", "-", "a1\n"]
        for s in letters + [mutate(r, r.choice(letters)) for _ in range(n // 2)]:
            cs.add("extract_letter", [s], lambda s=s: (lambda p: f"ok:{esc(p[0])},{p[1]}")(V.BaseVersion._extract_letter(s)))
        for _ in range(20):
            t = [r.choice([0, 0, 1, 5]) for _ in range(3)]
            cs.add("necessary_release", [str(x) for x in t], lambda t=t: ",".join(str(x) for x in V.necessary_release(tuple(t))))
    return cs
