#!/usr/bin/env python3
"""(Re)write MANIFEST.json from the per-property metadata below; keeps it schema-valid."""
import json, os
VERIF = os.path.dirname(os.path.dirname(os.path.abspath(__file__)))
props = [json.loads(l) for l in open(os.path.join(VERIF, "properties.jsonl"))]

CLAIMED = {
 "C07": dict(
  technique="Lean 4 proof: Python tuple comparison = lexicographic compare of a structured key (Std.TransOrd); model tied by regenerated tables + correspondence",
  text=("Order laws (trichotomy, transitivity, == equivalence and congruence, derived <=/>=/!=, a<b iff b>a), hash agreement, tuple/list spelling and the "
        "semver clauses are Lean theorems over ALL objects of the three version classes (unbounded numbers, arbitrary tags) whose comparison key exists; "
        "proved by showing that Py.Cmp (a model of CPython's rich comparison incl. the Inf/NegInf sentinels) on the key tuples equals the lexicographic "
        "`compare` of a structured key type, whose lawfulness comes from Lean core. The regex texts, slot tuples and spelling tables the model runs on are "
        "regenerated from /repo on every run; the hand-written half is compared with the real classes on parse/compare/operators/hash/increment/_extract_letter."),
  note=("Trusted: Lean kernel; axioms propext, Classical.choice, Quot.sound only; extract.py; Py.Cmp/Py.Re/Py.ReParse as models of CPython (validated "
        "differentially every run). Not proved: that the key exists for every parsed object (pyInt of the captured digits) and the str spelling for all "
        "objects - both are covered by the correspondence and the sweep only."),
  design="§6 C07"),
 "C04": dict(
  technique="Lean 4 proof: PEP 440 key order (lexicographic, lawful) + kernel-evaluated segment grammar on regenerated tables; vendored packaging as reference for the search",
  text=("Theorems: for ALL packaging-version objects whose key exists, compare() never raises and returns the sign of the lexicographic comparison of the "
        "PEP 440 key, which is shown to be the transcription of packaging._cmpkey (sentinel placement included); the class's letter table is PEP 440's "
        "normalisation; every pre/post/dev segment spelling of the property's bounded grammar (letters x separators x numbers, 1 200 spellings, and the "
        "implicit -N form) is read as PEP 440 reads it, by kernel evaluation of the model on the regex text regenerated from the source; the named "
        "spelling variants compare equal end to end. The splitting of a whole string into segments by the regenerated pattern is validated, not proved: "
        "correspondence model-vs-code and an exhaustive small-bound sweep against the vendored reference (acceptance inside the documented shape, fields, "
        "sign of every ordered pair)."),
  note=("Trusted: Lean kernel, axioms propext/Classical.choice/Quot.sound; extract.py; Py.Re/Py.ReParse/Py.Cmp as models of CPython; vendored packaging "
        "26.3 as PEP 440 reference. Partial: whole-string parsing (C04_read for unbounded numbers) is covered by correspondence + sweep only."),
  design="§6 C04"),
 "C10": dict(
  technique="Lean 4 proof: decision logic of match over the regenerated operator tables, reduced to the class order (C07)",
  text=("Theorems for ALL versions v, w of one class with a key (numbers unbounded): the six comparison operators and the bare form of a match expression "
        "coincide with the rich comparison operators; ^w and ~=w / ~w are exactly w <= v < bound with the documented bounds; the expression splitter "
        "recognises every operator in front of a digit and the bare form; the empty expression and any expression starting with neither an operator "
        "character nor a digit raise ValueError. The operator tables are regenerated from the source, so a changed table breaks the proof. Wildcard "
        "bounds (carries 9->10, 99->100) and the str(w) round trip are covered by kernel-evaluated instances, the correspondence and the sweep "
        "(interval semantics computed independently of match())."),
  note=("Trusted: as C07. Partial: extract_wildcard for unbounded numbers and parse(str(w)) = w are validated by correspondence/sweep, not proved."),
  design="§6 C10"),
 "C13": dict(
  technique="Lean 4 proof: next_version/bump on the structured key (lexicographic order lemmas); immutability by construction of the functional model + correspondence snapshots",
  text=("Theorems: bump_major/minor/patch give (X+1).0.0, X.(Y+1).0, X.Y.(Z+1) for every object (epoch kept for the packaging class); for the plain class "
        "next_version(part) exists for every valid part, is strictly higher and resets the lower parts, for all numbers; an invalid part is ValueError for "
        "every class; the valid parts are the advertised ones (regenerated tables); release-list lemmas nr_bump_* (the key strictly grows under each bump "
        "whatever the trailing zeros) are proved for reuse by the semantic and packaging classes. next_version of those two classes, and the pre/post/dev "
        "parts that go through increment on arbitrary tag text, are decided by kernel-evaluated instances plus the correspondence and a sweep over the C07 "
        "grammars (every valid part, never-lower, strictly-higher, reset, operation sequences with to_tuple/str/hash snapshots)."),
  note=("Trusted: as C07. Partial: monotonicity for the semantic/packaging classes and for pre/post/dev is validated, not proved; immutability of the real "
        "objects (slots, __setattr__) is observed through the correspondence, the functional model cannot mutate by construction."),
  design="§6 C13"),
}

checks = []
na = []
for p in props:
    pid = p["id"]
    if pid in CLAIMED:
        c = CLAIMED[pid]
        checks.append({
            "property_id": pid,
            "quick_cmd": f"./check {pid} --tier quick",
            "thorough_cmd": f"./check {pid} --tier thorough",
            "evidence_file": f"evidence/{pid}.json",
            "replay_cmd_template": f"./check {pid} --replay {{path}}",
            "engine": "lean-fmtmodel",
            "level_claimed": {"category": "proof", "text": c["text"], "design_ref": c["design"]},
            "level_note": c["note"],
            "technique": c["technique"],
        })
    else:
        na.append({"property_id": pid, "reason": "check under construction in this round (model and theorems not yet built)"})

m = {
 "version": 1,
 "setup_cmd": "cd lean && /venv/bin/python ../harness/extract.py && lake build FmtModel fmtdrv " + " ".join(f"FmtModel.Props.{c['property_id']}" for c in checks),
 "hooks": {"guard": "FMTUTIL_VERIF", "enable": "no source hooks are needed; checks import /repo's working tree directly",
           "baseline_off_cmd": "cd /repo && /venv/bin/python -m pytest -ra -q -p no:cacheprovider --timeout=900 --continue-on-collection-errors",
           "source_commits": [], "add_only": True},
 "engines": [{"name": "lean-fmtmodel", "path": "lean", "serves_properties": [c["property_id"] for c in checks],
              "kind_free_text": "Lean 4 model of fmtutil (generated tables + hand-written algorithms), property theorems, native line-protocol driver; Python harness for translator, correspondence and failing-input search"}],
 "checks": checks,
 "not_applicable": na,
 "notes": "Every check: extract tables from /repo -> lake build theorems -> axiom audit -> model-vs-implementation correspondence -> spec-vs-implementation sweep -> triage (DESIGN §5).",
}
json.dump(m, open(os.path.join(VERIF, "MANIFEST.json"), "w"), indent=1)
print("claimed", [c["property_id"] for c in checks])
