#!/usr/bin/env python3
"""(Re)write MANIFEST.json from the per-property metadata below; keeps it schema-valid."""
import json, os
VERIF = os.path.dirname(os.path.dirname(os.path.abspath(__file__)))
props = [json.loads(l) for l in open(os.path.join(VERIF, "properties.jsonl"))]

import sys, os
sys.path.insert(0, os.path.dirname(os.path.abspath(__file__)))
from claims import CLAIMED

checks = []
na = []
for p in props:
    pid = p["id"]
    if pid in CLAIMED:
        c = CLAIMED[pid]
        checks.append({
            "property_id": pid,
            "quick_cmd": f"./check {pid} --tier quick",
            "thorough_cmd": f"./check {pid} --tier thorough",
            "evidence_file": f"evidence/{pid}.json",
            "replay_cmd_template": f"./check {pid} --replay {{path}}",
            "engine": "lean-fmtmodel",
            "level_claimed": {"category": "proof", "text": c["text"], "design_ref": c["design"]},
            "level_note": c["note"],
            "technique": c["technique"],
        })
    else:
        na.append({"property_id": pid, "reason": "check under construction in this round (model and theorems not yet built)"})

m = {
 "version": 1,
 "setup_cmd": "/venv/bin/python harness/setup.py",
 "hooks": {"guard": "FMTUTIL_VERIF", "enable": "no source hooks are needed; checks import /repo's working tree directly",
           "baseline_off_cmd": "cd /repo && /venv/bin/python -m pytest -ra -q -p no:cacheprovider --timeout=900 --continue-on-collection-errors",
           "source_commits": [], "add_only": True},
 "engines": [{"name": "lean-fmtmodel", "path": "lean", "serves_properties": [c["property_id"] for c in checks],
              "kind_free_text": "Lean 4 model of fmtutil (generated tables + hand-written algorithms), property theorems, native line-protocol driver; Python harness for translator, correspondence and failing-input search"}],
 "checks": checks,
 "not_applicable": na,
 "notes": "Every check: extract tables from /repo -> lake build theorems -> axiom audit -> model-vs-implementation correspondence -> spec-vs-implementation sweep -> triage (DESIGN §5).",
}
json.dump(m, open(os.path.join(VERIF, "MANIFEST.json"), "w"), indent=1)
print("claimed", [c["property_id"] for c in checks])
