#!/usr/bin/env python3
"""(Re)write MANIFEST.json from the per-property metadata below; keeps it schema-valid."""
import json, os
VERIF = os.path.dirname(os.path.dirname(os.path.abspath(__file__)))
props = [json.loads(l) for l in open(os.path.join(VERIF, "properties.jsonl"))]

CLAIMED = {
 "C07": dict(
  technique="Lean 4 proof: Python tuple comparison = lexicographic compare of a structured key (Std.TransOrd); model tied by regenerated tables + correspondence",
  text=("Order laws (trichotomy, transitivity, == equivalence and congruence, derived <=/>=/!=, a<b iff b>a), hash agreement, tuple/list spelling and the "
        "semver clauses are Lean theorems over ALL objects of the three version classes (unbounded numbers, arbitrary tags) whose comparison key exists; "
        "proved by showing that Py.Cmp (a model of CPython's rich comparison incl. the Inf/NegInf sentinels) on the key tuples equals the lexicographic "
        "`compare` of a structured key type, whose lawfulness comes from Lean core. The regex texts, slot tuples and spelling tables the model runs on are "
        "regenerated from /repo on every run; the hand-written half is compared with the real classes on parse/compare/operators/hash/increment/_extract_letter."),
  note=("Trusted: Lean kernel; axioms propext, Classical.choice, Quot.sound only; extract.py; Py.Cmp/Py.Re/Py.ReParse as models of CPython (validated "
        "differentially every run). Not proved: that the key exists for every parsed object (pyInt of the captured digits) and the str spelling for all "
        "objects - both are covered by the correspondence and the sweep only."),
  design="§6 C07"),
}

checks = []
na = []
for p in props:
    pid = p["id"]
    if pid in CLAIMED:
        c = CLAIMED[pid]
        checks.append({
            "property_id": pid,
            "quick_cmd": f"./check {pid} --tier quick",
            "thorough_cmd": f"./check {pid} --tier thorough",
            "evidence_file": f"evidence/{pid}.json",
            "replay_cmd_template": f"./check {pid} --replay {{path}}",
            "engine": "lean-fmtmodel",
            "level_claimed": {"category": "proof", "text": c["text"], "design_ref": c["design"]},
            "level_note": c["note"],
            "technique": c["technique"],
        })
    else:
        na.append({"property_id": pid, "reason": "check under construction in this round (model and theorems not yet built)"})

m = {
 "version": 1,
 "setup_cmd": "cd lean && /venv/bin/python ../harness/extract.py && lake build FmtModel fmtdrv " + " ".join(f"FmtModel.Props.{c['property_id']}" for c in checks),
 "hooks": {"guard": "FMTUTIL_VERIF", "enable": "no source hooks are needed; checks import /repo's working tree directly",
           "baseline_off_cmd": "cd /repo && /venv/bin/python -m pytest -ra -q -p no:cacheprovider --timeout=900 --continue-on-collection-errors",
           "source_commits": [], "add_only": True},
 "engines": [{"name": "lean-fmtmodel", "path": "lean", "serves_properties": [c["property_id"] for c in checks],
              "kind_free_text": "Lean 4 model of fmtutil (generated tables + hand-written algorithms), property theorems, native line-protocol driver; Python harness for translator, correspondence and failing-input search"}],
 "checks": checks,
 "not_applicable": na,
 "notes": "Every check: extract tables from /repo -> lake build theorems -> axiom audit -> model-vs-implementation correspondence -> spec-vs-implementation sweep -> triage (DESIGN §5).",
}
json.dump(m, open(os.path.join(VERIF, "MANIFEST.json"), "w"), indent=1)
print("claimed", [c["property_id"] for c in checks])
