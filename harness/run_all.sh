#!/bin/bash
# run every claimed check (quick tier) on the current tree; used to refresh the committed evidence
cd "$(dirname "$0")/.."
ids=$(python3 -c "import json; print(' '.join(c['property_id'] for c in json.load(open('MANIFEST.json'))['checks']))")
fail=0
for p in $ids; do
  out=$(./check $p --tier ${1:-quick} 2>&1 | tail -1)
  echo "$out"
  case "$out" in *"-> OK") ;; *) fail=1;; esac
done
exit $fail
