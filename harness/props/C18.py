"""C18 — the asset-defined formatters agree with the classic ones."""
from __future__ import annotations

import datetime as _dt
import itertools

from common import esc, rng
from framework import Cases, Sweep
import corr_fmt

from fmtutil import Datetime, Serial
from fmtutil.__assets import Datetime as ADatetime, Serial as ASerial
from fmtutil.exceptions import FormatterError

RULE = ("Serial: integers of the C09 grid (0..10^30+7, 2^53 neighbours, random up to 10^24) x directives %n %p %b %c %u singly and in formats of 1..4 directives with inert separators; "
        "Datetime: instants of the C01 domain (whole seconds) x %n %Y %m %d %H %M %S singly and combined; renderings compared; every rendered string (and edited variants) parsed by both "
        "implementations with the same format, strict and non-strict - values compared whenever both accept; +, - with ints / timedeltas / same-class objects and <, ==, hash on pairs; "
        "round trip parse(format(v)) on the asset formatters' own directives. distinct = distinct (value, format) cases")
TRUSTED = ["the classic formatters as the reference (C01, C02, C09 tie them to their specifications)"]
ASSUMPTIONS = ["a string only one of the two implementations accepts is counted (branch acceptance-differs), not judged: the property speaks of strings both accept"]

S_DIRS = ["%n", "%p", "%b", "%c", "%u"]
D_DIRS = ["%n", "%Y", "%m", "%d", "%H", "%M", "%S"]
SEPS = ["-", "/", " ", ":", "_", "__", "#"]


def outcome(fn):
    try:
        return ("ok", fn())
    except FormatterError as e:
        return ("err", type(e).__name__)
    except Exception as e:  # noqa: BLE001
        return ("foreign", type(e).__name__)


def compare_parse(sw, kind, A, C, text, fmt, case):
    for strict in (False, True):
        ra = outcome(lambda: A.parse(text, fmt, strict=strict).value)
        rc = outcome(lambda: C.parse(text, fmt, strict=strict).value)
        c2 = {**case, "text": text, "fmt": fmt, "strict": strict}
        if ra[0] == "foreign":
            sw.check(False, "the asset formatter raises a foreign exception", {**c2, "clause": "asset-foreign"}, "FormatterError", ra[1])
            continue
        if ra[0] == "ok" and rc[0] == "ok":
            sw.branches["both-accept"] += 1
            sw.check(ra[1] == rc[1], "both implementations accept the string but read different values", {**c2, "clause": kind + "-parse"}, str(rc[1]), str(ra[1]))
        elif ra[0] != rc[0]:
            sw.branches["acceptance-differs"] += 1
        else:
            sw.branches["both-reject"] += 1


def sweep_serial(sw, r, tier):
    vals = corr_fmt.SERIAL_VALUES + [r.randrange(10 ** r.randint(1, 24)) for _ in range(40 if tier == "quick" else 300)]
    for n in vals:
        case = {"cls": "serial", "value": n}
        try:
            a, c = ASerial.from_value(n), Serial.from_value(n)
        except Exception as e:  # noqa: BLE001
            sw.check(False, "from_value of a value of the C09 domain raises", {**case, "clause": "serial-from-value"}, n, f"{type(e).__name__}: {e}")
            continue
        # %p is a 3-digit field and the asset %b an 8-bit field: like %p in C01, they belong to the domain only while the value fits
        dirs = [d for d in S_DIRS if (d != "%p" or n < 1000) and (d != "%b" or n < 256)]
        for d in S_DIRS:   # rendering is compared for every directive and every value, whether or not the field can hold it
            sw.note(["serial", n, d], "serial-render")
            ra, rc = outcome(lambda: a.format(d)), outcome(lambda: c.format(d))
            sw.check(ra == rc, "the renderings differ", {**case, "clause": "serial-render", "fmt": d}, rc, ra)
        sw.check(a.value == c.value == n, "from_value does not keep the value", {**case, "clause": "serial-from-value"}, n, [a.value, c.value])
        # percent signs: '%%' is a literal percent wherever it stands, also directly in front of a directive letter
        for fmt in ("%%n", "%%%n", "%n%%", "100%% of %n", "%%%%%n", "%n%%n", "%%c-%c"):
            sw.note(["serial", n, fmt], "serial-percent")
            ra, rc = outcome(lambda: a.format(fmt)), outcome(lambda: c.format(fmt))
            sw.check(ra == rc, "the renderings differ", {**case, "clause": "serial-render", "fmt": fmt}, rc, ra)
            if rc[0] == "ok":
                compare_parse(sw, "serial", ASerial, Serial, rc[1], fmt, case)
        for _ in range(3 if tier == "quick" else 8):
            toks = [r.choice(dirs) for _ in range(r.randint(1, 4))]
            # an underscore separator next to %u (digits grouped by underscores) makes the string ambiguous
            fmt = r.choice([x for x in SEPS if "_" not in x] if "%u" in toks else SEPS).join(toks)
            sw.note(["serial", n, fmt], "serial-format")
            ra, rc = outcome(lambda: a.format(fmt)), outcome(lambda: c.format(fmt))
            sw.check(ra == rc, "the renderings differ", {**case, "clause": "serial-render", "fmt": fmt}, rc, ra)
            if rc[0] != "ok":
                continue
            text = rc[1]
            compare_parse(sw, "serial", ASerial, Serial, text, fmt, case)
            compare_parse(sw, "serial", ASerial, Serial, corr_fmt.mutate(r, text, "0123456789,_ "), fmt, case)
            # round trip on the asset formatter
            back = outcome(lambda: ASerial.parse(text, fmt))
            if back[0] == "ok":
                sw.check(back[1].value == n and back[1].format(fmt) == text, "the asset formatter does not read back what it printed", {**case, "clause": "asset-roundtrip", "fmt": fmt, "text": text}, [n, text], [back[1].value, back[1].format(fmt)])
            else:
                sw.check(False, "the asset formatter rejects what it printed", {**case, "clause": "asset-roundtrip", "fmt": fmt, "text": text}, n, back)
    # two directives that state different numbers (zero among them): whatever the classic formatter makes of the string
    # - the first statement wins, or the string is refused - the asset formatter makes the same of it
    for x, y in itertools.permutations([0, 1, 7, 10, 100, 255], 2):
        for d1, d2 in itertools.product(S_DIRS, repeat=2):
            try:
                text = Serial.from_value(x).format(d1) + " " + Serial.from_value(y).format(d2)
            except Exception:  # noqa: BLE001
                continue
            sw.note(["serial-disagree", x, y, d1, d2], "serial-disagree")
            compare_parse(sw, "serial", ASerial, Serial, text, f"{d1} {d2}", {"cls": "serial", "value": [x, y]})
    # arithmetic and order on pairs
    pairs = list(itertools.product(r.sample(vals, min(len(vals), 8 if tier == "quick" else 20)), repeat=2))
    for x, y in pairs:
        try:
            ax, ay, cx, cy = ASerial.from_value(x), ASerial.from_value(y), Serial.from_value(x), Serial.from_value(y)
        except Exception:  # noqa: BLE001 - reported above
            continue
        case = {"cls": "serial", "a": x, "b": y}
        sw.note(["serial-pair", x, y], "serial-pair")
        def val(o):
            return ("ok", o[1].value if hasattr(o[1], "value") else o[1]) if o[0] == "ok" else (o[0], "TypeError" if o[1] == "TypeError" else o[1])
        for op, fa, fc in (("a+n", lambda: ax + y, lambda: cx + y), ("n+a", lambda: y + ax, lambda: y + cx), ("a+b", lambda: ax + ay, lambda: cx + cy),
                           ("a-n", lambda: ax - y, lambda: cx - y), ("a-b", lambda: ax - ay, lambda: cx - cy), ("n-a", lambda: y - ax, lambda: y - cx)):
            ra, rc = val(outcome(fa)), val(outcome(fc))
            if ra[0] != "ok" and rc[0] != "ok":
                sw.branches["both-raise"] += 1   # a result outside the domain (negative serial): both refuse, the exception kinds are C16's business
                continue
            sw.check(ra == rc, "arithmetic differs between the two implementations", {**case, "clause": "serial-arith", "op": op}, rc, ra)
        for op, fa, fc in (("<", lambda: ax < ay, lambda: cx < cy), ("==", lambda: ax == ay, lambda: cx == cy), (">", lambda: ax > ay, lambda: cx > cy),
                           ("<=", lambda: ax <= ay, lambda: cx <= cy), ("hash-eq", lambda: hash(ax) == hash(ay), lambda: hash(cx) == hash(cy))):
            ra, rc = outcome(fa), outcome(fc)
            sw.check(ra == rc, "ordering differs between the two implementations", {**case, "clause": "serial-order", "op": op}, rc, ra)


def rand_instant(r):
    t = corr_fmt.rand_dt(r).replace(microsecond=0)
    if t.year < 1000:
        t = t.replace(year=1000 + t.year % 9000, day=min(t.day, 28))
    return t


def sweep_datetime(sw, r, tier):
    n = 150 if tier == "quick" else 1200
    vals = [rand_instant(r) for _ in range(n)] + [_dt.datetime(2024, 2, 29, 23, 59, 59), _dt.datetime(1000, 1, 1), _dt.datetime(9999, 12, 31, 23, 59, 59), _dt.datetime(1900, 1, 1)]
    for t in vals:
        case = {"cls": "datetime", "value": str(t)}
        try:
            a, c = ADatetime.from_value(t), Datetime.from_value(t)
        except Exception as e:  # noqa: BLE001
            sw.check(False, "from_value of a value of the C01 domain raises", {**case, "clause": "datetime-from-value"}, str(t), f"{type(e).__name__}: {e}")
            continue
        sw.check(a.value == c.value == t, "from_value does not keep the value", {**case, "clause": "datetime-from-value"}, str(t), [str(a.value), str(c.value)])
        for fmt in ("%%H:%M", "%%%Y", "%Y%%", "%%Y-%m", "%d%%%m"):
            sw.note(["datetime", str(t), fmt], "datetime-percent")
            ra, rc = outcome(lambda: a.format(fmt)), outcome(lambda: c.format(fmt))
            sw.check(ra == rc, "the renderings differ", {**case, "clause": "datetime-render", "fmt": fmt}, rc, ra)
            if rc[0] == "ok":
                compare_parse(sw, "datetime", ADatetime, Datetime, rc[1], fmt, case)
        for d in D_DIRS:
            sw.note(["datetime", str(t), d], "datetime-render")
            ra, rc = outcome(lambda: a.format(d)), outcome(lambda: c.format(d))
            sw.check(ra == rc, "the renderings differ", {**case, "clause": "datetime-render", "fmt": d}, rc, ra)
        for _ in range(3 if tier == "quick" else 8):
            if r.random() < 0.5:
                toks = ["%Y", "%m", "%d", "%H", "%M", "%S"]
                r.shuffle(toks)
                full = True
            else:
                toks = r.sample(D_DIRS[1:], r.randint(1, 4)) if r.random() < 0.8 else ["%n"]
                full = toks == ["%n"]
            fmt = r.choice(SEPS).join(toks)
            sw.note(["datetime", str(t), fmt], "datetime-format")
            ra, rc = outcome(lambda: a.format(fmt)), outcome(lambda: c.format(fmt))
            sw.check(ra == rc, "the renderings differ", {**case, "clause": "datetime-render", "fmt": fmt}, rc, ra)
            if rc[0] != "ok":
                continue
            text = rc[1]
            compare_parse(sw, "datetime", ADatetime, Datetime, text, fmt, case)
            compare_parse(sw, "datetime", ADatetime, Datetime, corr_fmt.mutate(r, text, "0123456789-_: "), fmt, case)
            if (t.month, t.day) == (2, 29) and not full and "%Y" not in toks:
                continue  # 29 February without a year: the default year 1900 has no such day (the same for the classic formatter)
            back = outcome(lambda: ADatetime.parse(text, fmt))
            if back[0] == "ok":
                ok = back[1].format(fmt) == text and (not full or back[1].value == t)
                sw.check(ok, "the asset formatter does not read back what it printed", {**case, "clause": "asset-roundtrip", "fmt": fmt, "text": text}, [str(t), text], [str(back[1].value), back[1].format(fmt)])
            else:
                sw.check(False, "the asset formatter rejects what it printed", {**case, "clause": "asset-roundtrip", "fmt": fmt, "text": text}, str(t), back)
    for _ in range(150 if tier == "quick" else 1000):
        t, u = r.choice(vals), r.choice(vals)
        td = _dt.timedelta(days=r.randrange(-300, 300), seconds=r.randrange(86400))
        try:
            at, au, ct, cu = ADatetime.from_value(t), ADatetime.from_value(u), Datetime.from_value(t), Datetime.from_value(u)
        except Exception:  # noqa: BLE001 - reported above
            continue
        case = {"cls": "datetime", "a": str(t), "b": str(u), "td": str(td)}
        sw.note(["datetime-pair", str(t), str(u), str(td)], "datetime-pair")
        def val(o):
            return ("ok", o[1].value if hasattr(o[1], "value") else o[1]) if o[0] == "ok" else o
        for op, fa, fc in (("a+td", lambda: at + td, lambda: ct + td), ("a-td", lambda: at - td, lambda: ct - td), ("td+a", lambda: td + at, lambda: td + ct), ("a-b", lambda: at - au, lambda: ct - cu)):
            try:
                w = {"a+td": lambda: t + td, "a-td": lambda: t - td, "td+a": lambda: t + td, "a-b": lambda: t - u}[op]()
            except OverflowError:
                continue
            if isinstance(w, _dt.datetime) and not (1000 <= w.year <= 9999):
                continue
            ra, rc = val(outcome(fa)), val(outcome(fc))
            if op == "a-b" and ra[0] == "ok" and isinstance(ra[1], _dt.datetime):
                pass
            sw.check(ra == rc, "arithmetic differs between the two implementations", {**case, "clause": "datetime-arith", "op": op}, str(rc), str(ra))
        for op, fa, fc in (("<", lambda: at < au, lambda: ct < cu), ("==", lambda: at == au, lambda: ct == cu), (">=", lambda: at >= au, lambda: ct >= cu),
                           ("hash-eq", lambda: hash(at) == hash(au), lambda: hash(ct) == hash(cu))):
            ra, rc = outcome(fa), outcome(fc)
            sw.check(ra == rc, "ordering differs between the two implementations", {**case, "clause": "datetime-order", "op": op}, rc, ra)


def sweep(tier: str) -> Sweep:
    r = rng("C18")
    sw = Sweep("C18")
    sweep_serial(sw, r, tier)
    sweep_datetime(sw, r, tier)
    return sw


def run(tier: str, drv_ok: bool) -> dict:
    res = {"sweep": sweep(tier)}
    if drv_ok:
        r = rng("C18corr")
        cs = corr_fmt.assets_cases(r, 200 if tier == "quick" else 2000)
        res["corr_diffs"] = cs.run()
        res["corr_stats"] = cs.stats()
        res["corr_samples"] = cs.desc[:3]
    return res
