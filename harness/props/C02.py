"""C02 — Datetime agrees with the standard calendar."""
from __future__ import annotations

import datetime as _dt

from common import rng
from framework import Sweep
import corr_fmt
import spec

from fmtutil import Datetime

RULE = ("instants: every day of 2000..2399 (thorough) / a stride of them (quick) plus the boundary years 1000, 1900, 1999, 9999, leap days and year ends, "
        "with times incl. every hour and carry values; each instant x every Datetime directive for rendering; for parsing, each instant x a description "
        "drawn from date family {Y-m-d in all spellings, Y-j, Y-U-weekday, Y-W-weekday} x time family {H, I+p} x M x S x f in padded/unpadded spellings, "
        "texts produced by the independent calendar harness/spec.py. distinct = distinct (instant, format)")
TRUSTED = ["harness/spec.py calendar (ordinal arithmetic, English name tables), itself compared with datetime.strftime on every instant used"]
ASSUMPTIONS = ["C locale", "two-digit years only for 1900..1999"]

DIRECTIVES = ["%n", "%Y", "%y", "%-y", "%m", "%-m", "%b", "%B", "%a", "%A", "%w", "%u", "%d", "%-d", "%H", "%-H", "%I", "%-I", "%M", "%-M", "%S", "%-S",
              "%j", "%-j", "%U", "%W", "%p", "%f"]


def instants(r, tier):
    out = []
    stride = 1 if tier == "thorough" else 37
    d = _dt.date(2000, 1, 1)
    end = _dt.date(2400, 1, 1)
    i = 0
    while d < end:
        if i % stride == 0:
            out.append(d)
        d += _dt.timedelta(days=1)
        i += 1
    for y in (1000, 1900, 1904, 1999, 2000, 2023, 2024, 9999):
        for md in ((1, 1), (1, 2), (1, 7), (2, 28), (3, 1), (6, 15), (10, 10), (12, 24), (12, 30), (12, 31)):
            out.append(_dt.date(y, *md))
        if spec.is_leap(y):
            out.append(_dt.date(y, 2, 29))
    # year edges of every kind of year: 29 Dec .. 3 Jan for each of the 14 calendars (week 00, week 52/53 of both counts)
    for y in (2017, 2018, 2019, 2020, 2021, 2022, 2023, 2024, 2025, 2026, 2027, 2028, 2032, 2036, 2040, 2044, 2000, 2012):
        for md in ((12, 29), (12, 30), (12, 31), (1, 1), (1, 2), (1, 3), (1, 4)):
            out.append(_dt.date(y, *md))
    res = []
    times = [(0, 0, 0, 0), (12, 0, 0, 0), (23, 59, 59, 999999), (9, 5, 7, 10), (10, 10, 10, 100000), (13, 50, 20, 5), (1, 30, 0, 123456), (11, 59, 59, 0)]
    for d in out:
        t = r.choice(times) if r.random() < 0.7 else (r.randrange(24), r.randrange(60), r.randrange(60), r.randrange(10 ** 6))
        res.append((d.year, d.month, d.day, *t))
    return res


def description(r, t):
    """a complete description of instant t as (format, text, kinds) using the independent calendar"""
    y = t[0]
    kinds = set()
    ydir = r.choice(["%Y"] + (["%y", "%-y"] if 1900 <= y <= 1999 else []))
    fam = r.choice(["ymd", "ymd", "yj", "yU", "yW"])
    if fam == "ymd":
        dirs = [ydir, r.choice(["%m", "%-m", "%b", "%B"]), r.choice(["%d", "%-d"])]
    elif fam == "yj":
        dirs = [ydir, r.choice(["%j", "%-j"])]
    else:
        dirs = [ydir, "%U" if fam == "yU" else "%W", r.choice(["%w", "%u", "%a", "%A"])]
    if r.random() < 0.3 and fam == "ymd":
        dirs.append(r.choice(["%a", "%A", "%w", "%u"]))  # a redundant but correct weekday
    if r.random() < 0.5:
        dirs.append(r.choice(["%H", "%-H"]))
    else:
        dirs += [r.choice(["%I", "%-I"]), "%p"]
    dirs += [r.choice(["%M", "%-M"]), r.choice(["%S", "%-S"]), "%f"]
    r.shuffle(dirs)
    w = spec.wday_sun(t[0], t[1], t[2])
    if any(d in ("%a", "%A") for d in dirs) and w in (2, 4):
        kinds.add("weekday-name-tue-thu")
    if "%-H" in dirs and t[3] < 10:
        kinds.add("unpadded-hour")
    sep = r.choice([" ", "-", "/", ":", "_", ","])
    fmt = sep.join(dirs)
    text = sep.join(spec.strftime_spec(d, t) for d in dirs)
    return fmt, text, sorted(kinds)


def sweep(tier: str) -> Sweep:
    r = rng("C02")
    sw = Sweep("C02")
    ts = instants(r, tier)
    for t in ts:
        dt = _dt.datetime(*t)
        iso = dt.strftime("%Y-%m-%d %H:%M:%S.%f")
        # the oracle itself against the standard library (never against fmtutil)
        for d in ("%Y", "%y", "%m", "%b", "%B", "%a", "%A", "%w", "%u", "%d", "%H", "%I", "%M", "%S", "%j", "%U", "%W", "%p", "%f"):
            assert spec.strftime_spec(d, t) == dt.strftime(d).rjust(4, "0") if d == "%Y" else spec.strftime_spec(d, t) == dt.strftime(d), (d, t)
        try:
            obj = Datetime.from_value(dt)
        except Exception as e:  # noqa: BLE001
            sw.check(False, "from_value raised", {"t": iso, "clause": "from_value"}, None, f"{type(e).__name__}: {e}")
            continue
        sw.check(obj.value == dt, "from_value(t) does not have value t", {"t": iso, "clause": "from_value"}, iso, str(obj.value))
        for d in DIRECTIVES:
            sw.note(["render", iso, d], "render")
            want = spec.strftime_spec(d, t)
            got = obj.format(d)
            sw.check(got == want, "rendering differs from the calendar", {"t": iso, "directive": d, "clause": "render"}, want, got)
        for _ in range(2 if tier == "quick" else 4):
            fmt, text, kinds = description(r, t)
            for strict in (False, True):
                case = {"t": iso, "fmt": fmt, "text": text, "strict": strict, "clause": "parse", "kind": ",".join(kinds) or "plain"}
                sw.note(["parse", iso, fmt, strict], "parse")
                try:
                    o = Datetime.parse(text, fmt, strict=strict)
                    sw.check(o.value == dt, "a complete description is parsed to another instant", case, iso, str(o.value))
                except Exception as e:  # noqa: BLE001
                    sw.check(False, "a complete description of an instant is rejected", case, iso, f"{type(e).__name__}: {e}")
    # unmentioned fields default to 1900-01-01 00:00:00.000000
    for fmt, text, want in (("%H", "07", _dt.datetime(1900, 1, 1, 7)), ("%Y", "2023", _dt.datetime(2023, 1, 1)), ("%m", "09", _dt.datetime(1900, 9, 1)),
                            ("%d", "15", _dt.datetime(1900, 1, 15)), ("%f", "000123", _dt.datetime(1900, 1, 1, 0, 0, 0, 123)), ("%M:%S", "05:06", _dt.datetime(1900, 1, 1, 0, 5, 6)),
                            ("%j", "032", _dt.datetime(1900, 2, 1)), ("%p", "AM", _dt.datetime(1900, 1, 1))):
        sw.note(["default", fmt], "default")
        try:
            o = Datetime.parse(text, fmt)
            sw.check(o.value == want, "an unmentioned field does not default to 1900-01-01 00:00:00", {"fmt": fmt, "text": text, "clause": "default"}, str(want), str(o.value))
        except Exception as e:  # noqa: BLE001
            sw.check(False, "a partial description is rejected", {"fmt": fmt, "text": text, "clause": "default"}, str(want), f"{type(e).__name__}: {e}")
    return sw


def run(tier: str, drv_ok: bool) -> dict:
    res = {"sweep": sweep(tier)}
    if drv_ok:
        cs = corr_fmt.datetime_cases(rng("C02corr"), 250 if tier == "quick" else 3000)
        res["corr_diffs"] = cs.run()
        res["corr_stats"] = cs.stats()
        res["corr_samples"] = cs.desc[:3]
    return res
