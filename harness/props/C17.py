"""C17 — results depend only on arguments, not on call history or thread schedule."""
from __future__ import annotations

import concurrent.futures
import json
import os
import subprocess
import sys
import threading

from common import VERIF, rng
from framework import Cases, Sweep
import corr_fmt
import c17_worker as W

RULE = ("a pool of 150..400 (class, operation, arguments) items over the five formatters, EnvConst, the asset-defined formatters, the three version classes, constant classes and groups "
        "created mid-sequence; operations parse (good, failing, strict and non-strict), parse+format, gen_format, regex, comparisons+hash, valid, arithmetic. Reference outcome of every item: a "
        "fresh interpreter that evaluates this item alone. Then: the whole pool in 6 (quick) / 40 (thorough) random orders with repetitions in one process; the same pool from 2, 4, 8, 16 "
        "threads with sys.setswitchinterval(1e-6), every thread running its own shuffled copy against shared classes; instance snapshots (slots) around every non-constructing operation. "
        "the pool includes to_const (formatters, groups with a subset, constants of constants with equal texts from different classes) and decimal-context-sensitive Storage values; "
        "a fresh-class race: 40 (quick) / 200 (thorough) constant classes created a moment ago whose FIRST calls are made by 4..16 threads at once, judged during and after the race. "
        "distinct = distinct pool items")
TRUSTED = ["the outcome text of an item (value / string / exception type) captures what a caller can observe"]
ASSUMPTIONS = ["Datetime defaults that read the wall clock are excluded (every Datetime item states its year)"]

PY = "/venv/bin/python"


def build_pool(r, tier):
    n = 260 if tier == "quick" else 500
    pool = []
    B = lambda k: ["builtin", k]  # noqa: E731
    texts = {
        "serial": [("12", "%n"), ("007", "%p"), ("1,234", "%c"), ("00001101", "%b"), ("12x", "%n"), ("12 13", "%n %c"), ("", "%n")],
        "datetime": [("2024-02-29", "%Y-%m-%d"), ("2023-02-29", "%Y-%m-%d"), ("2024 60", "%Y %j"), ("20240105_101112", "%n"), ("24:00 2024", "%H:%M %Y"), ("Jan 5 2024", "%b %-d %Y")],
        "naming": [("data engineer", "%n"), ("DataEngineer", "%p"), ("data_engineer de", "%s %a"), ("data_engineer xx", "%s %a"), ("DATA-ENGINEER", "%K")],
        "version": [("1.2.3", "%m.%n.%c"), ("1.2.3rc1", "%m.%n.%c%q"), ("1_2_3", "%f"), ("1.2", "%m.%n.%c"), ("2!1.2.3", "%e%m.%n.%c")],
        "storage": [("1024", "%b"), ("1KB", "%K"), ("1.5MB", "%M"), ("xB", "%B")],
        "envconst": [("dev", "%-d"), ("development", "%d"), ("prod", "%-p"), ("devx", "%-d")],
        "aserial": [("12", "%n"), ("007", "%p"), ("12x", "%n")],
        "adatetime": [("2024-02-29 10:11:12", "%Y-%m-%d %H:%M:%S"), ("2023-02-29", "%Y-%m-%d")],
    }
    for k, lst in texts.items():
        for text, fmt in lst:
            for strict in (False, True):
                pool.append({"cls": B(k), "op": "parse", "args": [text, fmt, strict]})
            pool.append({"cls": B(k), "op": "gen_format", "args": [fmt]})
        pool.append({"cls": B(k), "op": "regex", "args": []})
        good = [(t, f) for t, f in lst]
        for (t1, f1), (t2, f2) in [(good[0], good[1]), (good[1], good[0]), (good[0], good[0])]:
            if k != "envconst":
                pool.append({"cls": B(k), "op": "cmp", "args": [t1, f1, t2, f2]})
        pool.append({"cls": B(k), "op": "parse_format", "args": [good[0][0], good[0][1], good[1][1]]})
        if k not in ("envconst", "aserial", "adatetime"):
            pool.append({"cls": B(k), "op": "valid", "args": [good[0][0], good[0][1], good[1][0], good[1][1]]})
    # repeated directives: the numbering of repeated captures (name, name__1, …) is a per-call counter
    for k, text, fmt in (("serial", "12-12-12", "%n-%n-%n"), ("serial", "12-13", "%n-%n"), ("datetime", "2024 2024", "%Y %Y"), ("naming", "de de", "%a %a"),
                         ("version", "1.1.1", "%m.%m.%m"), ("storage", "8 8", "%b %b"), ("aserial", "7 7", "%n %n")):
        pool.append({"cls": B(k), "op": "gen_format", "args": [fmt]})
        pool.append({"cls": B(k), "op": "parse", "args": [text, fmt, False]})
        pool.append({"cls": B(k), "op": "parse", "args": [text, fmt, True]})
    # subclasses with their own configuration, used before and after their parent
    for sub, text in ((["subclass", "serial5"], "00042"), (["subclass", "serial2"], "42")):
        pool.append({"cls": sub, "op": "parse", "args": [text, "%p", False]})
        pool.append({"cls": sub, "op": "gen_format", "args": ["%p-%b"]})
        pool.append({"cls": sub, "op": "regex", "args": []})
        pool.append({"cls": sub, "op": "parse_format", "args": [text, "%p", "%p/%b"]})
    pool.append({"cls": B("serial"), "op": "parse", "args": ["042", "%p", False]})
    # a call that fails half way through gen_format (a known directive, then an unknown one), for every class
    for k, text, fmt in (("datetime", "2024-01-01", "%Y-%m-%Q"), ("serial", "12-x", "%n-%Q"), ("naming", "de x", "%a %Q"), ("version", "1.2", "%m.%Q"), ("storage", "8 x", "%b %Q"),
                         ("aserial", "12 x", "%n %Q"), ("adatetime", "2024 x", "%Y %Q")):
        pool.append({"cls": B(k), "op": "parse", "args": [text, fmt, False]})
        pool.append({"cls": B(k), "op": "gen_format", "args": [fmt]})
    # two group classes with the same member names and different member classes, used with the same format string
    for kinds in (("serial", "datetime"), ("naming", "datetime"), ("version", "serial"), ("serial", "serial")):
        rec = ["group", [["id", kinds[0]], ["ts", kinds[1]]]]
        pool.append({"cls": rec, "op": "gen_format", "args": ["{id}_{ts}"]})
        pool.append({"cls": rec, "op": "parse", "args": ["42_20240131", "{id:%n}_{ts:%Y%m%d}", None]})
        pool.append({"cls": rec, "op": "parse", "args": ["data_2024", "{id:%n}_{ts:%n}", None]})
        # making a constant group out of an instance is a call like any other: the class it came from keeps working as before
        pool.append({"cls": rec, "op": "toconst", "args": ["42_20240131", "{id:%n}_{ts:%Y%m%d}", None]})
        pool.append({"cls": rec, "op": "toconst", "args": ["42_20240131", "{id:%n}_{ts:%Y%m%d}", ["id"]]})
        pool.append({"cls": rec, "op": "toconst", "args": ["data_2024", "{id:%n}_{ts:%n}", ["ts"]]})
    for k, lst in texts.items():
        if k not in ("envconst", "aserial", "adatetime"):
            pool.append({"cls": B(k), "op": "toconst", "args": [lst[0][0], lst[0][1], None]})
    # equal texts frozen from different classes (a memo keyed by the object would confuse them: constants compare by text)
    for k, text, fmt in (("datetime", "2023", "%Y"), ("serial", "2023", "%n"), ("storage", "2023", "%b"), ("version", "2023", "%m"), ("naming", "2023", "%f"),
                         ("datetime", "12", "%d"), ("serial", "12", "%n"), ("datetime", "12", "%m"), ("datetime", "12", "%H")):
        pool.append({"cls": B(k), "op": "toconst_chain", "args": [text, fmt]})
    # interpreter-wide settings (the decimal context, …) are shared state as well: values that are sensitive to them,
    # next to the calls that do arithmetic on decimals
    for text, fmt in (("123456789012345678901234567890B", "%B"), ("123456789012345678901234567890", "%b"), ("987654321098765432109876543210KB", "%K"),
                      ("1.00000000000000000000000000001MB", "%M"), ("3YB", "%Y")):
        pool.append({"cls": B("storage"), "op": "parse", "args": [text, fmt, False]})
        for f2 in ("%b", "%B", "%K", "%G", "%Y"):
            pool.append({"cls": B("storage"), "op": "parse_format", "args": [text, fmt, f2]})
    # the same text of one field in contexts where it means something else (a memo keyed by the text alone would be wrong)
    for y in ("2023", "2024", "1900", "2000"):
        for j in ("060", "061", "366", "365", "001"):
            pool.append({"cls": B("datetime"), "op": "parse", "args": [f"{y} {j}", "%Y %j", False]})
        pool.append({"cls": B("datetime"), "op": "parse", "args": [f"{y} 09 1", "%Y %U %w", False]})
        pool.append({"cls": B("datetime"), "op": "parse", "args": [f"{y} 09 1", "%Y %W %w", False]})
        pool.append({"cls": B("datetime"), "op": "parse_format", "args": [f"{y}-02-28", "%Y-%m-%d", "%j %U %W %a"]})
    pool.append({"cls": B("serial"), "op": "arith", "args": ["12", "%n", 30]})
    pool.append({"cls": B("serial"), "op": "arith", "args": ["12", "%n", -30]})
    for k, s in (("ver", "1.2.3"), ("versemver", "1.2.3-rc.1+b"), ("verpkg", "1!1.2.3rc1"), ("verpkg", "not a version"), ("ver", "1.2")):
        pool.append({"cls": B(k), "op": "parse", "args": [s, None]})
    for _ in range(8):
        m = corr_fmt.rand_mapping(r)
        rec = ["const", r.choice(["EnvConst", "KConst", "X"]), sorted(m.items())]
        d = r.choice(list(m))
        pool.append({"cls": rec, "op": "parse", "args": [m[d], d, False]})
        pool.append({"cls": rec, "op": "parse", "args": [m[d] + "x", d, True]})
        pool.append({"cls": rec, "op": "regex", "args": []})
        pool.append({"cls": rec, "op": "parse_format", "args": [m[d], d, r.choice(list(m))]})
    for _ in range(8):
        decl = [(nm, k) for nm, k in corr_fmt.group_decl(r, r.randint(1, 3))]
        rec = ["group", decl]
        G = W.Registry().get(rec)
        fmt, used = corr_fmt.group_fmt(r, decl, repeats=True)
        vals = {nm: corr_fmt.rand_member_value(r, k) for nm, k in decl}
        try:
            text = G.from_value(vals).format(fmt)
        except Exception:  # noqa: BLE001
            continue
        pool.append({"cls": rec, "op": "parse", "args": [text, fmt, None]})
        pool.append({"cls": rec, "op": "parse", "args": [corr_fmt.mutate(r, text, "0123456789_-ab "), fmt, None]})
        pool.append({"cls": rec, "op": "gen_format", "args": [fmt]})
        pool.append({"cls": rec, "op": "parse_format", "args": [text, fmt, fmt]})
    while len(pool) < n:
        c = r.choice(["serial", "datetime", "naming", "version", "storage"])
        fmt = corr_fmt.rand_fmt(r, c, k=r.randint(1, 3))
        gen = {"serial": corr_fmt.serial_cases, "datetime": corr_fmt.datetime_cases, "naming": corr_fmt.naming_cases, "version": corr_fmt.version_cases, "storage": corr_fmt.storage_cases}
        pool.append({"cls": B(c), "op": "gen_format", "args": [fmt]})
        t = r.choice(texts[c])[0]
        pool.append({"cls": B(c), "op": "parse", "args": [t, fmt, r.random() < 0.5]})
    # distinct items only
    seen, out = set(), []
    for it in pool:
        k = json.dumps(it, sort_keys=True)
        if k not in seen:
            seen.add(k)
            out.append(it)
    return out


def fresh_outcomes(pool):
    """each item alone in a fresh interpreter"""
    import fmtutil
    root = os.path.dirname(os.path.dirname(os.path.abspath(fmtutil.__file__)))   # the tree under test (/repo in a registered check)
    env = dict(os.environ, PYTHONPATH=root + os.pathsep + os.path.join(VERIF, "harness"), PYTHONDONTWRITEBYTECODE="1")

    def one(it):
        p = subprocess.run([PY, os.path.join(VERIF, "harness", "c17_worker.py")], input=(json.dumps(it) + "\n").encode(), stdout=subprocess.PIPE, stderr=subprocess.PIPE, env=env, timeout=120)
        out = p.stdout.decode().split("\n")
        try:
            return json.loads(out[0]) if p.returncode == 0 else "crash:" + p.stderr.decode()[-200:]
        except ValueError:
            return "crash:" + (p.stdout.decode() + p.stderr.decode())[-200:]

    with concurrent.futures.ThreadPoolExecutor(16) as ex:
        return list(ex.map(one, pool))


def snapshot(o):
    """the observable state of a formatter or group instance"""
    if hasattr(o, "groups") and isinstance(o.groups, dict):
        return tuple((k, snapshot(v)) for k, v in o.groups.items())
    slots = []
    for klass in type(o).__mro__:
        slots += list(getattr(klass, "__slots__", ()))
    st = tuple((s, repr(getattr(o, s, None))) for s in sorted(set(slots)) if s != "__dict__")
    return st + (tuple(sorted((k, repr(v)) for k, v in getattr(o, "__dict__", {}).items())),)


def sweep_instances(sw, r, pool):
    """format, valid, comparison, hashing, arithmetic, values, to_const leave the instance as it was"""
    reg = W.Registry()
    for it in pool:
        if it["op"] != "parse":
            continue
        try:
            cls = reg.get(it["cls"])
            a = it["args"]
            o = cls.parse(a[0], a[1]) if a[1] is not None else cls.parse(a[0])
        except Exception:  # noqa: BLE001
            continue
        if not hasattr(o, "format"):
            continue
        before = snapshot(o)
        sw.note(["instance", it["cls"], it["args"][:2]], "instance")
        import datetime as _dtm
        deltas = {"Serial": 3, "Datetime": _dtm.timedelta(days=2), "Version": (0, 1, 0)}
        adj = []
        if hasattr(o, "groups") and isinstance(o.groups, dict) and hasattr(o, "adjust"):
            adj = [(f"adjust-{nm}", (lambda nm=nm, m=m: o.adjust({nm: deltas[type(m).__name__]}))) for nm, m in o.groups.items() if type(m).__name__ in deltas]
        for name, fn in adj + [("format", lambda: o.format(a[1])), ("str", lambda: str(o)), ("hash", lambda: hash(o)), ("eq", lambda: o == o), ("lt", lambda: o < o),
                         ("values", lambda: o.values()), ("to_const", lambda: o.to_const()), ("valid", lambda: o.valid(a[0], a[1])), ("add", lambda: o + 1), ("sub", lambda: o - 1),
                         ("repr", lambda: repr(o)), ("value", lambda: o.value)]:
            try:
                fn()
            except Exception:  # noqa: BLE001
                pass
            after = snapshot(o)
            if not sw.check(after == before, "an instance was changed by a read-only operation", {"clause": "instance", "op": name, "cls": json.dumps(it["cls"]), "args": it["args"][:2]}, before, after):
                before = after


def sweep(tier: str) -> Sweep:
    r = rng("C17")
    sw = Sweep("C17")
    pool = build_pool(r, tier)
    import framework as _fw
    with _fw.suspended_guard():
        ref = fresh_outcomes(pool)
    for it, o in zip(pool, ref):
        sw.note(["item", it], it["op"] + ("-err" if o.startswith("err:") else "-ok"))
        sw.check(not o.startswith("crash:"), "the fresh interpreter failed on the item", {"clause": "fresh", "item": it}, None, o)
    # sequential histories
    for h in range(10 if tier == "quick" else 40):
        reg = W.Registry()
        order = [r.randrange(len(pool)) for _ in range(len(pool) * 2)]
        trail = []
        for i in order:
            got = W.evaluate(pool[i], reg)
            trail.append(i)
            sw.branches["sequential-calls"] += 1
            sw.check(got == ref[i], "the outcome of a call depends on the calls before it (differs from a fresh interpreter)",
                     {"clause": "history", "item": pool[i], "history": [pool[j] for j in trail[-12:]]}, ref[i], got)
    # threads
    old = sys.getswitchinterval()
    sys.setswitchinterval(1e-6)
    try:
        for nthreads in (2, 4, 8, 16):
            for rep in range(1 if tier == "quick" else 4):
                reg = W.Registry()
                for it in pool:       # dynamic classes are shared between the threads: create them first or on demand
                    if r.random() < 0.5:
                        try:
                            reg.get(it["cls"])
                        except Exception:  # noqa: BLE001
                            pass
                lock = threading.Lock()
                results = []
                orders = []
                for t in range(nthreads):
                    o = list(range(len(pool)))
                    r.shuffle(o)
                    orders.append(o)
                start = threading.Barrier(nthreads)

                def work(order):
                    start.wait()
                    loc = [(i, W.evaluate(pool[i], reg)) for i in order]
                    with lock:
                        results.extend(loc)

                ths = [threading.Thread(target=work, args=(o,)) for o in orders]
                with _fw.suspended_guard():
                    for t in ths:
                        t.start()
                    for t in ths:
                        t.join()
                for i, got in results:
                    sw.branches[f"threads-{nthreads}"] += 1
                    sw.check(got == ref[i], "the outcome of a call depends on the thread schedule (differs from a fresh interpreter)",
                             {"clause": "threads", "item": pool[i], "threads": nthreads}, ref[i], got)
    finally:
        sys.setswitchinterval(old)
    sweep_instances(sw, r, pool)
    sweep_fresh_class_race(sw, r, tier)
    return sw


def sweep_fresh_class_race(sw, r, tier):
    """the FIRST calls on a class created a moment ago, made by several threads at once (lazy initialisation of a class's
    tables is shared state like any other): every call gives what it gives single-threaded, during and after the race"""
    import string
    from fmtutil import Naming, make_const
    directives = [f"%{p}{l}" for p in ("", "-") for l in string.ascii_letters]
    old = sys.getswitchinterval()
    sys.setswitchinterval(1e-6)
    try:
        for rnd in range(40 if tier == "quick" else 200):
            nthreads = r.choice([4, 8, 16])
            if rnd % 2 == 0:
                mapping = {d: f"text.{rnd}.{i}" for i, d in enumerate(directives)}
                C = make_const(name=f"Race{rnd}Const", formatter=dict(mapping))
            else:
                inst = Naming.from_value(["data", "engineer", f"x{rnd}"])
                mapping = {d: v for d, v in inst.values().items() if isinstance(v, str) and v}
                C = inst.to_const()
            ds = list(mapping)
            picks = [ds[-1 - (i % len(ds))] for i in range(nthreads)]
            start = threading.Barrier(nthreads)
            got = [None] * nthreads

            def work(i):
                d = picks[i]
                start.wait()
                try:
                    got[i] = "ok:" + C.parse(mapping[d], d).format(d)
                except BaseException as e:  # noqa: BLE001
                    got[i] = "err:" + type(e).__name__

            ths = [threading.Thread(target=work, args=(i,)) for i in range(nthreads)]
            for t in ths:
                t.start()
            for t in ths:
                t.join()
            for i, d in enumerate(picks):
                sw.branches["fresh-class-race"] += 1
                sw.note(["race", rnd, d], "fresh-class-race")
                case = {"clause": "threads", "item": {"cls": C.__name__, "op": "first parse+format on a fresh constant class", "args": [mapping[d], d]}, "threads": nthreads}
                sw.check(got[i] == "ok:" + mapping[d], "the outcome of a first call on a fresh class depends on the thread schedule", case, "ok:" + mapping[d], got[i])
                try:
                    after = "ok:" + C.parse(mapping[d], d).format(d)
                except BaseException as e:  # noqa: BLE001
                    after = "err:" + type(e).__name__
                sw.check(after == "ok:" + mapping[d], "a call after the threads are done still differs (a table was left half built)", {**case, "clause": "history"}, "ok:" + mapping[d], after)
    finally:
        sys.setswitchinterval(old)


def run(tier: str, drv_ok: bool) -> dict:
    res = {"sweep": sweep(tier)}
    if drv_ok:
        # the model is the cache-free function: its outcomes are compared with the code's after a warm-up history in this process
        r = rng("C17corr")
        warm = W.Registry()
        for it in build_pool(r, "quick"):
            W.evaluate(it, warm)
        cs = corr_fmt.serial_cases(r, 20)
        for more in (corr_fmt.naming_cases(r, 20), corr_fmt.const_cases(r, 20), corr_fmt.group_cases(r, 20), corr_fmt.assets_cases(r, 20)):
            cs.lines += more.lines; cs.exp += more.exp; cs.desc += more.desc; cs.ops.update(more.ops); cs.kinds.update(more.kinds)
        res["corr_diffs"] = cs.run()
        res["corr_stats"] = cs.stats()
        res["corr_samples"] = cs.desc[:3]
    return res
