"""C12 — a format string means the same to format and to parse."""
from __future__ import annotations

import itertools

from common import rng
from framework import Sweep
import corr_fmt
import spec

from fmtutil import Datetime, Naming, Serial, Storage, Version
from fmtutil.exceptions import FormatterArgumentError, FormatterKeyError, FormatterValueError

RULE = ("format strings over the alphabet {two supported directives, an unsupported directive, '%%', lone '%', two inert literals}, every string up to "
        "length 4 (quick) / 5 (thorough) per formatter, longer ones sampled; each is rendered, parsed back and compared with an independent left-to-right "
        "tokeniser. distinct = distinct (formatter, format string)")
TRUSTED = ["the independent tokeniser harness/spec.py:scan"]
ASSUMPTIONS = ["adjacent directives are separated by a literal when the parse side is judged (two adjacent numbers are ambiguous for any parser)"]

import datetime as _dt
import decimal

SUBJECTS = {
    "serial": (Serial, 234, ["%n", "%c"], ["x", "-"]),
    "datetime": (Datetime, _dt.datetime(2023, 9, 8, 7, 6, 5, 4), ["%Y", "%d"], ["x", "-"]),
    "version": (Version, "1.2.3", ["%m", "%c"], ["x", "-"]),
    "naming": (Naming, ["data", "engineer"], ["%s", "%a"], ["/", ":"]),
    "storage": (Storage, 8 * 1024 * 5, ["%B", "%K"], ["x", "-"]),
}


def spec_format(cls, value, toks):
    fm = cls.formatter(value)
    out = []
    for k, t in toks:
        if k == "pct":
            out.append("%")
        elif k == "lit":
            out.append(t)
        else:
            if t not in fm:
                return None
            x = fm[t]["value"]
            out.append(x() if callable(x) else x)
    return "".join(out)


def spec_gen(cls, toks):
    """the pattern gen_format should build: directive regexes in order, their named groups numbered
    name, name__1, name__2, ... in order of appearance; '%%' is a percent sign; literals as written"""
    import re as _re
    table = cls.regex()
    count = {}
    out = []
    for k, t in toks:
        if k == "pct":
            out.append("%")
        elif k == "lit":
            out.append(t)
        else:
            if t not in table:
                return None
            rx = table[t]
            pos = 0
            piece = []
            for m in _re.finditer(r"\(\?P<(\w+)>", rx):
                al = m.group(1)
                n = count.get(al, 0)
                piece.append(rx[pos:m.start()] + "(?P<" + al + (f"__{n}" if n > 0 else "") + ">")
                pos = m.end()
                count[al] = n + 1
            piece.append(rx[pos:])
            out.append("".join(piece))
    return "".join(out)


def judge(sw: Sweep, c: str, cls, value, fmt: str, roundtrip: bool = True):
    toks = spec.scan(fmt)
    case = {"cls": c, "fmt": fmt}
    dirs = [t for k, t in toks if k == "dir"]
    supported = set(cls.formatter(value).keys())
    unsupported = [d for d in dirs if d not in supported]
    want = spec_format(cls, value, toks)
    sw.note(["fmt", c, fmt], "unsupported" if unsupported else ("pct" if "%%" in fmt else "plain"))
    obj = cls.from_value(value)
    # format side
    try:
        got = obj.format(fmt)
        if unsupported:
            sw.check(False, "format kept or dropped an unsupported directive instead of reporting it", {**case, "clause": "format-unsupported"}, "FormatterKeyError", got)
        else:
            sw.check(got == want, "format disagrees with the left-to-right reading", {**case, "clause": "format"}, want, got)
    except FormatterKeyError:
        sw.check(bool(unsupported), "format reported a supported format string", {**case, "clause": "format"}, want, "FormatterKeyError")
    except Exception as e:  # noqa: BLE001
        sw.check(False, "format raised", {**case, "clause": "format"}, want, f"{type(e).__name__}: {e}")
    # parse side
    adjacent = any(a[0] == "dir" and b[0] == "dir" for a, b in zip(toks, toks[1:]))
    if unsupported:
        try:
            cls.parse("x", fmt)
            sw.check(False, "parse accepted a format with an unsupported directive", {**case, "clause": "parse-unsupported"}, "FormatterArgumentError")
        except FormatterArgumentError:
            pass
        except Exception as e:  # noqa: BLE001
            sw.check(False, "parse did not report the unsupported directive with FormatterArgumentError", {**case, "clause": "parse-unsupported"}, "FormatterArgumentError", type(e).__name__)
        return
    try:
        g = cls.gen_format(fmt)
        sw.check(g == spec_gen(cls, toks), "gen_format disagrees with the left-to-right reading", {**case, "clause": "gen_format"}, spec_gen(cls, toks), g)
    except Exception as e:  # noqa: BLE001
        sw.check(False, "gen_format raised on a supported format string", {**case, "clause": "gen_format"}, None, f"{type(e).__name__}: {e}")
    if adjacent or want is None or not roundtrip:
        return
    try:
        o = cls.parse(want, fmt)
        back = o.format(fmt)
        sw.check(back == want, "parse read the format differently from format (re-rendering differs)", {**case, "clause": "parse"}, want, back)
    except Exception as e:  # noqa: BLE001
        sw.check(False, "parse rejects what format printed with the same format string", {**case, "clause": "parse"}, want, f"{type(e).__name__}: {e}")


def sweep(tier: str) -> Sweep:
    r = rng("C12")
    sw = Sweep("C12")
    L = 4 if tier == "quick" else 5
    for c, (cls, value, ds, lits) in SUBJECTS.items():
        atoms = ds + ["%Q", "%%", "%"] + lits
        # a '%' in front of a character that is not a letter (digit, underscore, space, punctuation) is literal for both sides
        for tail in ("5", "_", "-5", "-_", " ", "-", "!", "!5", "1a", "_n", "é", "=", "#"):
            for pre, post in (("", ""), (ds[0], ""), ("", ds[0]), ("%%", ds[0]), (ds[0] + "_", "_x")):
                judge(sw, c, cls, value, pre + "%" + tail + post)
        for n in range(1, L + 1):
            combos = list(itertools.product(atoms, repeat=n))
            if tier == "quick" and n == 4:
                combos = r.sample(combos, 500)
            for combo in combos:
                judge(sw, c, cls, value, "".join(combo))
        # repeated directives and longer samples
        alld = [k for k, v in cls.formatter(value).items() if (v["value"]() if callable(v["value"]) else v["value"]) is not None]
        for _ in range(150 if tier == "quick" else 2000):
            k = r.randint(3, 9)
            parts = []
            for i in range(k):
                parts.append(r.choice(alld if r.random() < 0.5 else ds + ["%%", "%%", "%"]))
                parts.append(r.choice(lits + ["", ""]))
            judge(sw, c, cls, value, "".join(parts), roundtrip=False)
        # the unpadded spelling `%-x` of a directive that has none is an unsupported directive like any other: it is
        # reported by both sides, never read as `%x`
        table = cls.regex()
        for d in [k for k in table if len(k) == 2 and ("%-" + k[1]) not in table]:
            form = "%-" + d[1]
            for fmt in (form, ds[0] + lits[0] + form, form + lits[0] + ds[0], "%%" + form, form + form, d + form):
                judge(sw, c, cls, value, fmt)
        # a directive repeated any number of times
        for d in ds:
            for times in (2, 3, 5, 8):
                judge(sw, c, cls, value, lits[0].join([d] * times))
    return sw


def run(tier: str, drv_ok: bool) -> dict:
    res = {"sweep": sweep(tier), "exhaustive": True}
    if drv_ok:
        r = rng("C12corr")
        n = 60 if tier == "quick" else 600
        from framework import Cases
        cs = Cases("C12")
        for name in ("serial", "datetime", "naming", "version", "storage"):
            sub = getattr(corr_fmt, name + "_cases")(r, n)
            cs.lines += sub.lines; cs.exp += sub.exp; cs.desc += sub.desc; cs.ops.update(sub.ops); cs.kinds.update(sub.kinds)
        # the tokeniser itself: every short format string, text level
        from common import esc
        atoms = ["%n", "%c", "%Q", "%%", "%", "x", "-", "%-n"]
        for k in range(1, 5):
            for combo in (itertools.product(atoms, repeat=k) if k < 4 else r.sample(list(itertools.product(atoms, repeat=4)), 600)):
                fmt = "".join(combo)
                cs.add("serial.gen_format", [fmt, "", ""], lambda fmt=fmt: "ok:" + esc(Serial.gen_format(fmt)))
                cs.add("serial.format", ["1234", fmt], lambda fmt=fmt: "ok:" + esc(Serial.from_value(1234).format(fmt)))
        res["corr_diffs"] = cs.run()
        res["corr_stats"] = cs.stats()
        res["corr_samples"] = cs.desc[:3]
    return res
