"""C08 — Naming renders every case style by its textbook definition."""
from __future__ import annotations

import itertools

from common import rng
from framework import Sweep
import corr_fmt
import spec

from fmtutil import Naming
from fmtutil.exceptions import FormatterError

RULE = ("names of 1..4 words over the alphabet {a,e,b,d,1} up to 3 letters per word (exhaustive for 1..2 words in quick, sampled beyond; more in thorough) and "
        "random names over [a-z] and [a-z0-9]; all 22 directives; all ordered pairs of directives; (name, other name) pairs for the rejection side. Expected "
        "texts from harness/spec.py:style. distinct = distinct (name, directive[s])")
TRUSTED = ["the style definitions in harness/spec.py"]
ASSUMPTIONS = ["title/camel/Pascal styles need words of >=2 letters and >=2 words to be parseable at all; vowel-less needs a consonant (the property's domain)"]

DIRS = ["%n", "%N", "%-N", "%u", "%l", "%t", "%a", "%A", "%c", "%-c", "%p", "%k", "%K", "%-K", "%f", "%F", "%s", "%S", "%-S", "%T", "%v", "%V"]
TITLE = {"%-N", "%t", "%-S", "%-K", "%T"}
CAMEL = {"%c", "%-c", "%p"}


def small_words():
    return ["".join(p) for k in (1, 2, 3) for p in itertools.product("aebd1", repeat=k)]


def letters(w: str) -> int:
    return sum(ch.isalpha() for ch in w)


def kind_of(dirs, ws) -> str:
    """the two pattern families the tests pin and that are recorded as known findings"""
    if any(d in TITLE for d in dirs) and any(w[0].isdigit() for w in ws):
        return "title-digit-initial"
    if any(d in ("%v", "%V") for d in dirs) and any(ch.isdigit() for ch in "".join(ws)):
        return "vowelless-digit"
    return "plain"


def parse_domain(d: str, ws: list[str]) -> bool:
    """is (style, name) inside the property's domain for parsing back?"""
    if d in CAMEL:
        # a word starting with a digit leaves no boundary in camelCase / PascalCase for any parser
        return len(ws) >= 2 and all(letters(w) >= 2 for w in ws) and not any(w[0].isdigit() for w in ws)
    if d in TITLE:
        return len(ws) >= 2 and all(letters(w) >= 2 for w in ws)
    if d in ("%v", "%V"):
        return any(ch.isalpha() and ch not in "aeiou" for ch in "".join(ws))
    return True


def judge_name(sw: Sweep, ws: list[str], pair_dirs, r):
    name = " ".join(ws)
    obj = Naming.from_value(ws)
    for d in DIRS:
        want = spec.style(d, ws)
        sw.note(["render", name, d], "render")
        got = obj.format(d)
        sw.check(got == want, "rendering differs from the textbook form of the style", {"name": name, "directive": d, "clause": "render"}, want, got)
    for d in spec.FULL_NAME_STYLES:
        if not parse_domain(d, ws):
            continue
        text = spec.style(d, ws)
        sw.note(["parse", name, d], "parse-full")
        try:
            o = Naming.parse(text, d)
            sw.check(o.value == ws, "parsing the textbook form does not recover the words", {"name": name, "directive": d, "clause": "parse-full", "kind": kind_of([d], ws)}, ws, o.value)
        except Exception as e:  # noqa: BLE001
            sw.check(False, "the textbook form of a full-name style is rejected", {"name": name, "directive": d, "clause": "parse-full", "kind": kind_of([d], ws)}, ws, f"{type(e).__name__}: {e}")
    for d1, d2 in pair_dirs:
        if not (parse_domain(d1, ws) and parse_domain(d2, ws)):
            continue
        text = spec.style(d1, ws) + "/" + spec.style(d2, ws)
        fmt = d1 + "/" + d2
        sw.note(["pair", name, d1, d2], "pair")
        for strict in (False, True):
            try:
                o = Naming.parse(text, fmt, strict=strict)
                if d1 in spec.FULL_NAME_STYLES or d2 in spec.FULL_NAME_STYLES:
                    sw.check(o.value == ws, "a consistent combination does not yield the name", {"name": name, "directive": fmt, "strict": strict, "clause": "consistent", "kind": kind_of([d1, d2], ws)}, ws, o.value)
            except Exception as e:  # noqa: BLE001
                sw.check(False, "mutually consistent renderings of one name are rejected", {"name": name, "directive": fmt, "strict": strict, "clause": "consistent", "kind": kind_of([d1, d2], ws)}, "accepted", f"{type(e).__name__}: {e}")


def sweep(tier: str) -> Sweep:
    r = rng("C08")
    sw = Sweep("C08")
    W = small_words()
    names = [[w] for w in W] + [[a, b] for a in W[:30] for b in W[:30]]
    if tier == "quick":
        names = r.sample(names, 260)
    names += [[r.choice(W) for _ in range(r.randint(3, 4))] for _ in range(60 if tier == "quick" else 2000)]
    names += [corr_fmt.rand_name(r) for _ in range(80 if tier == "quick" else 2000)]
    names += [["data", "engineer"], ["a"], ["dd", "dd"], ["ab", "ab", "ab"], ["bcd", "xyz"], ["io", "aeiou", "b"]]
    allpairs = list(itertools.product(DIRS, DIRS))
    for ws in names:
        judge_name(sw, ws, allpairs if tier == "thorough" else r.sample(allpairs, 24), r)
    # rejection: a full-name style of one name with an abbreviation of a different name
    for _ in range(400 if tier == "quick" else 6000):
        ws, other = r.choice(names), r.choice(names)
        full = r.choice([d for d in spec.FULL_NAME_STYLES if parse_domain(d, ws)] or ["%n"])
        ab = r.choice(spec.ABBREV_STYLES)
        if not parse_domain(ab, other):
            continue
        a_own, a_other = spec.style(ab, ws), spec.style(ab, other)
        if a_own == a_other:
            continue
        text = spec.style(full, ws) + "/" + a_other
        fmt = full + "/" + ab
        sw.note(["reject", " ".join(ws), " ".join(other), fmt], "reject")
        for strict in (False, True):
            try:
                o = Naming.parse(text, fmt, strict=strict)
                sw.check(False, "an abbreviation of a different name is accepted next to a full name", {"name": " ".join(ws), "other": " ".join(other), "directive": fmt, "strict": strict, "clause": "reject"}, "rejected", o.value)
            except FormatterError:
                pass
            except Exception as e:  # noqa: BLE001
                sw.check(False, "rejection with a foreign exception", {"name": " ".join(ws), "other": " ".join(other), "directive": fmt, "clause": "reject"}, "FormatterError", type(e).__name__)
    return sw


def run(tier: str, drv_ok: bool) -> dict:
    res = {"sweep": sweep(tier)}
    if drv_ok:
        cs = corr_fmt.naming_cases(rng("C08corr"), 200 if tier == "quick" else 2500)
        res["corr_diffs"] = cs.run()
        res["corr_stats"] = cs.stats()
        res["corr_samples"] = cs.desc[:3]
    return res
