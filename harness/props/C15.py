"""C15 — constants are frozen: one text per directive, immune to later mutation."""
from __future__ import annotations

import itertools

from common import esc, rng
from framework import Cases, Sweep
import corr_fmt
import gen_fmt

from fmtutil import make_const, make_group
from fmtutil.exceptions import FormatterError
from fmtutil.formatter import Constant, dict2const

RULE = ("(a) to_const: for each of the five formatters, values x of the C01 domains, every directive d whose rendering is a text: the class accepts the rendering of "
        "x under d, renders every directive as x does, and rejects the rendering of other values y. (b) mappings over directive spellings and texts (metacharacter-free, and texts with "
        "regex metacharacters since the escape repair): exactly the frozen text per directive. (c) call histories of up to 14 operations - create mappings, create classes "
        "(dict2const / make_const), ask for values() / formatter() / regex() dictionaries, set / delete keys of any dictionary held, interleaved with parse / render observations "
        "that are judged against the snapshot of the mapping at class creation. (d) groups: every subset of members frozen by to_const. distinct = distinct observations")
TRUSTED = ["the snapshot oracle: a class accepts text t under directive d iff t is the text its mapping had for d when the class was created"]
ASSUMPTIONS = ["rejection is judged on single-directive formats (a multi-directive format may tokenise an accepted string in several ways)"]

PLAIN_TEXTS = ["dev", "development", "sit", "prod", "data engineer", "DE", "v1", "2023", "a-b", "x_y", "normal", "7", "abc", "xyz", "q"]
META_TEXTS = ["a.b", "+abc.1", "x|y", "(q)", "1.0*", "a\\b", "[z]", "100%", "$x^"]


def outcome_text(fn):
    try:
        return "ok:" + esc(fn())
    except FormatterError as e:
        return "err:" + type(e).__name__
    except Exception as e:  # noqa: BLE001
        return "foreign:" + type(e).__name__


# ------------------------------------------------------------------------------------------------ histories

def gen_history(r, n):
    """a list of abstract operations; ids follow the model's allocation (every dictionary gets the next id).
    The contents of every dictionary are simulated so that classes are only made from non-empty text mappings
    and mutations mostly hit keys that exist."""
    ops = []
    content = {}  # id -> simulated dict (text mappings and handed-out copies); None for a class's private copy
    kind = {}
    classes = []  # snapshot per class
    texts = PLAIN_TEXTS + (META_TEXTS if r.random() < 0.3 else [])
    pool = corr_fmt.ALL_DIRECTIVE_SPELLINGS[:60]
    nid = 0
    for _ in range(n):
        held = [i for i in content if content[i] is not None]
        sources = [i for i in held if kind[i] in ("map", "values") and content[i]]
        kinds = ["N"]
        if sources:
            kinds += ["C", "C"]
        if held:
            kinds += ["S", "S", "D"]
        if classes:
            kinds += ["V", "X", "P", "P", "R", "R"]
        k = r.choice(kinds)
        if k == "N":
            ks = r.sample(pool, r.randint(1, 3))
            m = {d: r.choice(texts) for d in ks}
            ops.append(("N", m))
            content[nid] = dict(m); kind[nid] = "map"; nid += 1
        elif k == "C":
            src = r.choice(sources)
            ops.append(("C", src, r.choice(["EnvConst", "NameConst", "X"]), None))
            classes.append(dict(content[src]))
            content[nid] = None; kind[nid] = "private"; nid += 1
        elif k in ("V", "X"):
            c = r.randrange(len(classes))
            ops.append((k, c))
            content[nid] = dict(classes[c]); kind[nid] = "values" if k == "V" else "regex"; nid += 1
        elif k == "S":
            h = r.choice(held) if r.random() < 0.95 else r.randrange(nid + 1)
            d = r.choice(list(content[h])) if content.get(h) and r.random() < 0.8 else r.choice(pool)
            v = r.choice(texts)
            ops.append(("S", h, d, v))
            if content.get(h) is not None:
                content[h][d] = v
        elif k == "D":
            h = r.choice(held)
            d = r.choice(list(content[h])) if content.get(h) and r.random() < 0.8 else r.choice(pool)
            ops.append(("D", h, d))
            content[h].pop(d, None)
        else:
            ops.append((k, r.randrange(len(classes))))  # observation, completed at execution time (needs the snapshot)
    return ops


class World:
    """executes a history on the real code and keeps, per class, the snapshot of its mapping at creation"""

    def __init__(self):
        self.store = []     # every dictionary, by id (None for a class's private copy)
        self.kind = []      # 'map' | 'private' | 'values' | 'regex'
        self.classes = []   # (class, snapshot)

    def run(self, ops, r, sw=None):
        lines, obs = [], []
        for op in ops:
            k = op[0]
            if k == "N":
                self.store.append(dict(op[1])); self.kind.append("map")
                lines.append("N," + ";".join(f"{esc(a)}={esc(b)}" for a, b in op[1].items()))
            elif k == "C":
                src = self.store[op[1]]
                if not src:
                    break  # only possible when the code under test shares dictionaries: stop here, the prefix is still judged
                if any(isinstance(v, dict) for v in src.values()):
                    # a formatter() mapping (directive -> {"regex", "value"}) handed out earlier: a class is made from its texts
                    src = {k: (v["value"] if isinstance(v, dict) else v) for k, v in src.items()}
                snap = dict(src)
                C = dict2const(src, op[2]) if len(self.classes) % 2 == 0 else make_const(name=op[2], formatter=src)
                self.classes.append((C, snap))
                self.store.append(None); self.kind.append("private")
                lines.append(f"C,{op[1]},{esc(op[2])},~")
            elif k in ("V", "X"):
                C, snap = self.classes[op[1]]
                try:
                    if k == "X":
                        d = C.regex()
                    else:
                        d0 = next(iter(snap))
                        inst = C.parse(snap[d0], d0)
                        which = len(self.store) % 3
                        d = inst.values() if which == 0 else ({a: b["value"] for a, b in C.formatter().items()} if which == 1 else C.formatter())
                except Exception as e:  # noqa: BLE001 - by the property the class still accepts its frozen text here
                    if sw is not None:
                        sw.check(False, "a constant class is not frozen: after this history it no longer accepts its own frozen text (asking for values()/regex() fails)",
                                 {"clause": "history", "history": [l for l in lines if l], "snapshot": snap}, "a dictionary", f"{type(e).__name__}: {e}")
                    break
                self.kind.append("regex" if k == "X" else "values")
                self.store.append(d)
                lines.append(f"{k},{op[1]}")
            elif k == "S":
                h = op[1]
                if h < len(self.store) and self.store[h] is not None:
                    cur = self.store[h].get(op[2])
                    if isinstance(cur, dict):
                        # a formatter() mapping: edit the nested dictionary the caller was handed
                        cur["value"] = op[3]
                        cur["regex"] = "(?P<x>" + op[3] + ")"
                    else:
                        self.store[h][op[2]] = op[3]
                lines.append(f"S,{h},{esc(op[2])},{esc(op[3])}")
            elif k == "D":
                h = op[1]
                if h < len(self.store) and self.store[h] is not None:
                    self.store[h].pop(op[2], None)
                lines.append(f"D,{h},{esc(op[2])}")
            else:
                C, snap = self.classes[op[1]]
                d = r.choice(list(snap))
                good = r.random() < 0.6
                text = snap[d] if good else r.choice(PLAIN_TEXTS + META_TEXTS + [snap[d] + "x", "x" + snap[d], snap[d].upper()])
                d2 = r.choice(list(snap))
                if k == "P":
                    strict = r.random() < 0.5
                    got = outcome_text(lambda: C.parse(text, d, strict=strict).string)
                    lines.append(f"P,{op[1]},{esc(text)},{esc(d)},{'1' if strict else '0'}")
                    want = ("ok:" + esc(snap[d])) if text == snap[d] else "err:FormatterValueError"
                else:
                    got = outcome_text(lambda: C.parse(text, d).format(d2))
                    lines.append(f"R,{op[1]},{esc(text)},{esc(d)},{esc(d2)}")
                    want = ("ok:" + esc(snap[d2])) if text == snap[d] else "err:FormatterValueError"
                obs.append(got)
                if sw is not None:
                    hist = [l for l in lines if l]
                    sw.note(["hist", hist[-8:]], "observe-" + ("accept" if text == snap[d] else "reject"))
                    sw.check(got == want, "a constant class is not frozen: after this history it accepts / renders something else than the mapping it was created from",
                             {"clause": "history", "history": hist, "snapshot": snap, "directive": d, "text": text}, want, got)
        return [l for l in lines if l], obs


def history_cases(r, n, length) -> Cases:
    cs = Cases("consthist")
    for _ in range(n):
        ops = gen_history(r, length)
        w = World()
        r2 = rng(f"C15h{r.random()}")
        state = r2.getstate()
        lines, _ = w.run(ops, r2)
        def again(ops=ops, state=state):
            rr = rng("x"); rr.setstate(state)
            return "|".join(World().run(ops, rr)[1])
        cs.add("const.history", ["|".join(lines)], again, ["const.history", lines])
    return cs


# ------------------------------------------------------------------------------------------------ sweeps

def sweep_histories(sw, r, tier):
    n = 800 if tier == "quick" else 8000
    for _ in range(n):
        ops = gen_history(r, r.randint(4, 14))
        World().run(ops, r, sw)


def directives(c):
    return list(gen_fmt.CLASSES[c].formatter())


def sweep_to_const(sw, r, tier):
    n = 30 if tier == "quick" else 200
    for c in gen_fmt.CLASSES:
        for _ in range(n):
            x, y = gen_fmt.value_of(c, r), gen_fmt.value_of(c, r)
            try:
                ox, oy = gen_fmt.make_obj(c, x), gen_fmt.make_obj(c, y)
            except Exception:  # noqa: BLE001
                continue
            vals = ox.values()
            if any(not isinstance(v, str) for v in vals.values()):
                # a rendering that is not a text (Version %l without a local label): outside this property (C20's finding)
                sw.note(["toconst-nontext", c], "nontext-skipped")
                continue
            C = ox.to_const()
            case0 = {"cls": c, "x": gen_fmt.value_repr(c, x) if c != "version" else x}
            for d in directives(c):
                want = vals[d]
                sw.note(["toconst", c, case0["x"], d], "toconst-" + c)
                got = outcome_text(lambda: C.parse(want, d).format(d))
                sw.check(got == "ok:" + esc(want), "the frozen class rejects (or re-renders differently) the rendering of its own instance", {**case0, "clause": "toconst-accept", "directive": d, "text": want}, want, got)
                d2 = r.choice(directives(c))
                got = outcome_text(lambda: C.parse(want, d).format(d2))
                sw.check(got == "ok:" + esc(vals[d2]), "the frozen class renders a directive differently from the instance", {**case0, "clause": "toconst-render", "directive": d, "d2": d2, "text": want}, vals[d2], got)
                try:
                    other = oy.format(d)
                except Exception:  # noqa: BLE001
                    continue
                if other != want:
                    got = outcome_text(lambda: C.parse(other, d).string)
                    sw.check(got.startswith("err:"), "the frozen class accepts the rendering of a different value", {**case0, "clause": "toconst-reject", "directive": d, "text": other}, "FormatterError", got)
            # the instance's own later use does not change the class
            snap_regex = C.regex()
            ox.values()["%zz"] = "q"
            sw.check(C.regex() == snap_regex, "mutating values() of the instance reaches the class", {**case0, "clause": "toconst-frozen"}, None, None)


def sweep_make_const(sw, r, tier):
    """make_const(fmt=Class, value=v): frozen to the renderings of v under every directive of the class"""
    from fmtutil import Version, Serial, Storage, Naming
    cases = [(Version, s, f) for s, f in (("2!1.2.3rc1.post4.dev5+abc.1", "%e%m.%n.%c%q.%p.%d%l"), ("1!0.9.10b2+x", "%e%m.%n.%c%q%l"), ("3.2.1.post7+loc", "%m.%n.%c.%p%l"))]
    for cls, text, fmt in cases:
        ref = cls.parse(text, fmt)
        vals = ref.values()
        try:
            C = make_const(fmt=cls, value=text)
        except Exception as e:  # noqa: BLE001
            sw.check(False, "make_const(fmt=…, value=…) fails", {"clause": "make-const", "cls": cls.__name__, "value": text}, None, f"{type(e).__name__}: {e}")
            continue
        for d, want in vals.items():
            if not isinstance(want, str) or want == "":
                continue
            sw.note(["make_const", cls.__name__, text, d], "make-const")
            got = outcome_text(lambda: C.parse(want, d).format(d))
            sw.check(got == "ok:" + esc(want), "a class made by make_const(fmt=…, value=…) does not accept / render the value's own rendering", {"clause": "make-const", "cls": cls.__name__, "value": text, "directive": d, "text": want}, want, got)
    for c in ("serial", "storage", "naming"):
        for _ in range(5 if tier == "quick" else 40):
            x = gen_fmt.value_of(c, r)
            cls = gen_fmt.CLASSES[c]
            try:
                vals = gen_fmt.make_obj(c, x).values()
                C = make_const(fmt=cls, value=x)
            except Exception as e:  # noqa: BLE001
                sw.check(False, "make_const(fmt=…, value=…) fails", {"clause": "make-const", "cls": c, "value": str(x)}, None, f"{type(e).__name__}: {e}")
                continue
            for d, want in vals.items():
                if not isinstance(want, str) or want == "":
                    continue
                sw.note(["make_const", c, str(x), d], "make-const")
                got = outcome_text(lambda: C.parse(want, d).format(d))
                sw.check(got == "ok:" + esc(want), "a class made by make_const(fmt=…, value=…) does not accept / render the value's own rendering", {"clause": "make-const", "cls": c, "value": str(x), "directive": d, "text": want}, want, got)


def sweep_mappings(sw, r, tier):
    n = 400 if tier == "quick" else 3000
    for _ in range(n):
        ks = r.sample(corr_fmt.ALL_DIRECTIVE_SPELLINGS, r.randint(1, 4))
        pool = PLAIN_TEXTS if r.random() < 0.7 else PLAIN_TEXTS + META_TEXTS
        m = {d: r.choice(pool) for d in ks}
        C = make_const(name="MapConst", formatter=dict(m))
        for d in ks:
            sw.note(["map", m, d], "mapping")
            got = outcome_text(lambda: C.parse(m[d], d).format(d))
            sw.check(got == "ok:" + esc(m[d]), "a constant class rejects its own text", {"clause": "map-accept", "mapping": m, "directive": d, "text": m[d]}, m[d], got)
            for t in r.sample(PLAIN_TEXTS + META_TEXTS + [m[d] + "\n", m[d][:-1], m[d] + m[d]], 4):
                if t == m[d]:
                    continue
                got = outcome_text(lambda: C.parse(t, d).string)
                sw.check(got.startswith("err:"), "a constant class accepts a text that is not its frozen text", {"clause": "map-reject", "mapping": m, "directive": d, "text": t}, "FormatterError", got)


def sweep_groups(sw, r, tier):
    n = 80 if tier == "quick" else 600
    for _ in range(n):
        decl = corr_fmt.group_decl(r, r.randint(2, 3))
        G = make_group({nm: corr_fmt.KINDS[k] for nm, k in decl})
        try:
            vals = {nm: gen_fmt.value_of(k, r) for nm, k in decl}
            objs = {nm: gen_fmt.make_obj(k, vals[nm]) for nm, k in decl}
            others = {nm: gen_fmt.make_obj(k, gen_fmt.value_of(k, r)) for nm, k in decl}
        except Exception:  # noqa: BLE001
            continue
        if any(not isinstance(v, str) for o in objs.values() for v in o.values().values()):
            continue
        mfmt = {nm: corr_fmt.KINDS[k].base_fmt for nm, k in decl}
        if r.random() < 0.4:
            # a group in which one member was never stated (it keeps its default): freezing it must freeze the default
            cands = [nm for nm, k in decl if k != "naming"]   # a default Naming is the empty name, outside the C01 domain
            if not cands:
                continue
            omit = r.choice(cands)
            pfmt = " / ".join("{" + nm + ":" + mfmt[nm] + "}" for nm, _ in decl if nm != omit)
            try:
                g = G.parse(G(objs).format(pfmt), pfmt)
                objs = dict(g.groups)
            except Exception:  # noqa: BLE001
                continue
            if any(not isinstance(v, str) for o in objs.values() for v in o.values().values()):
                continue
        else:
            g = G(objs)
        fmt = " / ".join("{" + nm + ":" + mfmt[nm] + "}" for nm, _ in decl)
        for kk in range(1, len(decl) + 1):
            for inc in itertools.combinations([nm for nm, _ in decl], kk):
                G2 = g.to_const(list(inc))
                case0 = {"clause": "group", "decl": [f"{a}:{b}" for a, b in decl], "frozen": list(inc)}
                sw.note(["group", case0["decl"], list(inc)], "group-subset")
                text = g.format(fmt)
                got = outcome_text(lambda: G2.parse(text, fmt).format(fmt))
                sw.check(got == "ok:" + esc(text), "the partly frozen group does not read back what the group printed", {**case0, "text": text}, text, got)
                for nm, _ in decl:
                    mixed = {**objs, nm: others[nm]}
                    t2 = G(mixed).format(fmt)
                    if t2 == text:
                        continue
                    got = outcome_text(lambda: G2.parse(t2, fmt).format(fmt))
                    if nm in inc:
                        sw.check(got.startswith("err:"), "a frozen member accepts another value", {**case0, "member": nm, "text": t2}, "FormatterError", got)
                    else:
                        sw.check(got == "ok:" + esc(t2), "a member that was not frozen no longer parses as before", {**case0, "member": nm, "text": t2}, t2, got)


def sweep(tier: str) -> Sweep:
    r = rng("C15")
    sw = Sweep("C15")
    sweep_histories(sw, r, tier)
    sweep_to_const(sw, r, tier)
    sweep_make_const(sw, r, tier)
    sweep_mappings(sw, r, tier)
    sweep_groups(sw, r, tier)
    # texts with blanks at their edges are texts like any other: frozen as written, accepted as written, nothing else
    for maker in ("make_const", "dict2const"):
        m = {"%s": " to ", "%n": "dev ", "%x": "  ", "%-d": " a b", "%p": "plain"}
        try:
            C = make_const(name="EdgeConst", formatter=dict(m)) if maker == "make_const" else dict2const(dict(m), "EdgeConst")
        except Exception as e:  # noqa: BLE001
            sw.check(False, "a constant class cannot be made from a mapping", {"clause": "map-edge", "mapping": m, "maker": maker}, None, f"{type(e).__name__}: {e}")
            continue
        for d, text in m.items():
            case = {"clause": "map-edge", "mapping": m, "maker": maker, "directive": d, "text": text}
            sw.note(["map-edge", maker, d], "mapping-edge")
            try:
                got = C.parse(text, d).format(d)
                sw.check(got == text, "a constant class does not render the text it was made from", case, text, got)
            except Exception as e:  # noqa: BLE001
                sw.check(False, "a constant class rejects its own text", case, text, f"err:{type(e).__name__}")
            for other in {text.strip(), text + " ", " " + text} - {text}:
                try:
                    C.parse(other, d)
                    sw.check(False, "a constant class accepts a text that is not its frozen text", {**case, "other": other}, "rejected", "accepted")
                except FormatterError:
                    pass
                except Exception as e:  # noqa: BLE001
                    sw.check(False, "a foreign exception", {**case, "other": other}, "FormatterError", type(e).__name__)
    return sw


def toconst_cases(r, n) -> Cases:
    from gen_ver import wire
    from fmtutil import VerPackage
    cs = Cases("toconst")
    enc = {"serial": str, "datetime": corr_fmt.dt_arg, "naming": corr_fmt.words_arg, "storage": str, "version": lambda v: wire(VerPackage.parse(v))}
    for c in gen_fmt.CLASSES:
        for _ in range(n):
            x = gen_fmt.value_of(c, r)
            if c == "version" and "!" in x:
                continue  # from_value goes through the base format, which has no epoch directive
            try:
                ox = gen_fmt.make_obj(c, x)
            except Exception:  # noqa: BLE001
                continue
            if any(not isinstance(v, str) for v in ox.values().values()):
                continue  # a rendering that is not a text (Version %l without a local label): C20's known finding, not this property
            ds = directives(c)
            d, d2 = r.choice(ds), r.choice(ds)
            try:
                good = ox.format(d)
            except Exception:  # noqa: BLE001
                good = "?"
            for text in (good, corr_fmt.mutate(r, good, "0123456789ab _-")):
                cs.add("toconst", [c, enc[c](x), text, d, d2],
                       lambda c=c, x=x, text=text, d=d, d2=d2: "ok:" + esc(gen_fmt.make_obj(c, x).to_const().parse(text, d).format(d2)))
    return cs


def run(tier: str, drv_ok: bool) -> dict:
    res = {"sweep": sweep(tier)}
    if drv_ok:
        r = rng("C15corr")
        cs = corr_fmt.const_cases(r, 60 if tier == "quick" else 600)
        hc = history_cases(r, 300 if tier == "quick" else 3000, 12)
        tc = toconst_cases(r, 12 if tier == "quick" else 150)
        for x in (hc, tc):
            cs.lines += x.lines; cs.exp += x.exp; cs.desc += x.desc; cs.ops.update(x.ops); cs.kinds.update(x.kinds)
        res["corr_diffs"] = cs.run()
        res["corr_stats"] = cs.stats()
        res["corr_samples"] = cs.desc[:3]
    return res
