"""C07 — version comparison is a consistent total preorder and agrees with hashing."""
from __future__ import annotations

import itertools

from common import rng
from framework import Sweep
import corr_ver
from gen_ver import CLS, base_strings, exhaustive_pkg_small, parse_ok, pkg_strings, pkg_variant_group, sem_same_release, sem_strings

RULE = ("objects parsed from the bounded grammars of the three version classes; a case is an ordered pair/triple "
        "(class, a, b[, c]) x clause; distinct = distinct (clause, strings) tuples; trivial pairs a==a are not counted")
TRUSTED = ["order laws are theorems over all objects whose key exists; existence of the key for parsed objects is validated by the correspondence, not proved"]
ASSUMPTIONS = ["CPython tuple/str/int comparison as modelled in Py.Cmp", "hash() respects == on tuples of ints/strs/sentinels"]

OPS = {"lt": lambda a, b: a < b, "le": lambda a, b: a <= b, "eq": lambda a, b: a == b, "ne": lambda a, b: a != b, "gt": lambda a, b: a > b, "ge": lambda a, b: a >= b}


def ops(a, b):
    return {k: bool(f(a, b)) for k, f in OPS.items()}


def pools(r, n):
    ps = {
        "base": base_strings(r, n),
        "sem": sem_strings(r, n),
        "pkg": pkg_strings(r, n) + r.sample(exhaustive_pkg_small(), min(n, 400)),
    }
    return {c: [(s, o) for s in dict.fromkeys(v) if (o := parse_ok(CLS[c], s)) is not None] for c, v in ps.items()}


def sweep(tier: str) -> Sweep:
    r = rng("C07")
    sw = Sweep("C07")
    n = 60 if tier == "quick" else 400
    npairs = 2500 if tier == "quick" else 40000
    ntriples = 2500 if tier == "quick" else 40000
    P = pools(r, n)
    for c, objs in P.items():
        cls = CLS[c]
        small = objs[:28]
        pairs = list(itertools.product(small, small)) + [(r.choice(objs), r.choice(objs)) for _ in range(npairs)]
        for (sa, a), (sb, b) in pairs:
            case = {"cls": c, "a": sa, "b": sb}
            try:
                o = ops(a, b)
                m = ops(b, a)
            except Exception as e:  # noqa: BLE001
                sw.note(["ops", c, sa, sb])
                sw.check(False, "comparison raised", {**case, "clause": "no-exception"}, "a bool", f"{type(e).__name__}: {e}")
                continue
            if sa != sb:
                sw.note(["pair", c, sa, sb], "lt" if o["lt"] else "eq" if o["eq"] else "gt")
            sw.check(o["lt"] + o["eq"] + o["gt"] == 1, "not exactly one of <, ==, >", {**case, "clause": "trichotomy"}, "exactly one", o)
            sw.check(o["le"] == (o["lt"] or o["eq"]) and o["ge"] == (o["gt"] or o["eq"]) and o["ne"] == (not o["eq"]),
                     "<=, >=, != are not the derived relations", {**case, "clause": "derived"}, None, o)
            sw.check(o["lt"] == m["gt"] and o["gt"] == m["lt"] and o["eq"] == m["eq"], "a<b differs from b>a", {**case, "clause": "mirror"}, o, m)
            if o["eq"]:
                sw.check(hash(a) == hash(b), "equal versions with different hashes", {**case, "clause": "hash"}, "equal hashes", [hash(a), hash(b)])
            # spellings
            try:
                ref = a.compare(b)
                for kind, val in (("str", str(b)), ("tuple", b.to_tuple()), ("list", list(b.to_tuple())), ("dict", b.to_dict())):
                    got = a.compare(val)
                    sw.check(got == ref, f"comparing with the {kind} spelling differs", {**case, "clause": "spelling", "spelling": kind}, ref, got)
                    sw.check(bool(a == val) == o["eq"] and bool(a < val) == o["lt"], f"operator with the {kind} spelling differs",
                             {**case, "clause": "spelling-op", "spelling": kind}, o, None)
            except Exception as e:  # noqa: BLE001
                sw.check(False, "spelling comparison raised", {**case, "clause": "spelling"}, "an int", f"{type(e).__name__}: {e}")
        for _ in range(ntriples):
            (sa, a), (sb, b), (sc, x) = r.choice(objs), r.choice(objs), r.choice(objs)
            case = {"cls": c, "a": sa, "b": sb, "c": sc}
            sw.note(["triple", c, sa, sb, sc])
            try:
                if a < b and b < x:
                    sw.check(a < x, "< is not transitive", {**case, "clause": "transitive"})
                if a == b:
                    sw.check(ops(a, x) == ops(b, x), "== is not compatible with the order", {**case, "clause": "eq-compat"})
                if a == b and b == x:
                    sw.check(a == x, "== is not transitive", {**case, "clause": "eq-transitive"})
            except Exception as e:  # noqa: BLE001
                sw.check(False, "comparison raised", {**case, "clause": "no-exception"}, None, f"{type(e).__name__}: {e}")
    # release numbers of any size compare part by part (no positional weight, no digit tricks): powers of ten and of two
    for c, cls in CLS.items():
        for B in (10, 100, 1000, 10 ** 6, 2 ** 16, 2 ** 32, 10 ** 12):
            rels = [(1, 0, B), (1, 1, 0), (1, B, 0), (2, 0, 0), (0, 0, B * B), (0, B, 0), (0, 1, 0), (0, 0, B), (B, 0, 0), (1, 0, 0), (1, 0, 1), (0, B, B)]
            objs = [(r_, parse_ok(cls, "%d.%d.%d" % r_)) for r_ in rels]
            for (ra, a), (rb, b) in itertools.product(objs, repeat=2):
                if a is None or b is None:
                    continue
                case = {"cls": c, "a": "%d.%d.%d" % ra, "b": "%d.%d.%d" % rb, "clause": "release-order"}
                sw.note(["release-order", c, case["a"], case["b"]], "release-order")
                try:
                    o = ops(a, b)
                    sw.check(o["lt"] == (ra < rb) and o["eq"] == (ra == rb) and o["gt"] == (ra > rb), "release numbers are not compared part by part", case, [ra < rb, ra == rb, ra > rb], o)
                    if o["eq"]:
                        sw.check(hash(a) == hash(b), "equal versions with different hashes", {**case, "clause": "hash"}, "equal hashes", [hash(a), hash(b)])
                except Exception as e:  # noqa: BLE001
                    sw.check(False, "comparison raised", {**case, "clause": "no-exception"}, None, f"{type(e).__name__}: {e}")
    # inside one release the tags decide: every pair and every triple of a tag pool
    S = CLS["sem"]
    for rel, strs in sem_same_release().items():
        objs = [(s, o) for s in strs if (o := parse_ok(S, s)) is not None]
        n_ = len(objs)
        LT = [[None] * n_ for _ in range(n_)]
        EQ = [[None] * n_ for _ in range(n_)]
        for i, (sa, a) in enumerate(objs):
            for j, (sb, b) in enumerate(objs):
                sw.note(["same-release-pair", sa, sb], "pair")
                try:
                    o = ops(a, b)
                    LT[i][j], EQ[i][j] = o["lt"], o["eq"]
                    sw.check(o["lt"] + o["eq"] + o["gt"] == 1, "not exactly one of <, ==, >", {"cls": "sem", "a": sa, "b": sb, "clause": "trichotomy"}, None, o)
                    if o["eq"]:
                        sw.check(hash(a) == hash(b), "equal versions with different hashes", {"cls": "sem", "a": sa, "b": sb, "clause": "hash"})
                except Exception as e:  # noqa: BLE001
                    sw.check(False, "comparison raised", {"cls": "sem", "a": sa, "b": sb, "clause": "no-exception"}, None, f"{type(e).__name__}: {e}")
        # every triple of the pool, from the comparison matrix
        for i in range(n_):
            for j in range(n_):
                if LT[i][j] is None:
                    continue
                for k in range(n_):
                    if LT[j][k] is None or LT[i][k] is None:
                        continue
                    sw.evaluations += 1
                    if LT[i][j] and LT[j][k] and not LT[i][k]:
                        sw.check(False, "< is not transitive", {"cls": "sem", "a": objs[i][0], "b": objs[j][0], "c": objs[k][0], "clause": "transitive"})
                    if EQ[i][j] and (LT[i][k] != LT[j][k] or EQ[i][k] != EQ[j][k]):
                        sw.check(False, "== is not compatible with the order", {"cls": "sem", "a": objs[i][0], "b": objs[j][0], "c": objs[k][0], "clause": "eq-compat"})
    # spelling variants of one PEP 440 version are equal and hash equal
    Pk = CLS["pkg"]
    for _ in range(150 if tier == "quick" else 2500):
        grp = [(s, o) for s in pkg_variant_group(r) if (o := parse_ok(Pk, s)) is not None]
        for (sa, a), (sb, b) in itertools.combinations(grp, 2):
            case = {"cls": "pkg", "a": sa, "b": sb}
            sw.note(["variant", sa, sb], "variant")
            try:
                sw.check(a == b and not a < b and not a > b, "spelling variants of one version do not compare equal", {**case, "clause": "variants"})
                sw.check(hash(a) == hash(b), "equal versions with different hashes", {**case, "clause": "hash"}, "equal hashes", [hash(a), hash(b)])
            except Exception as e:  # noqa: BLE001
                sw.check(False, "comparison raised", {**case, "clause": "no-exception"}, None, f"{type(e).__name__}: {e}")
    # semantic versions: build ignored, pre-release below release, release numbers dominate
    S = CLS["sem"]
    every_tag = [(s_, o_) for strs in sem_same_release(("1.0.0", "0.0.0", "10.9.8")).values() for s_ in strs if (o_ := parse_ok(S, s_)) is not None]
    for s, o in dict.fromkeys(P["sem"] + every_tag):
        case = {"cls": "sem", "a": s}
        sw.note(["sem", s])
        try:
            nb = S(o.major, o.minor, o.patch, o.pre, None)
            wb = S(o.major, o.minor, o.patch, o.pre, "zz.9")
            sw.check(nb == wb and not (nb < wb) and not (nb > wb), "build metadata affects comparison", {**case, "clause": "sem-build"})
            rel = S(o.major, o.minor, o.patch)
            if o.pre:
                sw.check(o < rel, "pre-release does not sort before its release", {**case, "clause": "sem-pre"})
            up = S(o.major, o.minor, o.patch + 1, "0")
            sw.check(o < up, "release numbers do not dominate the pre-release tag", {**case, "clause": "sem-release"})
        except Exception as e:  # noqa: BLE001
            sw.check(False, "semver clause raised", {**case, "clause": "no-exception"}, None, f"{type(e).__name__}: {e}")
    return sw


def run(tier: str, drv_ok: bool) -> dict:
    res = {"sweep": sweep(tier)}
    if drv_ok:
        r = rng("C07corr")
        cs = corr_ver.build(r, 150 if tier == "quick" else 1500, which=("parse", "cmp", "misc"))
        res["corr_diffs"] = cs.run()
        res["corr_stats"] = cs.stats()
        res["corr_samples"] = cs.desc[:3]
    return res
