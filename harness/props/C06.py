"""C06 — bad input is rejected completely and only with FormatterError."""
from __future__ import annotations

import re

from common import rng
from framework import Cases, Sweep
import corr_fmt
import gen_fmt
import regex_lang

from fmtutil import Datetime, Naming, Serial, Storage, Version, dict2const, make_group
from fmtutil.exceptions import FormatterError

RULE = ("strings drawn from the pattern language of directive sequences (1..3 directives) of each formatter via CPython's own parse tree of the generated "
        "pattern - boundary-biased repetition counts so that impossible values (day 39, hour 29, minute 69, empty numbers, zero-padded versions) are frequent - "
        "plus all one-character prefix/suffix extensions (incl. newline) and single-character edits of accepted strings; the five formatters, constants and "
        "groups; strict and non-strict. distinct = distinct (formatter, format, string, strict)")
TRUSTED = ["re.fullmatch on the pattern gen_format returns is the definition of 'the entire string matches'"]
ASSUMPTIONS = ["format strings are assembled from directives and regex-inert separators (a malformed format string is not 'bad input')"]

EXT = list("0a Z-_./:\n\t%") + ["12", " x"]


def attempt(parse, text):
    try:
        o = parse(text)
        # Version and Naming compute their value lazily: the outcome of a parse includes reading it
        _ = o.value if hasattr(o, "value") else None
        _ = o.string if hasattr(o, "string") else str(o)
        return ("ok", None)
    except FormatterError as e:
        return ("reject", type(e).__name__)
    except Exception as e:  # noqa: BLE001
        return ("foreign", f"{type(e).__name__}: {e}")


def judge(sw, c, parse, pattern, fmt, text, strict, kind="plain"):
    out = attempt(parse, text)
    case = {"cls": c, "fmt": fmt, "text": text, "strict": strict, "kind": kind}
    sw.note(["c06", c, fmt, text, strict], out[0])
    sw.check(out[0] != "foreign", "a rejection that is not a FormatterError", {**case, "clause": "family"}, "FormatterError", out[1])
    if out[0] == "ok" and pattern is not None:
        whole = re.fullmatch(pattern, text) is not None
        sw.check(whole, "a string is accepted although it does not match the pattern from first to last character", {**case, "clause": "whole-string"}, pattern, "accepted")
    return out[0]


def sweep(tier: str) -> Sweep:
    r = rng("C06")
    sw = Sweep("C06")
    n = 160 if tier == "quick" else 3000
    for c, cls in gen_fmt.CLASSES.items():
        ds = list(cls.formatter().keys())
        for _ in range(n):
            toks = [r.choice(ds) for _ in range(r.randint(1, 3))]
            sep = r.choice(corr_fmt.SEPS[c])
            fmt = sep.join(toks)
            try:
                pattern = cls.gen_format(fmt)
            except Exception:  # noqa: BLE001
                continue
            texts = [regex_lang.sample(pattern, r) for _ in range(3)]
            # a rendering of a real value too, then extensions and edits of accepted strings
            try:
                v = gen_fmt.value_of(c, r)
                texts.append(gen_fmt.make_obj(c, v).format(fmt))
            except Exception:  # noqa: BLE001
                pass
            for strict in (False, True):
                parse = lambda t, cls=cls, fmt=fmt, strict=strict: cls.parse(t, fmt, strict=strict)  # noqa: E731
                for t in texts:
                    res = judge(sw, c, parse, pattern, fmt, t, strict)
                    if res == "ok":
                        for e in r.sample(EXT, 4):
                            judge(sw, c, parse, pattern, fmt, t + e, strict, "extension")
                            judge(sw, c, parse, pattern, fmt, e + t, strict, "extension")
                        judge(sw, c, parse, pattern, fmt, corr_fmt.mutate(r, t, "0123456789abAZ -_:.\n"), strict, "edit")
    # the impossible values the property names
    named = [(Datetime, "2023-02-30", "%Y-%m-%d"), (Datetime, "25", "%H"), (Datetime, "61", "%M"), (Datetime, "39", "%d"), (Datetime, "00", "%d"), (Datetime, "2023 59 1", "%Y %U %w"),
             (Datetime, "0000", "%Y"), (Datetime, "2023 000", "%Y %j"), (Serial, "", "%b"), (Serial, "", "%n"), (Storage, "", "%b"), (Storage, "B", "%B"), (Storage, "1x2", "%b"),
             (Version, "01.2.3", "%m.%n.%c"), (Version, "1.2.3rc", "%m.%n.%c%q"), (Naming, "", "%n"), (Datetime, "2023 09 Oct", "%Y %m %b"), (Datetime, "12\n", "%H"),
             (Serial, "12\n", "%n"), (Serial, "٣", "%n"), (Datetime, "٢٠٢٣", "%Y"), (Storage, "12345678901234567890123456789B", "%B"),
             # numbers in exponent notation slip through the %b pattern (its '.' matches any character): whatever happens to them, it is a FormatterError
             (Storage, "8e96093022208", "%b"), (Storage, "1024GB#1099511627776B#8e96093022208", "%G#%B#%b"), (Storage, "1KB 8e99", "%K %b"), (Storage, "8e999999999 1B", "%b %B"),
             (Storage, "1e5 1KB", "%b %K"), (Storage, "9E-99999999 1B", "%b %B"), (Storage, "1e400 1e400", "%b %b"), (Storage, "8e96093022208#1B", "%b#%B")]
    for cls, text, fmt in named:
        for strict in (False, True):
            judge(sw, cls.__name__.lower(), lambda t, cls=cls, fmt=fmt, strict=strict: cls.parse(t, fmt, strict=strict), cls.gen_format(fmt), fmt, text, strict, "named")
    # constants
    for _ in range(n // 2):
        m = corr_fmt.rand_mapping(r)
        C = dict2const(m, "C06Const")
        toks = [r.choice(list(m)) for _ in range(r.randint(1, 3))]
        sep = r.choice(list("_-/ "))
        fmt = sep.join(toks)
        good = sep.join(m[k] for k in toks)
        pattern = C.gen_format(fmt)
        for strict in (False, True):
            parse = lambda t, C=C, fmt=fmt, strict=strict: C.parse(t, fmt, strict=strict)  # noqa: E731
            for t in (good, corr_fmt.mutate(r, good, "abdev_- 1\n")):
                if judge(sw, "const", parse, pattern, fmt, t, strict) == "ok":
                    for e in r.sample(EXT, 3):
                        judge(sw, "const", parse, pattern, fmt, t + e, strict, "extension")
                        judge(sw, "const", parse, pattern, fmt, e + t, strict, "extension")
    # groups
    for _ in range(n // 2):
        decl = corr_fmt.group_decl(r, k=r.randint(1, 3))
        G = make_group({nm: corr_fmt.KINDS[k] for nm, k in decl})
        fmt, used = corr_fmt.group_fmt(r, decl)
        try:
            pattern, _ = G.gen_format(fmt)
        except Exception:  # noqa: BLE001
            continue
        texts = [regex_lang.sample(pattern, r) for _ in range(2)]
        try:
            vals = {nm: corr_fmt.rand_member_value(r, k) for nm, k in decl}
            texts.append(G.from_value(vals).format(fmt))
        except Exception:  # noqa: BLE001
            pass
        parse = lambda t, G=G, fmt=fmt: G.parse(t, fmt)  # noqa: E731
        for t in texts:
            if judge(sw, "group", parse, pattern, fmt, t, False) == "ok":
                for e in r.sample(EXT, 3):
                    judge(sw, "group", parse, pattern, fmt, t + e, False, "extension")
                    judge(sw, "group", parse, pattern, fmt, e + t, False, "extension")
    return sw


def run(tier: str, drv_ok: bool) -> dict:
    res = {"sweep": sweep(tier)}
    if drv_ok:
        r = rng("C06corr")
        n = 60 if tier == "quick" else 700
        cs = Cases("C06")
        for name in ("serial", "datetime", "naming", "version", "storage", "const", "group"):
            sub = getattr(corr_fmt, name + "_cases")(r, n)
            cs.lines += sub.lines; cs.exp += sub.exp; cs.desc += sub.desc; cs.ops.update(sub.ops); cs.kinds.update(sub.kinds)
        # strings from the pattern languages, model vs implementation (error kinds included)
        for c, cls in gen_fmt.CLASSES.items():
            ds = list(cls.formatter().keys())
            for _ in range(n):
                toks = [r.choice(ds) for _ in range(r.randint(1, 2))]
                fmt = r.choice(corr_fmt.SEPS[c]).join(toks)
                try:
                    t = regex_lang.sample(cls.gen_format(fmt), r)
                except Exception:  # noqa: BLE001
                    continue
                if any(ord(ch) > 127 for ch in t):
                    continue
                strict = r.random() < 0.5
                cs.add(f"{c}.parse", [t, corr_fmt.wopt(fmt), "1" if strict else "0"], corr_fmt.parse_outcome(c, cls, t, fmt, strict))
        res["corr_diffs"] = cs.run()
        res["corr_stats"] = cs.stats()
        res["corr_samples"] = cs.desc[:3]
    return res
