"""C09 — Serial and Storage are exact on integers of any size."""
from __future__ import annotations

from fractions import Fraction

from common import rng
from framework import Cases, Sweep
import corr_fmt
import spec

from fmtutil import Serial, Storage

RULE = ("integers 0..10^4 (thorough) / a stride of them plus all of 0..1100 (quick), powers of 2 and 10 with neighbours up to 10^30, random 1..30-digit "
        "integers; padding widths 1..8 and binary widths 1..16 through Config subclasses; Storage counts N in each of nine units while N*8*1024^k < 10^27. "
        "Expected texts from Python integer formatting and exact rational arithmetic. distinct = distinct (class, config, value, directive)")
TRUSTED = ["Python int formatting and fractions.Fraction as the exact oracle"]
ASSUMPTIONS = ["decimal context is the default one (precision 28, ROUND_HALF_EVEN)"]


def serial_cls(w, b):
    if (w, b) == (3, 8):
        return Serial

    class S(Serial):
        class Config(Serial.Config):
            serial_max_padding = w
            serial_max_binary = b

    S.__name__ = f"Serial_{w}_{b}"
    return S


def numbers(r, tier):
    ns = set(range(0, 1101)) | set(range(0, 10001, 7 if tier == "quick" else 1))
    for e in range(1, 100):
        for d in (-1, 0, 1):
            ns.add(max(0, 2 ** e + d))
    for e in range(1, 31):
        for d in (-1, 0, 1):
            ns.add(10 ** e + d)
    for _ in range(300 if tier == "quick" else 5000):
        ns.add(r.randrange(10 ** r.randint(1, 30)))
    return sorted(ns)


def sweep(tier: str) -> Sweep:
    r = rng("C09")
    sw = Sweep("C09")
    ns = numbers(r, tier)
    configs = [(3, 8)] + ([(1, 1), (5, 12), (8, 16), (2, 4)] if tier == "quick" else [(w, b) for w in range(1, 9) for b in (1, 2, 4, 8, 12, 16)])
    for (w, b) in configs:
        S = serial_cls(w, b)
        sub = ns if (w, b) == (3, 8) else r.sample(ns, min(len(ns), 250))
        for n in sub:
            case = {"cls": "Serial", "config": [w, b], "n": str(n)}
            sw.note(["serial", w, b, n], "serial")
            try:
                o = S.from_value(n)
                sw.check(o.value == n, "from_value(n) does not have value n", {**case, "clause": "from_value"}, n, o.value)
                exp = {"%n": str(n), "%b": format(n, f"0{b}b"), "%c": format(n, ","), "%u": format(n, "_")}
                exp["%p"] = str(n).rjust(w, "0")
                for d, want in exp.items():
                    got = o.format(d)
                    sw.check(got == want, "rendering is not exact", {**case, "clause": "render", "directive": d}, want, got)
                    if d == "%p" and n >= 10 ** w:
                        continue   # the zero-padded field reads exactly w digits: a wider rendering is exact but cannot be read back through %p
                    back = S.parse(want, d)
                    sw.check(back.value == n, "parsing a spelling of n does not yield n", {**case, "clause": "parse", "directive": d}, n, back.value)
                # extra leading zeros where the pattern allows them
                for d, text in (("%n", "00" + str(n)), ("%b", "000" + format(n, "b"))):
                    back = S.parse(text, d)
                    sw.check(back.value == n, "leading zeros change the value", {**case, "clause": "parse-zeros", "directive": d}, n, back.value)
            except Exception as e:  # noqa: BLE001
                sw.check(False, "Serial raised", {**case, "clause": "no-exception"}, None, f"{type(e).__name__}: {e}")
    # Storage
    counts = sorted(set(list(range(0, 1030)) + [2 ** e + d for e in range(1, 60) for d in (-1, 0, 1)] + [10 ** e + d for e in range(1, 27) for d in (-1, 0, 1)]
                        + [r.randrange(10 ** r.randint(1, 26)) for _ in range(200 if tier == "quick" else 4000)]))
    dirs = ["%B", "%K", "%M", "%G", "%T", "%P", "%E", "%Z", "%Y"]
    for k, (d, unit) in enumerate(zip(dirs, spec.UNITS)):
        f = spec.unit_factor(k)
        sub = counts if tier == "thorough" else r.sample(counts, 260)
        for N in sub:
            bits = N * f
            if bits >= 10 ** 27:
                continue
            case = {"cls": "Storage", "unit": unit, "N": str(N)}
            sw.note(["storage", unit, N], "storage-unit")
            try:
                o = Storage.parse(f"{N}{unit}", d)
                sw.check(o.value == bits, "parsing N<unit> does not yield N*8*1024^k bits", {**case, "clause": "parse-unit"}, bits, str(o.value))
                sw.check(o.format(d) == f"{N}{unit}", "N<unit> does not render back as N<unit>", {**case, "clause": "render-unit"}, f"{N}{unit}", o.format(d))
                # bits and bytes stated together must agree
                ok = Storage.parse(f"{bits} {N}{unit}", f"%b {d}")
                sw.check(ok.value == bits, "agreeing bit and byte statements give another value", {**case, "clause": "agree"}, bits, str(ok.value))
                try:
                    Storage.parse(f"{bits + 8} {N}{unit}", f"%b {d}")
                    sw.check(False, "disagreeing bit and byte statements are accepted", {**case, "clause": "disagree"})
                except Exception as e:  # noqa: BLE001
                    sw.check(type(e).__name__ == "FormatterValueError", "disagreement not signalled by FormatterValueError", {**case, "clause": "disagree"}, None, type(e).__name__)
            except Exception as e:  # noqa: BLE001
                sw.check(False, "Storage raised", {**case, "clause": "no-exception"}, None, f"{type(e).__name__}: {e}")
    # rendering in a unit = bits / factor rounded half-even (near ties and unit boundaries)
    vals = []
    for k in range(9):
        f = spec.unit_factor(k)
        for q in (0, 1, 2, 3, 10, 999, r.randrange(1, 10 ** 6)):
            for delta in (0, 1, -1, f // 2, f // 2 + 1, f // 2 - 1):
                v = q * f + delta
                if 0 <= v < 10 ** 27:
                    vals.append(v)
    vals += [r.randrange(10 ** r.randint(1, 27)) for _ in range(300 if tier == "quick" else 5000)]
    for v in sorted(set(vals)):
        o = None
        try:
            o = Storage.from_value(v)
        except Exception as e:  # noqa: BLE001
            sw.check(False, "Storage.from_value raised", {"cls": "Storage", "bits": str(v), "clause": "no-exception"}, None, f"{type(e).__name__}: {e}")
            continue
        for k, (d, unit) in enumerate(zip(dirs, spec.UNITS)):
            want = f"{spec.half_even(Fraction(v, spec.unit_factor(k)))}{unit}"
            sw.note(["render", v, unit], "storage-render")
            got = o.format(d)
            sw.check(got == want, "rendering in a unit is not bits/factor rounded half-even", {"cls": "Storage", "bits": str(v), "unit": unit, "clause": "render-round"}, want, got)
    return sw


def run(tier: str, drv_ok: bool) -> dict:
    res = {"sweep": sweep(tier)}
    if drv_ok:
        r = rng("C09corr")
        n = 150 if tier == "quick" else 1500
        cs = corr_fmt.serial_cases(r, n)
        sub = corr_fmt.storage_cases(r, n)
        cs.lines += sub.lines; cs.exp += sub.exp; cs.desc += sub.desc; cs.ops.update(sub.ops); cs.kinds.update(sub.kinds)
        res["corr_diffs"] = cs.run()
        res["corr_stats"] = cs.stats()
        res["corr_samples"] = cs.desc[:3]
    return res
