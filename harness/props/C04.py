"""C04 — packaging versions are ordered as PEP 440 orders them (reference: vendored packaging.version)."""
from __future__ import annotations

import itertools
import os
import re
import sys

from common import VERIF, rng
from framework import Sweep
import corr_ver
from gen_ver import CLS, exhaustive_pkg_small, mutate, pkg_strings

sys.path.insert(0, os.path.join(VERIF, "vendor"))
from packaging_version.version import InvalidVersion, Version as Ref  # noqa: E402

RULE = ("strings of the bounded PEP 440 grammar (exhaustive for small bounds: epoch x release x pre x post x dev spellings; sampled with locals) plus "
        "single-character edits; acceptance compared with the vendored reference inside the documented shape; all ordered pairs of a sample compared "
        "by sign. distinct = distinct strings / distinct ordered pairs")
TRUSTED = ["vendored packaging 26.3 version.py is the PEP 440 reference", "segment reading and key order are proved; splitting of a whole string by the pattern is validated here"]
ASSUMPTIONS = ["documented shape = lower case, no surrounding whitespace, at most three release numbers without leading zeros"]

P = CLS["pkg"]
REL = re.compile(r"^v?(?:\d+!)?(\d+(?:\.\d+)*)")


def ref_parse(s):
    try:
        return Ref(s)
    except InvalidVersion:
        return None


def fm_parse(s):
    try:
        return P.parse(s)
    except ValueError:
        return None


def in_shape(s: str) -> bool:
    if s != s.lower() or s != s.strip() or any(ch.isspace() for ch in s):
        return False
    if not s.isascii():
        return False
    m = REL.match(s)
    if not m:
        return False
    nums = m.group(1).split(".")
    return len(nums) <= 3 and all(n == str(int(n)) for n in nums)


def sign(x):
    return (x > 0) - (x < 0)


def sweep(tier: str) -> Sweep:
    r = rng("C04")
    sw = Sweep("C04")
    full = exhaustive_pkg_small()
    grammar = pkg_strings(r, 300 if tier == "quick" else 3000)
    pool = list(dict.fromkeys(grammar + (r.sample(full, 1500) if tier == "quick" else full)))
    # acceptance
    for s in pool + [mutate(r, s) for s in pool[: (800 if tier == "quick" else 8000)]]:
        ref = ref_parse(s)
        got = fm_parse(s)
        case = {"s": s, "clause": "acceptance"}
        sw.note(["accept", s], "accepted" if got is not None else "rejected")
        if ref is None:
            sw.check(got is None, "accepts a string the reference rejects", case, "rejected", str(got))
        elif in_shape(s):
            sw.check(got is not None, "rejects a string the reference accepts", case, f"accepted as {ref}", "rejected")
        if ref is not None and got is not None and in_shape(s):
            fields_ok = (got.epoch == ref.epoch and (got.major, got.minor, got.patch) == tuple((list(ref.release) + [0, 0, 0])[:3])
                         and (got.v_pre if got.pre else None) == (ref.pre[1] if ref.pre else None)
                         and (got.v_post if got.post else None) == ref.post and (got.v_dev if got.dev else None) == ref.dev
                         and (got.local or None) == (s.split("+", 1)[1] if "+" in s else None))
            sw.check(fields_ok, "fields differ from the reference", {"s": s, "clause": "fields"}, str(ref), str(got.to_tuple()))
    # order: all ordered pairs of a sample
    both = [(s, fm_parse(s), ref_parse(s)) for s in pool]
    both = [t for t in both if t[1] is not None and t[2] is not None]
    sample = both[:60] + r.sample(both, min(len(both), 140 if tier == "quick" else 900))
    for (sa, fa, ra), (sb, fb, rb) in itertools.product(sample, sample):
        want = sign((ra > rb) - (ra < rb))
        case = {"a": sa, "b": sb, "clause": "order"}
        sw.note(["order", sa, sb], ["lt", "eq", "gt"][want + 1])
        try:
            got = sign(fa.compare(fb))
            ops = ((fa < fb) - (fa > fb))
        except Exception as e:  # noqa: BLE001
            sw.check(False, "comparison raised", case, want, f"{type(e).__name__}: {e}")
            continue
        sw.check(got == want and ops == -want, "ordered differently from the reference", case, want, got)
    # local labels: every separator spelling, numeric vs alphanumeric parts - all ordered pairs against the reference
    labels = ["abc.1", "abc-1", "abc_1", "1.2", "1_2", "1-2", "1.10", "1_10", "1-10", "abc", "1.abc", "1_abc", "a.b.c", "a_b-c", "ubuntu_1", "ubuntu.1", "ubuntu-1.2", "ubuntu_1_2", "1", "2", "10", "0"]
    loc = [(b + "+" + l) for b in ("1.0", "1!2.3.4rc1") for l in labels]
    objs = [(s_, fm_parse(s_), ref_parse(s_)) for s_ in loc]
    for (sa, fa, ra), (sb, fb, rb) in itertools.product(objs, objs):
        case = {"a": sa, "b": sb, "clause": "order-local"}
        sw.note(["order-local", sa, sb], "local")
        if fa is None or fb is None or ra is None or rb is None:
            sw.check((fa is None) == (ra is None) and (fb is None) == (rb is None), "acceptance of a local label differs from the reference", case, None, None)
            continue
        want = sign((ra > rb) - (ra < rb))
        try:
            got = sign(fa.compare(fb))
            sw.check(got == want and (fa == fb) == (want == 0) and (want != 0 or hash(fa) == hash(fb)), "local labels ordered / hashed differently from the reference", case, want, got)
        except Exception as e:  # noqa: BLE001
            sw.check(False, "comparison raised", case, want, f"{type(e).__name__}: {e}")
    # one segment in every spelling: separator x tag x separator x number (and the implicit post `-N`), all ordered
    # pairs against the reference - the tag and the number decide, never the separators
    def seg_spellings(letters, implicit):
        out = [""]
        for s1 in ("", ".", "-", "_"):
            for l in letters:
                out.append(s1 + l)
                for s2 in ("", ".", "-", "_"):
                    for n_ in (0, 1, 2, 10):
                        out.append(f"{s1}{l}{s2}{n_}")
        if implicit:
            out += ["-0", "-1", "-2", "-10"]
        return out

    kinds = [("post", seg_spellings(("post", "rev", "r"), True)), ("dev", seg_spellings(("dev",), False)),
             ("pre", seg_spellings(("a", "b", "c", "rc", "alpha", "beta", "pre", "preview"), False))]
    for kind, sp in kinds:
        bases = ("1.0", "1!2.3.4rc1") if kind != "pre" else ("1.0",)
        for base in bases:
            objs = [(s_, fm_parse(s_), ref_parse(s_)) for s_ in (base + t for t in sp)]
            objs = [t for t in objs if t[1] is not None and t[2] is not None]
            if tier == "quick" and len(objs) > 110:
                objs = objs[:1] + r.sample(objs[1:], 109)
            for (sa, fa, ra), (sb, fb, rb) in itertools.product(objs, objs):
                want = sign((ra > rb) - (ra < rb))
                case = {"a": sa, "b": sb, "clause": "order-segment"}
                sw.note(["order-segment", sa, sb], "segment-" + kind)
                try:
                    got = sign(fa.compare(fb))
                    sw.check(got == want and (fa == fb) == (want == 0), "a segment's spellings are ordered differently from the reference", case, want, got)
                except Exception as e:  # noqa: BLE001
                    sw.check(False, "comparison raised", case, want, f"{type(e).__name__}: {e}")
    return sw


def run(tier: str, drv_ok: bool) -> dict:
    res = {"sweep": sweep(tier), "exhaustive": tier == "thorough"}
    if drv_ok:
        cs = corr_ver.build(rng("C04corr"), 300 if tier == "quick" else 3000, classes=("pkg",), which=("parse", "cmp", "misc"))
        r = rng("C04corr2")
        for s in r.sample(exhaustive_pkg_small(), 1500 if tier == "quick" else 8000):
            from gen_ver import res_obj
            cs.add("ver_parse", ["pkg", s, "0"], res_obj(lambda s=s: P.parse(s)))
        res["corr_diffs"] = cs.run()
        res["corr_stats"] = cs.stats()
        res["corr_samples"] = cs.desc[:3]
    return res
