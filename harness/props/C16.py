"""C16 — arithmetic on formatter objects mirrors arithmetic on their values."""
from __future__ import annotations

import datetime as _dt
import itertools

from common import esc, rng
from framework import Cases, Sweep
import corr_fmt
import gen_fmt

from fmtutil import Datetime, Naming, Serial, Storage, VerPackage, Version, make_group

RULE = ("Serial: pairs (a, n) and (a, b) from a grid incl. 0, 1, 999, 2^53-1, 2^53, 2^53+1, 10^18, 10^30+7 and random values, results at 0 and below 0; the four operators with an int and "
        "with a Serial on either side. Datetime: instants 1001..9998 x timedeltas (microsecond .. 400 days, both signs, carries across day/month/year, leap days), a+td, td+a, a-td, a-b, td-a. "
        "Version: x.y.z + (a,b,c) with sums up to 999 incl. zero addends. Naming + Naming. Groups: adjust of every subset of members. A corpus of wrong operand types for every operator. "
        "Operands are built by from_value and by parsing spelled text; every operand is snapshotted (value, string, hash) before and after. distinct = distinct operations")
TRUSTED = ["Python's int / datetime / list arithmetic as the value-level reference"]
ASSUMPTIONS = ["float operands are left out (the property names ints, timedeltas, triples and formatter objects)"]

BIG = [0, 1, 2, 7, 9, 10, 99, 100, 999, 1000, 2 ** 53 - 1, 2 ** 53, 2 ** 53 + 1, 10 ** 18, 10 ** 30 + 7,
       10 ** 308, 9 * 10 ** 308, 2 ** 1023, 2 ** 1024 - 1, 10 ** 400 + 7]  # beyond the largest float: still exact integers
WRONG = ["x", "", None, [1], (1,), {"a": 1}, {1}, object(), b"1", Ellipsis]


def snap(o):
    return (repr(o.value), o.string, hash(o))


def expect_type_error(sw, what, case, fn):
    try:
        res = fn()
    except TypeError:
        return
    except Exception as e:  # noqa: BLE001
        sw.check(False, what, case, "TypeError", f"{type(e).__name__}: {e}")
        return
    sw.check(False, what, case, "TypeError", repr(res))


def serial_obj(r, a):
    if r.random() < 0.5:
        return Serial.from_value(a)
    fmt = r.choice(["%n", "%c", "%u", "%b"])
    return Serial.parse(Serial.from_value(a).format(fmt), fmt)


def sweep_serial(sw, r, tier):
    pool = BIG + [r.randrange(10 ** r.randint(1, 24)) for _ in range(6 if tier == "quick" else 40)]
    pairs = list(itertools.product(pool, repeat=2))
    if tier == "quick":
        pairs = r.sample(pairs, min(len(pairs), 400))
    for a, n in pairs:
        case = {"cls": "serial", "a": a, "b": n}
        sw.note(["serial", a, n], "serial")
        try:
            A = serial_obj(r, a)
            B = serial_obj(r, n)
        except Exception as e:  # noqa: BLE001
            sw.check(False, "a serial of a non-negative integer cannot be made", {**case, "clause": "serial-make"}, "a Serial", f"{type(e).__name__}: {str(e)[:80]}")
            continue
        sa, sb = snap(A), snap(B)

        def chk(op, fn, want):
            try:
                res = fn()
                got = res.value if isinstance(res, Serial) else res
                ok = got == want and (isinstance(res, Serial) or op == "n-a") and type(got) is int
                sw.check(ok, "the result of the operator is not the value-level result", {**case, "clause": "serial-" + op}, want, repr(res))
            except Exception as e:  # noqa: BLE001
                sw.check(False, "the operator raises on operands inside the domain", {**case, "clause": "serial-" + op}, want, f"{type(e).__name__}: {e}")

        chk("a+n", lambda: A + n, a + n)
        chk("n+a", lambda: n + A, a + n)
        chk("a+b", lambda: A + B, a + n)
        chk("n-a", lambda: n - A, n - a)
        if a - n >= 0:
            chk("a-n", lambda: A - n, a - n)
            chk("a-b", lambda: A - B, a - n)
        else:
            expect_type_error(sw, "a negative serial does not raise TypeError", {**case, "clause": "serial-negative", "op": "a-n"}, lambda: A - n)
            expect_type_error(sw, "a negative serial does not raise TypeError", {**case, "clause": "serial-negative", "op": "a-b"}, lambda: A - B)
            expect_type_error(sw, "a negative serial does not raise TypeError", {**case, "clause": "serial-negative", "op": "a+(-n)"}, lambda: A + (a - n - a - a - 1))
        sw.check(snap(A) == sa and snap(B) == sb, "an operand was modified", {**case, "clause": "unmodified"}, [sa, sb], [snap(A), snap(B)])


def rand_delta(r):
    kind = r.randrange(6)
    if kind == 0:
        return _dt.timedelta(microseconds=r.choice([1, 999999, 1000000, r.randrange(10 ** 7)]))
    if kind == 1:
        return _dt.timedelta(seconds=r.choice([1, 59, 60, 3599, 3600, 86399, r.randrange(10 ** 6)]))
    if kind == 2:
        return _dt.timedelta(days=r.choice([1, 28, 29, 30, 31, 59, 365, 366, 400]))
    if kind == 3:
        return _dt.timedelta(days=r.randrange(400), seconds=r.randrange(86400), microseconds=r.randrange(10 ** 6))
    if kind == 4:
        return _dt.timedelta(0)
    return -_dt.timedelta(days=r.randrange(400), seconds=r.randrange(86400), microseconds=r.randrange(10 ** 6))


def rand_instant(r):
    base = r.choice([_dt.datetime(2024, 2, 28, 23, 59, 59, 999999), _dt.datetime(2023, 12, 31, 23, 59, 59, 999999), _dt.datetime(2000, 2, 29), _dt.datetime(1900, 3, 1),
                     _dt.datetime(1001, 1, 1), _dt.datetime(9998, 12, 31, 23, 59, 59, 999999), corr_fmt.rand_dt(r), corr_fmt.rand_dt(r)])
    if not (1001 <= base.year <= 9998):
        base = base.replace(year=min(max(base.year, 1001), 9998), day=min(base.day, 28))
    return base


def sweep_datetime(sw, r, tier):
    n = 1200 if tier == "quick" else 8000
    for _ in range(n):
        t, u, td = rand_instant(r), rand_instant(r), rand_delta(r)
        A, B = Datetime.from_value(t), Datetime.from_value(u)
        if r.random() < 0.4:
            A = Datetime.parse(t.strftime("%Y-%m-%d %H:%M:%S.%f"), "%Y-%m-%d %H:%M:%S.%f")
        sa, sb = snap(A), snap(B)
        case = {"cls": "datetime", "a": str(t), "b": str(u), "td": str(td)}
        sw.note(["datetime", str(t), str(u), str(td)], "datetime")
        for op, fn, want in (("a+td", lambda: A + td, lambda: t + td), ("td+a", lambda: td + A, lambda: t + td), ("a-td", lambda: A - td, lambda: t - td)):
            try:
                w = want()
            except OverflowError:
                continue
            if not (1000 <= w.year <= 9999):
                continue  # years below 1000 are outside the C01 domain (the C library prints them unpadded)
            try:
                res = fn()
                sw.check(isinstance(res, Datetime) and res.value == w, "the result of the operator is not the value-level result", {**case, "clause": "datetime-" + op}, str(w), repr(res))
            except Exception as e:  # noqa: BLE001
                sw.check(False, "the operator raises on operands inside the domain", {**case, "clause": "datetime-" + op}, str(w), f"{type(e).__name__}: {e}")
        try:
            res = A - B
            sw.check(isinstance(res, _dt.timedelta) and res == t - u, "a - b is not the difference of the values", {**case, "clause": "datetime-a-b"}, str(t - u), repr(res))
        except Exception as e:  # noqa: BLE001
            sw.check(False, "a - b raises", {**case, "clause": "datetime-a-b"}, str(t - u), f"{type(e).__name__}: {e}")
        expect_type_error(sw, "timedelta - Datetime does not raise TypeError", {**case, "clause": "datetime-td-a"}, lambda: td - A)
        sw.check(snap(A) == sa and snap(B) == sb, "an operand was modified", {**case, "clause": "unmodified"}, [sa, sb], [snap(A), snap(B)])


def sweep_version(sw, r, tier):
    n = 600 if tier == "quick" else 5000
    for _ in range(n):
        x, y, z = (r.choice([0, 1, 9, 10, 99, 500, r.randrange(500)]) for _ in range(3))
        a, b, c = (r.choice([0, 0, 1, 2, 10, 499 - 0, r.randrange(499)]) for _ in range(3))
        V = Version.from_value(f"{x}.{y}.{z}") if r.random() < 0.5 else Version.parse(f"{x}.{y}.{z}", "%m.%n.%c")
        sv = snap(V)
        case = {"cls": "version", "a": f"{x}.{y}.{z}", "b": [a, b, c]}
        sw.note(["version", case["a"], case["b"]], "version")
        want = VerPackage.parse(f"{x + a}.{y + b}.{z + c}")
        for op, fn in (("v+t", lambda: V + (a, b, c)), ("t+v", lambda: (a, b, c) + V)):
            try:
                res = fn()
                sw.check(isinstance(res, Version) and res.value == want and (res.value.major, res.value.minor, res.value.patch) == (x + a, y + b, z + c),
                         "Version + triple is not the part-wise sum", {**case, "clause": "version-" + op}, str(want), repr(res))
            except Exception as e:  # noqa: BLE001
                sw.check(False, "Version + triple raises", {**case, "clause": "version-" + op}, str(want), f"{type(e).__name__}: {e}")
        expect_type_error(sw, "Version - x does not raise TypeError", {**case, "clause": "version-sub"}, lambda: V - (a, b, c))
        expect_type_error(sw, "Version + pair does not raise TypeError", {**case, "clause": "version-pair"}, lambda: V + (a, b))
        sw.check(snap(V) == sv, "an operand was modified", {**case, "clause": "unmodified"}, sv, snap(V))


def sweep_naming(sw, r, tier):
    n = 500 if tier == "quick" else 4000
    for _ in range(n):
        w1, w2 = corr_fmt.rand_name(r), corr_fmt.rand_name(r)
        A, B = Naming.from_value(w1), Naming.from_value(w2)
        if A.value != w1 or B.value != w2:
            continue  # the word list itself is outside what from_value keeps (C01/C08 domain)
        sa, sb = snap(A), snap(B)
        case = {"cls": "naming", "a": w1, "b": w2}
        sw.note(["naming", w1, w2], "naming")
        try:
            res = A + B
            sw.check(isinstance(res, Naming) and res.value == w1 + w2, "Naming + Naming is not the concatenation of the word lists", {**case, "clause": "naming-add"}, w1 + w2, repr(res))
        except Exception as e:  # noqa: BLE001
            sw.check(False, "Naming + Naming raises", {**case, "clause": "naming-add"}, w1 + w2, f"{type(e).__name__}: {e}")
        expect_type_error(sw, "Naming - Naming does not raise TypeError", {**case, "clause": "naming-sub"}, lambda: A - B)
        sw.check(snap(A) == sa and snap(B) == sb, "an operand was modified", {**case, "clause": "unmodified"}, [sa, sb], [snap(A), snap(B)])


def sweep_wrong_types(sw, r, tier):
    objs = {"serial": Serial.from_value(12), "datetime": Datetime.from_value(_dt.datetime(2024, 1, 5, 3, 4, 5)), "version": Version.from_value("1.2.3"), "naming": Naming.from_value(["data", "engineer"])}
    others = WRONG + [_dt.date(2024, 1, 1), Datetime.from_value(_dt.datetime(2020, 1, 1)), Version.from_value("0.0.1"), Serial.from_value(3)]
    for c, o in objs.items():
        s0 = snap(o)
        for w in others:
            if type(w) is type(o):
                continue
            if c == "naming" and isinstance(w, list):
                continue  # a list of words is the value type of a Naming
            for op, fn in (("o+w", lambda: o + w), ("w+o", lambda: w + o), ("o-w", lambda: o - w), ("w-o", lambda: w - o)):
                case = {"cls": c, "clause": "wrong-type", "op": op, "b": type(w).__name__ + ":" + repr(w)[:30]}
                sw.note(["wrong", c, op, case["b"]], "wrong-type")
                expect_type_error(sw, "an unsupported operand type does not raise TypeError", case, fn)
        sw.check(snap(o) == s0, "an operand was modified", {"cls": c, "clause": "unmodified"}, s0, snap(o))


def sweep_groups(sw, r, tier):
    n = 150 if tier == "quick" else 1000
    for _ in range(n):
        decl = [(nm, k) for nm, k in corr_fmt.group_decl(r, r.randint(2, 3)) if k in ("serial", "datetime", "naming", "version")]
        if len(decl) < 2:
            continue
        G = make_group({nm: corr_fmt.KINDS[k] for nm, k in decl})
        vals, deltas, want = {}, {}, {}
        for nm, k in decl:
            if k == "serial":
                vals[nm] = r.choice(BIG); deltas[nm] = r.choice(BIG); want[nm] = vals[nm] + deltas[nm]
            elif k == "datetime":
                vals[nm] = rand_instant(r).replace(year=r.randint(1500, 8000), day=min(28, r.randint(1, 28))); deltas[nm] = rand_delta(r); want[nm] = vals[nm] + deltas[nm]
            elif k == "naming":
                vals[nm] = ["data", "engineer"]; deltas[nm] = Naming.from_value(["team", "lead"]); want[nm] = ["data", "engineer", "team", "lead"]
            else:
                vals[nm] = f"{r.randrange(100)}.{r.randrange(100)}.{r.randrange(100)}"; deltas[nm] = (r.randrange(5), r.randrange(5), r.randrange(5))
                p = [int(x) for x in vals[nm].split(".")]
                want[nm] = VerPackage.parse(".".join(str(p[i] + deltas[nm][i]) for i in range(3)))
        try:
            g = G({nm: corr_fmt.KINDS[k].from_value(vals[nm]) for nm, k in decl})
        except Exception as e:  # noqa: BLE001
            sw.check(False, "a group of values inside the domain cannot be made", {"clause": "group-make", "decl": [f"{a}:{b}" for a, b in decl], "values": {k_: str(v_)[:40] for k_, v_ in vals.items()}}, None, f"{type(e).__name__}: {str(e)[:80]}")
            continue
        before = {nm: snap(g.groups[nm]) for nm, _ in decl}
        for kk in range(1, len(decl) + 1):
            for inc in itertools.combinations([nm for nm, _ in decl], kk):
                case = {"clause": "group-adjust", "decl": [f"{a}:{b}" for a, b in decl], "adjusted": list(inc)}
                sw.note(["adjust", case["decl"], list(inc), {k: str(v) for k, v in vals.items()}], "group-adjust")
                try:
                    g2 = g.adjust({nm: deltas[nm] for nm in inc})
                    for nm, k in decl:
                        w = want[nm] if nm in inc else g.groups[nm].value
                        sw.check(g2.groups[nm].value == w, "adjust does not produce the value-level result for a member", {**case, "member": nm}, str(w), str(g2.groups[nm].value))
                except Exception as e:  # noqa: BLE001
                    sw.check(False, "adjust raises", case, None, f"{type(e).__name__}: {e}")
        sw.check({nm: snap(g.groups[nm]) for nm, _ in decl} == before, "adjust modified the group it was called on", {"clause": "unmodified", "decl": [f"{a}:{b}" for a, b in decl]}, None, None)


def sweep(tier: str) -> Sweep:
    r = rng("C16")
    sw = Sweep("C16")
    sweep_serial(sw, r, tier)
    sweep_datetime(sw, r, tier)
    sweep_version(sw, r, tier)
    sweep_naming(sw, r, tier)
    sweep_wrong_types(sw, r, tier)
    sweep_groups(sw, r, tier)
    return sw


def us(td):
    return td // _dt.timedelta(microseconds=1)


def arith_cases(r, n) -> Cases:
    cs = Cases("arith")
    for _ in range(n):
        a, b = r.choice(BIG + [r.randrange(10 ** 12)]), r.choice(BIG + [r.randrange(10 ** 12)])
        f1, f2 = r.choice(["%n", "%c", "%u", "%b"]), r.choice(["%n", "%c"])
        t1, t2 = Serial.from_value(a).format(f1), Serial.from_value(b).format(f2)
        for op in ("add", "radd", "sub", "rsub"):
            n_ = r.choice([b, -b, 0, a, a + 1])
            def run_int(op=op, t1=t1, f1=f1, n_=n_):
                A = Serial.parse(t1, f1)
                res = {"add": lambda: A + n_, "radd": lambda: n_ + A, "sub": lambda: A - n_, "rsub": lambda: n_ - A}[op]()
                return "ok:" + str(res.value if isinstance(res, Serial) else res)
            cs.add("arith.serial.int", [t1, corr_fmt.wopt(f1), op, str(n_)], run_int)
        for op in ("add", "sub"):
            def run_obj(op=op, t1=t1, f1=f1, t2=t2, f2=f2):
                A, B = Serial.parse(t1, f1), Serial.parse(t2, f2)
                res = A + B if op == "add" else A - B
                return "ok:" + str(res.value)
            cs.add("arith.serial.obj", [t1, corr_fmt.wopt(f1), op, t2, corr_fmt.wopt(f2)], run_obj)
        t, u, td = rand_instant(r), rand_instant(r), rand_delta(r)
        F = "%Y-%m-%d %H:%M:%S.%f"
        ts, us_ = t.strftime(F), u.strftime(F)
        if t.year >= 1000 and u.year >= 1000:
            for op in ("add", "sub"):
                def run_dt(op=op, ts=ts, td=td):
                    A = Datetime.parse(ts, F)
                    res = A + td if op == "add" else A - td
                    return "ok:" + corr_fmt.value_text("datetime", res.value)   # not strftime: the C library prints years below 1000 unpadded
                cs.add("arith.datetime.delta", [ts, corr_fmt.wopt(F), op, str(us(td))], run_dt)
            cs.add("arith.datetime.obj", [ts, corr_fmt.wopt(F), us_, corr_fmt.wopt(F)], lambda ts=ts, us_=us_: "ok:" + str(us(Datetime.parse(ts, F) - Datetime.parse(us_, F))))
        x, y, z = (r.randrange(500) for _ in range(3))
        ad = [r.choice([0, 1, 2, 10, r.randrange(499)]) for _ in range(3)]
        vt = f"{x}.{y}.{z}"
        cs.add("arith.version", [vt, corr_fmt.wopt("%m.%n.%c"), str(ad[0]), str(ad[1]), str(ad[2])],
               lambda vt=vt, ad=ad: "ok:" + (lambda v: f"{v.major}.{v.minor}.{v.patch}")((Version.parse(vt, "%m.%n.%c") + tuple(ad)).value))
        w1, w2 = corr_fmt.rand_name(r), corr_fmt.rand_name(r)
        n1, n2 = " ".join(w1), " ".join(w2)
        cs.add("arith.naming", [n1, corr_fmt.wopt("%n"), n2, corr_fmt.wopt("%n")], lambda n1=n1, n2=n2: "ok:" + ",".join(esc(w) for w in (Naming.parse(n1, "%n") + Naming.parse(n2, "%n")).value))
    return cs


def run(tier: str, drv_ok: bool) -> dict:
    res = {"sweep": sweep(tier)}
    if drv_ok:
        r = rng("C16corr")
        cs = arith_cases(r, 200 if tier == "quick" else 1500)
        res["corr_diffs"] = cs.run()
        res["corr_stats"] = cs.stats()
        res["corr_samples"] = cs.desc[:3]
    return res
