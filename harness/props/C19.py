"""C19 — bytes equal text as input; escaping makes literal text match itself."""
from __future__ import annotations

import itertools
import re

from common import esc, rng
from framework import Cases, Sweep
import corr_fmt

from fmtutil import (Ver as BaseVersion, Datetime, Naming, Serial, Storage, VerPackage, VerSemver, Version, make_const, make_group)
from fmtutil.utils import bytes2str, escape_fmt_group, unescape

try:
    import re._parser as sre_parse  # Python 3.11+
except ImportError:  # pragma: no cover
    import sre_parse

RULE = ("literal texts over the alphabet {every regex metacharacter, backslash, braces, percent, space, tab, newline, letters, digits, underscore, non-ASCII (Latin-1, CJK, emoji)}: "
        "exhaustive up to length 2 (quick) / 3 (thorough), sampled up to length 12; each also with 0..3 embedded {group:format} placeholders; each string and its UTF-8 bytes through "
        "every parse entry point (five formatters, a constant, a group, three version classes) together with a corpus of wrong input types and invalid UTF-8. distinct = distinct texts")
TRUSTED = ["CPython's regex parser (re._parser) as the judge that an escaped fragment is a pure literal sequence"]
ASSUMPTIONS = ["a {word…} substring of the text is a placeholder by definition (the function cannot tell it from one); placeholder formats contain no backslash"]

ALPHABET = list("\\.^$*+?{}[]()|-#&~ %:/aZ09_<>!\"'=,;@") + ["\t", "\n", "é", "中", "😀"]
PLACEHOLDERS = ["{name}", "{datetime:%Y-%m-%d}", "{naming:%n_%e}", "{version:v%m.%n.%c}", "{a_b:%H%M%S}", "{x1}"]
PLACEHOLDER_RE = re.compile(r"{\w+:?([^{}]+)?}")


def is_literal_regex(p: str, t: str) -> bool:
    """the pattern p is a concatenation of single LITERAL nodes spelling t"""
    try:
        tree = sre_parse.parse(p)
    except re.error:
        return False
    items = list(tree)
    return len(items) == len(t) and all(op is sre_parse.LITERAL and av == ord(ch) for (op, av), ch in zip(items, t))


def check_literal(sw, t):
    sw.note(["lit", t], "literal")
    case = {"clause": "escape-literal", "text": t}
    e = escape_fmt_group(t)
    sw.check(is_literal_regex(e, t), "the escaped fragment is not the literal sequence of the text", case, "LITERAL x len(t)", e)
    try:
        sw.check(re.fullmatch(e, t, flags=0) is not None, "the escaped fragment does not match the text", case, t, e)
    except re.error as ex:
        sw.check(False, "the escaped fragment does not compile", case, t, f"{e!r}: {ex}")
    sw.check(unescape(e) == t, "unescape does not invert escape_fmt_group", {**case, "clause": "unescape"}, t, unescape(e))
    sw.check(unescape(re.escape(t)) == t, "unescape does not invert re.escape", {**case, "clause": "unescape"}, t, unescape(re.escape(t)))


def check_with_placeholders(sw, r, lits, phs):
    """lits: k+1 literal pieces free of placeholder look-alikes; phs: k placeholders"""
    t = "".join(a + b for a, b in itertools.zip_longest(lits, phs, fillvalue=""))
    case = {"clause": "escape-placeholder", "text": t}
    sw.note(["ph", t], f"placeholders-{len(phs)}")
    e = escape_fmt_group(t)
    want = "".join(re.escape(a) + b for a, b in itertools.zip_longest(lits, phs, fillvalue=""))
    sw.check(e == want, "placeholders are not left untouched / the literal text around them is not escaped", case, want, e)
    sw.check(unescape(e) == t, "unescape does not invert escape_fmt_group", {**case, "clause": "unescape"}, t, unescape(e))
    return t, e


def gen_literal(r, n):
    for _ in range(200):
        t = "".join(r.choice(ALPHABET) for _ in range(n))
        if not PLACEHOLDER_RE.search(t) and "<ESCAPE" not in t:
            return t
    return "x" * n


def sweep_escape(sw, r, tier):
    maxlen = 2 if tier == "quick" else 3
    for n in range(0, maxlen + 1):
        for tup in itertools.product(ALPHABET, repeat=n):
            t = "".join(tup)
            if PLACEHOLDER_RE.search(t):
                continue
            check_literal(sw, t)
    for _ in range(1500 if tier == "quick" else 12000):
        check_literal(sw, gen_literal(r, r.randint(3, 12)))
    for _ in range(1000 if tier == "quick" else 8000):
        k = r.randint(1, 3)
        phs = [r.choice(PLACEHOLDERS) for _ in range(k)]
        lits = [gen_literal(r, r.randint(0, 5)) for _ in range(k + 1)]
        # a literal piece ending in '{' or similar can fuse with a neighbour into a placeholder look-alike: regenerate
        t = "".join(a + b for a, b in itertools.zip_longest(lits, phs, fillvalue=""))
        if [m.group() for m in PLACEHOLDER_RE.finditer(t)] != phs:
            continue
        check_with_placeholders(sw, r, lits, phs)
    # embedded in a group format: the literal file-name text matches itself in a real group parse
    G = make_group({"name": Naming, "serial": Serial})
    for _ in range(300 if tier == "quick" else 2500):
        pre, mid, post = (gen_literal(r, r.randint(0, 4)) for _ in range(3))
        fmt_text = pre + "{name:%s}" + mid + "{serial:%n}" + post
        if [m.group() for m in PLACEHOLDER_RE.finditer(fmt_text)] != ["{name:%s}", "{serial:%n}"]:
            continue
        if not mid or mid[0].isalnum() or mid[0] == "_" or mid[-1].isdigit():
            mid_ok = False
        else:
            mid_ok = True
        if not mid_ok or (post and post[0].isdigit()) or (pre and False):
            continue  # keep the member texts unambiguous: separators must not look like member text
        text = pre + "data_engineer" + mid + "42" + post
        case = {"clause": "escape-group", "text": text, "fmt": fmt_text}
        sw.note(["grp", fmt_text], "group-embed")
        try:
            g = G.parse(text, escape_fmt_group(fmt_text))
            sw.check(g.groups["name"].value == ["data", "engineer"] and g.groups["serial"].value == 42, "the group reads other member values through the escaped format", case, "data engineer / 42", str(g))
        except Exception as ex:  # noqa: BLE001
            sw.check(False, "the escaped literal text does not match itself inside a group format", case, "parsed", f"{type(ex).__name__}: {ex}")
        other = pre + "data_engineer" + mid + "42" + post + "x"
        try:
            G.parse(other, escape_fmt_group(fmt_text))
            sw.check(False, "the escaped format accepts a different text", {**case, "text": other}, "rejected", "accepted")
        except Exception:  # noqa: BLE001
            pass


def entry_points():
    K = make_const(name="ProbeK", formatter={"%n": "dév", "%d": "中"})
    G = make_group({"name": K, "serial": Serial})
    return {
        "serial": (lambda v: Serial.parse(v, "%n").value, ["12", "007"]),
        "datetime": (lambda v: Datetime.parse(v, "%Y-%m-%d").value, ["2024-02-29"]),
        "naming": (lambda v: Naming.parse(v, "%n").value, ["data engineer"]),
        "version": (lambda v: str(Version.parse(v, "%m.%n.%c").value), ["1.2.3"]),
        "storage": (lambda v: Storage.parse(v, "%b").value, ["8"]),
        "constant": (lambda v: K.parse(v, "%n/%d").value, ["dév/中"]),
        "group": (lambda v: str(G.parse(v, "{name:%n}_{serial:%n}")), ["dév_7"]),
        "ver_base": (lambda v: str(BaseVersion.parse(v)), ["1.2.3"]),
        "ver_sem": (lambda v: str(VerSemver.parse(v)), ["1.2.3-rc.1+build"]),
        "ver_pkg": (lambda v: str(VerPackage.parse(v)), ["1!1.2.3rc1.post2.dev3+abc"]),
    }


WRONG = [12, None, 1.5, ["x"], ("x",), {"a": 1}, bytearray(b"12"), memoryview(b"12"), object()]
BAD_UTF8 = [b"\xff", b"\xc0\x80", b"\xe2\x82", b"\xed\xa0\x80", b"\xf4\x90\x80\x80", b"12\x80"]


def outcome(fn):
    try:
        return ("ok", fn())
    except Exception as e:  # noqa: BLE001
        return ("err", type(e).__name__)


def sweep_bytes(sw, r, tier):
    for name, (fn, texts) in entry_points().items():
        # non-ASCII digits are digits to `\d`: every accepted text with one digit written full-width or in Arabic-Indic
        wide = [t[:i] + w + t[i + 1:] for t in texts for i, ch in enumerate(t) if ch.isdigit() and ch.isascii() for w in (chr(0xFF10 + int(ch)), chr(0x0660 + int(ch)))][:12]
        extra = [t + "x" for t in texts] + ["", "é", "😀"] + wide
        for t in texts + extra:
            sw.note(["bytes", name, t], "entry-" + name)
            a, b = outcome(lambda: fn(t)), outcome(lambda: fn(t.encode("utf-8")))
            sw.check(a == b, "UTF-8 bytes and the equivalent str give different outcomes", {"clause": "bytes", "entry": name, "text": t}, a, b)
        for w in WRONG:
            o = outcome(lambda: fn(w))
            sw.note(["wrong", name, type(w).__name__], "wrong-type")
            sw.check(o == ("err", "TypeError"), "input that is neither str nor bytes does not raise TypeError", {"clause": "wrong-type", "entry": name, "text": type(w).__name__}, "TypeError", o)
        for bad in BAD_UTF8:
            o = outcome(lambda: fn(bad))
            sw.note(["badutf8", name, bad.hex()], "invalid-utf8")
            sw.check(o == ("err", "UnicodeDecodeError"), "invalid UTF-8 is not reported as UnicodeDecodeError", {"clause": "invalid-utf8", "entry": name, "text": bad.hex()}, "UnicodeDecodeError", o)
    for _ in range(200 if tier == "quick" else 3000):
        t = "".join(r.choice(ALPHABET) for _ in range(r.randint(0, 8)))
        sw.note(["b2s", t], "bytes2str")
        sw.check(bytes2str(t.encode("utf-8")) == t and bytes2str(t) == t, "bytes2str is not the identity on text / the inverse of encode", {"clause": "bytes2str", "text": t}, t, None)


def sweep(tier: str) -> Sweep:
    r = rng("C19")
    sw = Sweep("C19")
    sweep_escape(sw, r, tier)
    sweep_bytes(sw, r, tier)
    return sw


def esc_cases(r, n) -> Cases:
    cs = Cases("esc")
    texts = ["".join(tup) for k in range(0, 3) for tup in itertools.product(ALPHABET[:24] + ["é", "中", "\n"], repeat=k)]
    texts = r.sample(texts, min(len(texts), n)) + ["".join(r.choice(ALPHABET) for _ in range(r.randint(3, 10))) for _ in range(n)]
    for t in texts:
        cs.add("re_escape", [t], lambda t=t: esc(re.escape(t)))
        cs.add("unescape", [t], lambda t=t: esc(unescape(t)))
        cs.add("unescape", [re.escape(t)], lambda t=t: esc(unescape(re.escape(t))))
        cs.add("escape_fmt_group", [t], lambda t=t: esc(escape_fmt_group(t)))
    for _ in range(n):
        k = r.randint(1, 3)
        t = "".join(gen_literal(r, r.randint(0, 4)) + r.choice(PLACEHOLDERS) for _ in range(k)) + gen_literal(r, r.randint(0, 3))
        cs.add("escape_fmt_group", [t], lambda t=t: esc(escape_fmt_group(t)))
    for _ in range(n):
        t = "".join(r.choice(ALPHABET + ["\u0080", "߿", "ࠀ", "￿", "\U00010000", "\U0010ffff"]) for _ in range(r.randint(0, 6)))
        b = t.encode("utf-8")
        cs.add("utf8_decode", [b.hex()], lambda b=b: "ok:" + esc(bytes2str(b)))
        cs.add("utf8_encode", [t], lambda t=t: " ".join(str(x) for x in t.encode("utf-8")))
        raw = bytes(r.randrange(256) for _ in range(r.randint(1, 5)))
        cs.add("utf8_decode", [raw.hex()], lambda raw=raw: "ok:" + esc(bytes2str(raw)))
    for bad in BAD_UTF8:
        cs.add("utf8_decode", [bad.hex()], lambda bad=bad: "ok:" + esc(bytes2str(bad)))
    return cs


def run(tier: str, drv_ok: bool) -> dict:
    res = {"sweep": sweep(tier)}
    if drv_ok:
        r = rng("C19corr")
        cs = esc_cases(r, 150 if tier == "quick" else 2000)
        res["corr_diffs"] = cs.run()
        res["corr_stats"] = cs.stats()
        res["corr_samples"] = cs.desc[:3]
    return res
