"""C14 — formatter objects order and hash as their values; groups by the product order."""
from __future__ import annotations

import datetime as _dt
import decimal
import itertools

from common import rng
from framework import Cases, Sweep
import corr_fmt
import gen_fmt

from fmtutil import Datetime, Naming, Serial, Storage, VerPackage, Version, make_group

RULE = ("objects: for each of the five formatters, pools of 3..4 neighbouring values, each value spelled 2..5 ways (padded/unpadded, different directives and "
        "separators, zero-padded numbers, PEP 440 segment/local spellings); every ordered pair and every triple of the pool is compared with the order of the "
        "objects' own values; == / hash / set / dict on every pair. groups: declarations of 2..3 members, member values from 2..3-point grids, every ordered "
        "pair and triple of the full grid (product order oracle computed from the member values), every permutation of lists of 3..4 groups handed to "
        "max/min/sorted, groups of different shapes. distinct = distinct comparisons")
TRUSTED = ["Python's own order on int / datetime / list / Decimal; the VersionPackage order (C04/C07)"]
ASSUMPTIONS = ["an object is admitted to a pool only when its value equals the intended value (spellings that C01's known findings make ambiguous are left out)"]

CLASSES = gen_fmt.CLASSES


def spellings(c, v, r, k):
    """up to k parsed objects whose value is v"""
    cls = CLASSES[c]
    out = []
    base = gen_fmt.make_obj(c, v)
    out.append(("from_value", base))
    tries = 0
    while len(out) < k and tries < 12:
        tries += 1
        toks, sep, det, kinds = gen_fmt.fmt_for(c, r, v, **({"complete": True} if c == "datetime" else {}))
        if not det or kinds:
            continue
        fmt = sep.join(toks)
        try:
            text = base.format(fmt)
            o = cls.parse(text, fmt)
        except Exception:  # noqa: BLE001
            continue
        if gen_fmt.values_equal(c, o.value, v):
            out.append((f"{text!r} / {fmt!r}", o))
    extra = []
    if c == "serial":
        extra = [("00" + str(v), "%n"), (str(v), "%n")]
    elif c == "storage":
        extra = [("00" + str(v), "%b")]
    elif c == "version":
        extra = [(v, "%e%m.%n.%c" if "!" in v else "%m.%n.%c")]
    for text, fmt in extra:
        try:
            o = cls.parse(text, fmt)
            if gen_fmt.values_equal(c, o.value, v):
                out.append((f"{text!r} / {fmt!r}", o))
        except Exception:  # noqa: BLE001
            pass
    if c == "naming" and all(w.isalpha() for w in v):
        # objects read from a directive that does not keep the word boundaries are objects like any other: whatever their
        # value is, they compare and hash as that value does
        for text, fmt in (("".join(v), "%f"), ("".join(v).upper(), "%F")):
            try:
                out.append((f"{text!r} / {fmt!r}", cls.parse(text, fmt)))
            except Exception:  # noqa: BLE001
                pass
    return out


VERSION_SPELLING_SETS = [
    [("1.2.3rc1", "%m.%n.%c%q"), ("1.2.3rc.1", "%m.%n.%c%q"), ("1.2.3-c_1", "%m.%n.%c-%q"), ("1.2.3preview1", "%m.%n.%c%q")],
    [("1.2.3.post2", "%m.%n.%c.%p"), ("1.2.3-2", "%m.%n.%c%p"), ("1.2.3rev2", "%m.%n.%c%p"), ("1.2.3.r-2", "%m.%n.%c.%p")],
    [("1.2.3+a.1", "%m.%n.%c%l"), ("1.2.3+a-1", "%m.%n.%c%l"), ("1.2.3+a_1", "%m.%n.%c%l")],
    [("1.2.3.dev4", "%m.%n.%c.%d"), ("1.2.3dev-4", "%m.%n.%c%d")],
    [("0!1.2.3", "%e%m.%n.%c"), ("1.2.3", "%m.%n.%c"), ("1_2_3", "%f")],
]


def neighbours(c, r):
    """a pool of neighbouring values of one class"""
    if c == "serial":
        n = r.choice([0, 7, 9, 99, 255, 998, 10 ** 18, r.randrange(10 ** 6)])
        return [n, n + 1, n + 2] + ([n + 10] if r.random() < 0.5 else [])
    if c == "datetime":
        t = corr_fmt.rand_dt(r)
        out = [t]
        for d in r.sample([_dt.timedelta(microseconds=1), _dt.timedelta(seconds=1), _dt.timedelta(days=1), _dt.timedelta(days=31), _dt.timedelta(hours=12)], 2):
            try:
                out.append(t + d)
            except OverflowError:
                pass
        return out
    if c == "version":
        a, b, cc = (r.choice([0, 1, 9, 10, 99]) for _ in range(3))
        ep = r.choice(["", "", "1!"])
        return [f"{ep}{a}.{b}.{cc}", f"{ep}{a}.{b}.{cc + 1}", f"{ep}{a}.{b + 1}.0", f"{a + 1}.0.0"]
    if c == "naming":
        ws = corr_fmt.rand_name(r)
        # the same letters split into other words are other values: the word list is the value, not its flat spelling
        i = r.randrange(len(ws))
        resplit = ws[:i] + ([ws[i][:1], ws[i][1:]] if len(ws[i]) > 1 else [ws[i]]) + ws[i + 1:]
        joined = (ws[:i] + [ws[i] + ws[i + 1]] + ws[i + 2:]) if i + 1 < len(ws) else ["".join(ws)]
        if r.random() < 0.3:
            # words are compared as text: digit runs of different lengths (file2 / file10) are NOT compared as numbers
            stem = r.choice(["file", "v", "x1y", ""])
            return [ws[:i] + [stem + n_] + ws[i:] for n_ in r.sample(["2", "10", "9", "100", "09"], 3)]
        return [ws] + r.sample([ws + ["zz"], ["aa"] + ws, resplit, joined], r.randint(2, 3))
    b = 8 * 1024 ** r.randint(0, 4) * r.randint(0, 9)
    return [b, b + 8, b + 8 * 1024]


def check_pair(sw, c, la, a, lb, b):
    va, vb = a.value, b.value
    case = {"cls": c, "a": la, "b": lb, "va": gen_fmt.value_repr(c, va) if c != "version" else str(va), "vb": gen_fmt.value_repr(c, vb) if c != "version" else str(vb)}
    sw.note(["pair", c, la, lb], c)
    want_eq, want_lt, want_gt = va == vb, va < vb, va > vb
    got = {"==": a == b, "!=": a != b, "<": a < b, "<=": a <= b, ">": a > b, ">=": a >= b}
    want = {"==": want_eq, "!=": not want_eq, "<": want_lt, "<=": want_lt or want_eq, ">": want_gt, ">=": want_gt or want_eq}
    for op in got:
        sw.check(got[op] is want[op], f"object comparison differs from the comparison of the values", {**case, "clause": "order", "op": op}, want[op], got[op])
    if want_eq:
        sw.check(hash(a) == hash(b), "equal objects have different hashes", {**case, "clause": "hash"}, "hash(a) == hash(b)", f"{hash(a)} != {hash(b)}")
        sw.check(len({a, b}) == 1 and {a: 1}.get(b) == 1, "equal objects are distinct set members / dict keys", {**case, "clause": "set"}, 1, len({a, b}))
    return got["<"], got["=="]


def sweep_objects(sw, r, tier):
    rounds = 20 if tier == "quick" else 150
    for c in CLASSES:
        for _ in range(rounds):
            pool = []
            for v in neighbours(c, r):
                try:
                    pool += [(lab, o) for lab, o in spellings(c, v, r, r.randint(2, 3))]
                except Exception:  # noqa: BLE001
                    continue
            lt = {}
            for (i, (la, a)), (j, (lb, b)) in itertools.product(enumerate(pool), repeat=2):
                lt[i, j], _ = check_pair(sw, c, la, a, lb, b)
            n = len(pool)
            for i, j, k in itertools.product(range(n), repeat=3):
                if lt[i, j] and lt[j, k]:
                    sw.check(lt[i, k], "object order is not transitive", {"cls": c, "clause": "transitive", "a": pool[i][0], "b": pool[j][0], "c": pool[k][0]}, True, False)
            for perm in itertools.islice(itertools.permutations(pool), 24):
                objs = [o for _, o in perm]
                top = max(objs)
                sw.check(all(not (top < o) for o in objs), "max of a list is smaller than a member", {"cls": c, "clause": "max", "a": [l for l, _ in perm]}, None, str(top))
    # the spelling classes of a Version
    for group in VERSION_SPELLING_SETS:
        objs = []
        for text, fmt in group:
            try:
                objs.append((f"{text!r} / {fmt!r}", Version.parse(text, fmt)))
            except Exception as e:  # noqa: BLE001
                sw.check(False, "a version spelling is not read", {"cls": "version", "clause": "spelling", "a": text, "b": fmt}, "parsed", f"{type(e).__name__}: {e}")
        for (la, a), (lb, b) in itertools.product(objs, repeat=2):
            check_pair(sw, "version", la, a, lb, b)


def member_grid(kind, r):
    vs = neighbours(kind, r)[: r.randint(2, 3)]
    objs = [gen_fmt.make_obj(kind, v) for v in vs]
    # ascending and without duplicates, so that the last / first index of every grid is the dominating / dominated value
    objs.sort(key=lambda o: o.value)
    out = []
    for o in objs:
        if not out or out[-1].value != o.value:
            out.append(o)
    return out


def sweep_groups(sw, r, tier):
    rounds = 30 if tier == "quick" else 150
    for _ in range(rounds):
        decl = corr_fmt.group_decl(r, r.randint(2, 3))
        G = make_group({nm: corr_fmt.KINDS[k] for nm, k in decl})
        grids = [member_grid(k, r) for _, k in decl]
        combos = list(itertools.product(*[range(len(g)) for g in grids]))
        groups = [G({nm: grids[m][ix[m]] for m, (nm, _) in enumerate(decl)}) for ix in combos]
        vals = [[grids[m][ix[m]].value for m in range(len(decl))] for ix in combos]
        # groups with a member that was never stated (left at its default): they are groups like any other and take part
        # in the product order with the default's value
        extra = []
        for ix in r.sample(combos, min(len(combos), 3)):
            omit = r.randrange(len(decl))
            try:
                g_ = G({nm: grids[m][ix[m]] for m, (nm, _) in enumerate(decl) if m != omit})
                extra.append((g_, [g_.groups[nm].value for nm, _ in decl]))
            except Exception:  # noqa: BLE001
                pass
        for g_, v_ in extra:
            for other, vo in list(zip(groups, vals)) + extra:
                for a, va, b, vb in ((g_, v_, other, vo), (other, vo, g_, v_)):
                    some_lt = any(x < y for x, y in zip(va, vb))
                    some_gt = any(x > y for x, y in zip(va, vb))
                    case = {"decl": [f"{n}:{k}" for n, k in decl], "a": str(a), "b": str(b), "unset": True}
                    sw.note(["gpair-unset", case["decl"], case["a"], case["b"]], "group-pair-unset")
                    try:
                        sw.check((a < b) is (some_lt and not some_gt), "group < is not the strict product order", {**case, "clause": "product-lt"}, some_lt and not some_gt, a < b)
                        sw.check((a > b) is (some_gt and not some_lt), "group > is not the strict product order", {**case, "clause": "product-gt"}, some_gt and not some_lt, a > b)
                        sw.check((a == b) is (not some_lt and not some_gt), "group == is not member-wise equality", {**case, "clause": "product-eq"}, not some_lt and not some_gt, a == b)
                    except Exception as e:  # noqa: BLE001
                        sw.check(False, "comparing groups of one shape raised", {**case, "clause": "product-lt"}, None, f"{type(e).__name__}: {e}")
        dcase = {"decl": [f"{n}:{k}" for n, k in decl]}
        n = len(groups)
        lt, gt, eq = {}, {}, {}
        for i, j in itertools.product(range(n), repeat=2):
            a, b = groups[i], groups[j]
            lt[i, j], gt[i, j], eq[i, j] = a < b, a > b, a == b
            some_lt = any(x < y for x, y in zip(vals[i], vals[j]))
            some_gt = any(x > y for x, y in zip(vals[i], vals[j]))
            case = {**dcase, "a": str(a), "b": str(b)}
            sw.note(["gpair", case["decl"], case["a"], case["b"]], "group-pair")
            sw.check(lt[i, j] is (some_lt and not some_gt), "group < is not the strict product order", {**case, "clause": "product-lt"}, some_lt and not some_gt, lt[i, j])
            sw.check(gt[i, j] is (some_gt and not some_lt), "group > is not the strict product order", {**case, "clause": "product-gt"}, some_gt and not some_lt, gt[i, j])
            sw.check(eq[i, j] is (not some_lt and not some_gt), "group == is not member-wise equality", {**case, "clause": "product-eq"}, not some_lt and not some_gt, eq[i, j])
            if eq[i, j]:
                sw.check(hash(a) == hash(b), "equal groups have different hashes", {**case, "clause": "group-hash"}, True, False)
        for i, j in itertools.product(range(n), repeat=2):
            case = {**dcase, "a": str(groups[i]), "b": str(groups[j])}
            sw.check(gt[i, j] == lt[j, i], "a > b differs from b < a", {**case, "clause": "converse"}, lt[j, i], gt[i, j])
            sw.check(not (lt[i, j] and lt[j, i]), "group order is not asymmetric", {**case, "clause": "asymmetric"}, False, True)
        for i in range(n):
            sw.check(not lt[i, i], "group order is not irreflexive", {**dcase, "a": str(groups[i]), "clause": "irreflexive"}, False, True)
        for i, j, k in itertools.product(range(n), repeat=3):
            if lt[i, j] and lt[j, k]:
                sw.check(lt[i, k], "group order is not transitive", {**dcase, "clause": "transitive", "a": str(groups[i]), "b": str(groups[j]), "c": str(groups[k])}, True, False)
        # max / min / sorted with a dominating and a dominated group, in every input order
        top = combos.index(tuple(len(g) - 1 for g in grids))
        bot = combos.index(tuple(0 for _ in grids))
        others = [i for i in range(n) if i not in (top, bot)]
        for _ in range(3):
            pick = [top, bot] + r.sample(others, min(len(others), r.randint(1, 2)))
            for perm in itertools.permutations(pick):
                lst = [groups[i] for i in perm]
                case = {**dcase, "clause": "max-min", "a": [str(g) for g in lst]}
                sw.note(["perm", case["decl"], case["a"]], "permutation")
                sw.check(max(lst) is groups[top], "max does not return the dominating group", case, str(groups[top]), str(max(lst)))
                sw.check(min(lst) is groups[bot], "min does not return the dominated group", case, str(groups[bot]), str(min(lst)))
                s = sorted(lst)
                sw.check(s[-1] is groups[top] and s[0] is groups[bot], "sorted does not put the dominating group last / the dominated first", {**case, "clause": "sorted"}, None, [str(g) for g in s])
        # different shapes
        decl2 = [(nm + "x", k) for nm, k in decl]
        G2 = make_group({nm: corr_fmt.KINDS[k] for nm, k in decl2})
        g2 = G2({nm + "x": grids[m][0] for m, (nm, _) in enumerate(decl)})
        decl3 = decl[:-1]
        others_g = [g2]
        if decl3:
            G3 = make_group({nm: corr_fmt.KINDS[k] for nm, k in decl3})
            others_g.append(G3({nm: grids[m][0] for m, (nm, _) in enumerate(decl3)}))
        # the same member names with another member class: a different shape too
        swap = {"serial": "storage", "storage": "serial", "datetime": "version", "version": "naming", "naming": "serial"}
        decl4 = [(decl[0][0], swap[decl[0][1]])] + decl[1:]
        try:
            G4 = make_group({nm: corr_fmt.KINDS[k] for nm, k in decl4})
            others_g.append(G4({nm: (gen_fmt.make_obj(k, gen_fmt.value_of(k, r)) if m == 0 else grids[m][0]) for m, (nm, k) in enumerate(decl4)}))
        except Exception:  # noqa: BLE001
            pass
        for og in others_g:
            a = groups[0]
            case = {**dcase, "clause": "shape", "a": str(a), "b": type(og).__name__ + ":" + ",".join(og.base_groups)}
            sw.note(["shape", case["decl"], case["b"]], "shape")
            try:
                sw.check((a == og) is False and (a != og) is True, "groups of different shapes compare equal", case, False, a == og)
            except Exception as e:  # noqa: BLE001
                sw.check(False, "== on groups of different shapes raises", case, False, f"{type(e).__name__}: {e}")
            for op, f in (("<", lambda x, y: x < y), (">", lambda x, y: x > y), ("<=", lambda x, y: x <= y), (">=", lambda x, y: x >= y)):
                try:
                    res = f(a, og)
                    sw.check(False, "groups of different shapes are comparable", {**case, "op": op}, "TypeError", res)
                except TypeError:
                    pass
                except Exception as e:  # noqa: BLE001 - the members were compared although the shapes differ
                    sw.check(False, "comparing groups of different shapes does not raise TypeError", {**case, "op": op}, "TypeError", f"{type(e).__name__}: {e}")


def sweep(tier: str) -> Sweep:
    r = rng("C14")
    sw = Sweep("C14")
    sweep_objects(sw, r, tier)
    sweep_groups(sw, r, tier)
    return sw


def spelled_texts(c, v, r, k):
    """(text, fmt) spellings of value v"""
    cls = CLASSES[c]
    base = gen_fmt.make_obj(c, v)
    out = []
    for _ in range(k * 3):
        if len(out) >= k:
            break
        toks, sep, det, kinds = gen_fmt.fmt_for(c, r, v, **({"complete": True} if c == "datetime" else {}))
        if not det or kinds:
            continue
        fmt = sep.join(toks)
        try:
            out.append((base.format(fmt), fmt))
        except Exception:  # noqa: BLE001
            continue
    if c == "serial":
        out.append(("00" + str(v), "%n"))
    if c == "storage":
        out.append(("00" + str(v), "%b"))
    return out


def obj_cmp_cases(r, n) -> Cases:
    from common import esc
    cs = Cases("objcmp")

    def outcome(cls, v1, f1, v2, f2):
        a, b = cls.parse(v1, f1), cls.parse(v2, f2)
        return "ok:" + ",".join("True" if x else "False" for x in (a < b, a == b, a > b, hash(a) == hash(b)))

    for c in CLASSES:
        for _ in range(n):
            texts = []
            for v in neighbours(c, r)[:3]:
                try:
                    texts += spelled_texts(c, v, r, 2)
                except Exception:  # noqa: BLE001
                    continue
            for (v1, f1), (v2, f2) in r.sample(list(itertools.product(texts, repeat=2)), min(8, len(texts) ** 2)):
                cs.add("obj.cmp", [c, v1, corr_fmt.wopt(f1), v2, corr_fmt.wopt(f2)], lambda cls=CLASSES[c], v1=v1, f1=f1, v2=v2, f2=f2: outcome(cls, v1, f1, v2, f2))
    for group in VERSION_SPELLING_SETS:
        for (v1, f1), (v2, f2) in itertools.product(group, repeat=2):
            cs.add("obj.cmp", ["version", v1, corr_fmt.wopt(f1), v2, corr_fmt.wopt(f2)], lambda v1=v1, f1=f1, v2=v2, f2=f2: outcome(Version, v1, f1, v2, f2))
    return cs


def run(tier: str, drv_ok: bool) -> dict:
    res = {"sweep": sweep(tier)}
    if drv_ok:
        r = rng("C14corr")
        cs = corr_fmt.group_cases(r, 60 if tier == "quick" else 600)
        oc = obj_cmp_cases(r, 12 if tier == "quick" else 120)
        cs.lines += oc.lines; cs.exp += oc.exp; cs.desc += oc.desc; cs.ops.update(oc.ops); cs.kinds.update(oc.kinds)
        res["corr_diffs"] = cs.run()
        res["corr_stats"] = cs.stats()
        res["corr_samples"] = cs.desc[:3]
    return res
