"""C20 — every directive table is well formed, for every class and configuration."""
from __future__ import annotations

import datetime as _dt
import itertools
import re

from common import rng
from framework import Cases, Sweep
import corr_fmt

from fmtutil import Datetime, Naming, Serial, Storage, Version, dict2const, make_const, make_group
from fmtutil.utils import convert_fmt_str

RULE = ("(class, directive) for the five built-in classes, the two asset classes, Config subclasses of Serial/Storage, constant classes made from formatter "
        "instances and from mappings over the 104 directive spellings; (class, directive sequence, prefix, suffix) for every sequence up to length 2 "
        "(quick) / 3 (thorough) and sampled longer ones. distinct = distinct (class, directive[s], prefix, suffix)")
TRUSTED = ["re.compile as the judge of 'compiles'"]
ASSUMPTIONS = ["constants are made from texts free of regex metacharacters unless the case is marked meta"]

META = set(".^$*+?{}[]\\|()")


def classes():
    from fmtutil.__assets import Datetime as AD, Serial as AS

    class Serial5(Serial):
        class Config(Serial.Config):
            serial_max_padding = 5
            serial_max_binary = 12

    class Serial1(Serial):
        class Config(Serial.Config):
            serial_max_padding = 1
            serial_max_binary = 1

    out = {"Serial": Serial, "Datetime": Datetime, "Version": Version, "Naming": Naming, "Storage": Storage, "Serial5": Serial5, "Serial1": Serial1}
    return out, {"AssetSerial": AS, "AssetDatetime": AD}


def check_class(sw: Sweep, name: str, cls, inst, sample_value=None, meta=False):
    table = cls.regex()
    pr = list(inst.priorities.keys()) if inst is not None else None
    slots = set(cls.__slots__) if hasattr(cls, "__slots__") else None
    fm = cls.formatter(sample_value) if sample_value is not None else cls.formatter()
    sw.check(set(table) == set(fm), "the pattern table and the directive table of a class list different directives",
             {"cls": name, "clause": "tables-agree", "meta": meta}, sorted(fm), sorted(table))
    for d, rx in table.items():
        case = {"cls": name, "directive": d, "meta": meta}
        sw.note(["dir", name, d], "directive")
        try:
            cre = re.compile(rx)
        except re.error as e:
            sw.check(False, "the pattern of a directive does not compile", {**case, "clause": "compiles"}, None, f"{rx!r}: {e}")
            continue
        names = list(cre.groupindex)
        sw.check(len(names) > 0, "the pattern captures into no named field", {**case, "clause": "captures"}, None, rx)
        if pr is not None:
            for g in names:
                sw.check(g in pr, "a capture name the class does not know how to interpret", {**case, "clause": "interpretable", "group": g}, None, g)
                if slots is not None:
                    sw.check(g.split("_", 1)[0] in slots, "a capture whose field is not a slot of the class", {**case, "clause": "slot", "group": g})
        v = fm.get(d, {}).get("value")
        sw.check(d in fm and (callable(v) or isinstance(v, str)), "a directive without a renderer", {**case, "clause": "renderer"})


def check_sequences(sw: Sweep, name: str, cls, r, L: int, nsample: int):
    ds = list(cls.regex().keys())
    pr = None
    try:
        pr = set(cls().priorities.keys())
    except Exception:  # noqa: BLE001
        pass
    seqs = [s for k in range(1, L + 1) for s in itertools.product(ds, repeat=k)]
    if len(seqs) > nsample:
        seqs = r.sample(seqs, nsample)
    seqs += [tuple(r.choice(ds) for _ in range(r.randint(3, 7))) for _ in range(nsample // 4)] + [(d,) * 4 for d in ds[:6]]
    for seq in seqs:
        for pre, suf in (("", ""), ("grp___", ""), ("name__1___", "__1")):
            fmt = "_".join(seq)
            case = {"cls": name, "seq": "_".join(seq), "prefix": pre, "suffix": suf}
            sw.note(["seq", name, fmt, pre, suf], "sequence")
            try:
                g = cls.gen_format(fmt, prefix=pre, suffix=suf)
                cre = re.compile(g)
            except Exception as e:  # noqa: BLE001
                sw.check(False, "the pattern generated for a directive sequence does not compile", {**case, "clause": "seq-compiles"}, None, f"{type(e).__name__}: {e}")
                continue
            names = list(cre.groupindex)
            sw.check(len(names) == len(set(names)), "duplicate capture names", {**case, "clause": "seq-distinct"})
            if pr is not None:
                for gname in names:
                    base = gname
                    if pre:
                        sw.check(base.startswith(pre), "a capture name without the group prefix", {**case, "clause": "seq-prefix"}, pre, gname)
                        base = base[len(pre):]
                    base = base.split("__")[0]
                    sw.check(base in pr, "a capture name that does not map back to a field", {**case, "clause": "seq-mapback"}, None, gname)


def sweep(tier: str) -> Sweep:
    r = rng("C20")
    sw = Sweep("C20")
    classic, assets = classes()
    L = 2 if tier == "quick" else 3
    for name, cls in classic.items():
        check_class(sw, name, cls, cls())
        if name.startswith("Serial"):
            # a configuration subclass must get patterns for ITS widths: the renderings of its own
            # directives are accepted by its own patterns
            w = cls.Config.serial_max_padding
            for v in (0, 7, 10 ** w - 1):
                fmv = cls.formatter(v)
                for d in ("%n", "%p", "%b", "%c", "%u"):
                    text = fmv[d]["value"]()
                    sw.note(["config", name, d, v], "config")
                    sw.check(re.fullmatch(cls.regex()[d], text) is not None, "a directive's pattern rejects the class's own rendering (stale or foreign table)",
                             {"cls": name, "directive": d, "clause": "config-pattern", "value": v}, text, cls.regex()[d])
        check_sequences(sw, name, cls, r, L, 400 if tier == "quick" else 4000)
    for name, cls in assets.items():
        table = cls.regex()
        for d, rx in table.items():
            sw.note(["dir", name, d], "directive")
            try:
                cre = re.compile(rx)
                sw.check(len(cre.groupindex) > 0, "the pattern captures into no named field", {"cls": name, "directive": d, "clause": "captures"})
                aliases = {f.alias for f in cls.asset.values()}
                for g in cre.groupindex:
                    sw.check(g in aliases, "a capture name the class does not know how to interpret", {"cls": name, "directive": d, "clause": "interpretable", "group": g})
            except re.error as e:
                sw.check(False, "the pattern of a directive does not compile", {"cls": name, "directive": d, "clause": "compiles"}, None, str(e))
            sw.check(callable(cls.asset[d].fmt), "a directive without a renderer", {"cls": name, "directive": d, "clause": "renderer"})
        check_sequences(sw, name, cls, r, L, 200 if tier == "quick" else 2000)
        # every advertised directive is interpreted, not only matched: what the class prints for a directive is read
        # back into the field the directive renders
        samples = [_dt.datetime(2024, 11, 23, 17, 45, 56), _dt.datetime(2001, 2, 3, 4, 5, 6)] if "Datetime" in name else [181, 7]   # both fit the three-digit and the eight-bit field
        for d in table:
            for v in samples:
                case = {"cls": name, "directive": d, "clause": "asset-interpreted", "meta": False, "value": str(v)}
                sw.note(["asset-interpreted", name, d, str(v)], "asset-interpreted")
                try:
                    if isinstance(v, int):
                        want = {"%n": str(v), "%p": str(v).rjust(3, "0"), "%b": format(v, "08b"), "%c": format(v, ","), "%u": format(v, "_")}.get(d)
                    else:
                        want = v.strftime("%Y%m%d_%H%M%S" if d == "%n" else d) if d in ("%Y", "%m", "%d", "%H", "%M", "%S", "%n") else None
                    text = cls.from_value(v).format(d)
                    if want is not None:
                        sw.check(text == want, "a directive does not render its field of the value", case, want, text)
                        text = want
                    back = cls.parse(text, d).format(d)
                    sw.check(back == text, "a directive's capture is matched but not interpreted (the field is not read back)", case, text, back)
                except Exception as e:  # noqa: BLE001
                    sw.check(False, "the class does not read what it printed for one of its directives", case, None, f"{type(e).__name__}: {str(e)[:80]}")
    # composite directives expand to exactly their parts
    for cls, comp in ((Datetime, {"%n": ["%Y", "%m", "%d", "_", "%H", "%M", "%S"]}), (Version, {"%f": ["%m", "_", "%n", "_", "%c"], "%-f": ["%m", "-", "%n", "-", "%c"]}),
                      (Naming, {"%n": ["%l"], "%N": ["%u"], "%-N": ["%t"], "%-c": ["%p"], "%-K": ["%T"]})):
        t = cls.regex()
        for d, parts in comp.items():
            want = "".join(t[p] if p in t else p for p in parts)
            sw.note(["composite", cls.__name__, d], "composite")
            sw.check(t.get(d) == want, "a composite directive does not expand to exactly its parts", {"cls": cls.__name__, "directive": d, "clause": "composite"}, want, t.get(d))
    # constants: from instances of every class and from mappings over the 104 spellings
    insts = [Serial.from_value(2023), Datetime.from_value(_dt.datetime(2023, 9, 8, 7, 6, 5)), Naming.from_value(["data", "engineer"]), Storage.from_value(8192),
             Version.from_value("1.2.3"), Serial.from_value(r.randrange(10 ** 6)), Naming.from_value(corr_fmt.rand_name(r))]
    for inst in insts:
        vals = inst.values()
        meta = any(isinstance(v, str) and (set(v) & META) for v in vals.values()) or any(v is None for v in vals.values())
        try:
            C = inst.to_const()
            check_class(sw, C.__name__, C, None, meta=meta)
            check_class_const_slots(sw, C, vals, meta)
        except Exception as e:  # noqa: BLE001
            sw.check(False, "to_const failed", {"cls": type(inst).__name__, "clause": "to_const", "meta": meta}, None, f"{type(e).__name__}: {e}")
    spellings = corr_fmt.ALL_DIRECTIVE_SPELLINGS
    conv = [convert_fmt_str(s) for s in spellings]
    sw.note(["convert", "injective"], "convert")
    sw.check(len(set(conv)) == len(conv) == 260 or len(set(conv)) == len(conv), "convert_fmt_str is not injective on the directive spellings", {"clause": "convert-injective"})
    sw.check(all("_" not in x for x in conv), "convert_fmt_str produces an underscore (the attribute would not be its own slot)", {"clause": "convert-underscore"})
    # every regex metacharacter (the backslash included) as part of a constant text: the pattern compiles, matches the text and nothing near it
    special = ["C:\\data\\1", "share\\", "a\\d", "\\", "\\b", "x\\1", "1.0*", "+abc", "(q)", "[z]", "a|b", "$x^", "{2}", "a?b"]
    for i, text in enumerate(special):
        m = {"%a": text, "%b": "plain"}
        try:
            C = dict2const(dict(m), "MetaConst")
            sw.note(["meta-const", text], "meta-const")
            got = C.parse(text, "%a").format("%a")
            sw.check(got == text, "a constant class does not read back its own text", {"cls": "MetaConst", "directive": "%a", "clause": "const-meta", "meta": True, "text": text}, text, got)
            for other in (text + "x", "x" + text, text[:-1] + "7", text.replace("\\", ""), text.swapcase() + "7"):
                if other == text:
                    continue
                try:
                    C.parse(other, "%a")
                    sw.check(False, "a constant class accepts a text that is not its own", {"cls": "MetaConst", "directive": "%a", "clause": "const-meta", "meta": True, "text": text, "other": other}, "rejected", "accepted")
                except Exception:  # noqa: BLE001
                    pass
        except Exception as e:  # noqa: BLE001
            sw.check(False, "the pattern of a constant text does not compile or match the text", {"cls": "MetaConst", "directive": "%a", "clause": "const-meta", "meta": True, "text": text}, text, f"{type(e).__name__}: {e}")
    for _ in range(60 if tier == "quick" else 600):
        m = corr_fmt.rand_mapping(r)
        C = dict2const(m, "MapConst")
        check_class(sw, "MapConst", C, None)
        check_class_const_slots(sw, C, m, False)
        check_sequences(sw, "MapConst", C, r, 2, 30)
    # map-back through the library: inside a group every occurrence after the first carries a suffix, and a directive
    # repeated inside such an occurrence carries a counter as well (x__1___day_pad__1__1): all of them are statements of
    # one field, so equal texts are read as that field and unequal texts are refused
    for name, G, d, fmt, text, bad, t1 in corr_fmt.group_inner_repeats():
        case = {"cls": name, "directive": d, "clause": "group-mapback", "fmt": fmt, "text": text, "meta": False}
        sw.note(["group-mapback", name, fmt, text], "group-mapback")
        try:
            g = G.parse(text, fmt)
            got = g.groups["x"].format(d)
        except Exception as e:  # noqa: BLE001
            sw.check(bad is not None, "equal statements of one field in a group are refused", case, t1, f"{type(e).__name__}: {str(e)[:80]}")
            continue
        if bad is None:
            sw.check(got == t1, "repeated captures of a group do not map back to their field", case, t1, got)
        else:
            sw.check(False, "unequal statements of one field in a group are accepted (a repeated capture is not mapped back to its field)", case, "refused", got)
    return sw


def check_class_const_slots(sw, C, mapping, meta):
    for d in mapping:
        sw.check(convert_fmt_str(d) in C.__slots__, "a constant directive whose field is not a slot", {"cls": C.__name__, "directive": d, "clause": "slot", "meta": meta})


def run(tier: str, drv_ok: bool) -> dict:
    res = {"sweep": sweep(tier)}
    if drv_ok:
        r = rng("C20corr")
        n = 60 if tier == "quick" else 500
        cs = Cases("C20")
        for name in ("serial", "datetime", "naming", "version", "storage", "const", "assets"):
            sub = getattr(corr_fmt, name + "_cases")(r, n)
            keep = [i for i, l in enumerate(sub.lines) if ("gen_format" in l.split("\t")[0] or "regex" in l.split("\t")[0] or "convert" in l.split("\t")[0])]
            for i in keep:
                cs.lines.append(sub.lines[i]); cs.exp.append(sub.exp[i]); cs.desc.append(sub.desc[i]); cs.ops[sub.lines[i].split("\t")[0]] += 1
        res["corr_diffs"] = cs.run()
        res["corr_stats"] = cs.stats()
        res["corr_samples"] = cs.desc[:3]
    return res
