"""C10 — version match expressions denote the documented version sets."""
from __future__ import annotations

import itertools

from common import rng
from framework import Sweep
import corr_ver
from gen_ver import CLS, parse_ok

RULE = ("(class, v, operator, w) over a cube of release numbers incl. 0, 9, 10, 99 and carries, with pre-release tags for the semantic and packaging "
        "classes; wildcard shapes; a malformed corpus. Expected answers come from interval semantics on the class's own operators "
        "(w <= v < bound), never from match(). distinct = distinct (class, v, expr)")
TRUSTED = ["operator semantics proved for all v, w with a key; wildcard bounds and str(w) round trip are validated by the sweep only"]
ASSUMPTIONS = ["the class parser decides which operand texts are versions (C04 covers the parser itself)"]

NUMS = [0, 1, 2, 9, 10, 99, 100]
OPS = {">": lambda v, w: v > w, "<": lambda v, w: v < w, "==": lambda v, w: v == w, "!=": lambda v, w: v != w,
       ">=": lambda v, w: v >= w, "<=": lambda v, w: v <= w, "": lambda v, w: v == w}
MALFORMED = ["", " ", "=1.2.3", "=>1.2.3", ">= 1.2.3", "> 1.2.3", "1.2.3 ", " 1.2.3", ">=", "^", "~=", "~", "x1.2.3", "^x", ">1.2.x", "<.1.2",
             "===1.2.3", "!1.2.3", "~~1.2.3", "^^1.2.3", ">=1..3", "<1.2.3.4.5", "*", "1.*", "latest", "v", "<>1.2.3", "^-1.2.3"]


def bound_caret(cls, w):
    if w.major > 0:
        return cls(major=w.major + 1, minor=0, patch=0)
    if w.minor > 0:
        return cls(major=0, minor=w.minor + 1, patch=0)
    if w.patch > 0:
        return cls(major=0, minor=0, patch=w.patch + 1)
    return None


def bound_tilde(cls, w):
    if w.patch > 0:
        return cls(major=w.major, minor=w.minor + 1, patch=0)
    return cls(major=w.major + 1, minor=0, patch=0)


def versions(c, r, n):
    out = []
    tags = {"base": [""], "sem": ["", "-rc1", "-alpha.2", "-1"], "pkg": ["", "rc1", "a2", ".post1", ".dev3"]}[c]
    for _ in range(n):
        rel = ".".join(str(r.choice(NUMS)) for _ in range(3))
        out.append(rel + r.choice(tags))
    grid = [f"{a}.{b}.{d}" for a in (0, 1, 9, 10) for b in (0, 9, 10) for d in (0, 1, 99)]
    return list(dict.fromkeys(grid + out))


def sweep(tier: str) -> Sweep:
    r = rng("C10")
    sw = Sweep("C10")
    n = 40 if tier == "quick" else 200
    npairs = 1500 if tier == "quick" else 30000
    for c, cls in CLS.items():
        vs = [(s, o) for s in versions(c, r, n) if (o := parse_ok(cls, s)) is not None]
        for _ in range(npairs):
            (sv, v), (sw_, w) = r.choice(vs), r.choice(vs)
            for op in list(OPS) + ["^", "~=", "~"]:
                expr = op + sw_
                case = {"cls": c, "v": sv, "expr": expr, "op": op or "bare"}
                sw.note(["match", c, sv, expr], op or "bare")
                try:
                    got = v.match(expr)
                except Exception as e:  # noqa: BLE001
                    sw.check(False, "match raised on a well-formed expression", {**case, "clause": "no-exception"}, "a bool", f"{type(e).__name__}: {e}")
                    continue
                if op in OPS:
                    want = bool(OPS[op](v, w))
                elif op == "^":
                    b = bound_caret(cls, w)
                    if b is None:
                        continue  # ^0.0.0 has no first non-zero component: outside the statement
                    want = bool(w <= v and v < b)
                else:
                    want = bool(w <= v and v < bound_tilde(cls, w))
                sw.check(got is want, f"{op or 'bare'} does not denote the documented set", {**case, "clause": "denotation"}, want, got)
        # the caret on 0.x and 0.0.x versions, every boundary: the first non-zero component decides the bound
        for (a, b_, z) in [(0, 0, 1), (0, 0, 3), (0, 0, 9), (0, 0, 10), (0, 0, 99), (0, 1, 0), (0, 1, 5), (0, 9, 9), (0, 10, 0), (1, 0, 0), (9, 9, 9)]:
            w = cls(major=a, minor=b_, patch=z)
            cands = {(a, b_, z), (a, b_, z + 1), (a, b_ + 1, 0), (a + 1, 0, 0), (a, b_, max(z - 1, 0)), (a, b_, z + 90), (a, b_ + 9, 1), (0, 0, 0)}
            for t in sorted(cands):
                v = cls(major=t[0], minor=t[1], patch=t[2])
                expr = "^" + str(w)
                bnd = bound_caret(cls, w)
                want = bool(w <= v and v < bnd)
                sw.note(["caret", c, str(v), expr], "^")
                try:
                    got = v.match(expr)
                    sw.check(got is want, "^ does not denote the documented set", {"cls": c, "v": str(v), "expr": expr, "op": "^", "clause": "denotation"}, want, got)
                except Exception as e:  # noqa: BLE001
                    sw.check(False, "match raised on a well-formed expression", {"cls": c, "v": str(v), "expr": expr, "op": "^", "clause": "no-exception"}, "a bool", f"{type(e).__name__}: {e}")
        # an operand that carries a tag: the upper bound is still the plain next release, so the pre-releases of the
        # bound are inside the range and the bound itself is not
        tags = {"base": [""], "sem": ["", "-rc1", "-alpha.2", "-1", "-rc2", "-zz"], "pkg": ["", "rc1", "a2", ".post1", ".dev3", "rc2", "rc1.dev3"]}[c]
        for (a, b_, z) in [(1, 2, 3), (0, 2, 3), (0, 0, 3), (1, 2, 0), (1, 0, 0)]:
            for tw in tags:
                w = parse_ok(cls, f"{a}.{b_}.{z}{tw}")
                if w is None:
                    continue
                for op, bnd in (("^", bound_caret(cls, w)), ("~=", bound_tilde(cls, w)), ("~", bound_tilde(cls, w))):
                    rels = {(a, b_, z), (bnd.major, bnd.minor, bnd.patch), (a, b_, z + 1)}
                    for rel in sorted(rels):
                        for tv in tags:
                            sv = "%d.%d.%d%s" % (*rel, tv)
                            v = parse_ok(cls, sv)
                            if v is None:
                                continue
                            expr = op + str(w)
                            want = bool(w <= v and v < bnd)
                            case = {"cls": c, "v": sv, "expr": expr, "op": op, "clause": "denotation"}
                            sw.note(["tagged", c, sv, expr], op)
                            try:
                                got = v.match(expr)
                                sw.check(got is want, f"{op} with a tagged operand does not denote the documented set", case, want, got)
                            except Exception as e:  # noqa: BLE001
                                sw.check(False, "match raised on a well-formed expression", {**case, "clause": "no-exception"}, "a bool", f"{type(e).__name__}: {e}")
        # one version in several spellings (and versions that differ only in build / local label): the comparison
        # operators of an expression answer exactly as the class's own operators do
        variants = {"base": [], "sem": ["1.2.3-rc.1", "1.2.3-rc1", "1.2.3-rc.2", "1.2.3-alpha.2", "1.2.3-alpha2", "1.2.3+b1", "1.2.3+b2", "1.2.3", "1.2.3-rc.1+b1"],
                    "pkg": ["1.2.3rc1", "1.2.3-rc.1", "1.2.3c1", "1.2.3_pre_1", "1.2.3a2", "1.2.3alpha2", "1.2.3.post1", "1.2.3-1", "1.2.3rev1", "1.2.3+abc", "1.2.3+abd", "1.2.3",
                            "1.2.3.dev4", "1.2.3dev4", "0!1.2.3", "1.2.3+abc.1", "1.2.3+abc-1"]}[c]
        vobjs = [(s_, o_) for s_ in variants if (o_ := parse_ok(cls, s_)) is not None]
        for (sv, v), (sw_, w) in itertools.product(vobjs, repeat=2):
            for op in OPS:
                expr = op + sw_
                case = {"cls": c, "v": sv, "expr": expr, "op": op or "bare", "clause": "denotation"}
                sw.note(["variant", c, sv, expr], op or "bare")
                try:
                    got = v.match(expr)
                    sw.check(got is bool(OPS[op](v, w)), f"{op or 'bare'} does not coincide with the comparison operator on another spelling of the operand", case, bool(OPS[op](v, w)), got)
                except Exception as e:  # noqa: BLE001
                    sw.check(False, "match raised on a well-formed expression", {**case, "clause": "no-exception"}, "a bool", f"{type(e).__name__}: {e}")
        # wildcards
        for x, y in itertools.product(NUMS, NUMS):
            for expr, lo, hi in ((f"{x}.*", (x, 0, 0), (x + 1, 0, 0)), (f"{x}.{y}.*", (x, y, 0), (x, y + 1, 0))):
                case = {"cls": c, "expr": expr, "clause": "wildcard"}
                sw.note(["wild", c, expr], "wildcard")
                try:
                    a, b = cls.extract_wildcard(expr)
                    ok = a == cls(major=lo[0], minor=lo[1], patch=lo[2]) and b == cls(major=hi[0], minor=hi[1], patch=hi[2])
                    sw.check(bool(ok), "wildcard bounds are wrong", case, [lo, hi], [str(a), str(b)])
                except Exception as e:  # noqa: BLE001
                    sw.check(False, "wildcard raised", case, [lo, hi], f"{type(e).__name__}: {e}")
        sw.note(["wild", c, "*"], "wildcard")
        try:
            a, b = cls.extract_wildcard("*")
            sw.check(a == cls(major=0, minor=0, patch=0) and all(b > o for _, o in vs[:20]) and not any(b < o for _, o in vs[:20]),
                     "`*` is not [0.0.0, infinity)", {"cls": c, "expr": "*", "clause": "wildcard"})
        except Exception as e:  # noqa: BLE001
            sw.check(False, "wildcard raised", {"cls": c, "expr": "*", "clause": "wildcard"}, None, f"{type(e).__name__}: {e}")
        # a wildcard anywhere but in the last position, or around something that is not a number, is malformed
        for e in ["2.*.1", "0.*.0", "1.*.9", "10.*.10", "9.*.99", "*.1", "*.*", "1.2.3.*", "x.*", ".*", "1..*", "1.-*", "**"]:
            case = {"cls": c, "expr": e, "clause": "malformed-wildcard"}
            sw.note(["malformed-wild", c, e], "malformed")
            try:
                got = cls.extract_wildcard(e)
                sw.check(False, "a malformed wildcard was answered", case, "ValueError", [str(x) for x in got])
            except ValueError:
                pass
            except Exception as ex:  # noqa: BLE001
                sw.check(False, "a malformed wildcard raised something else than ValueError", case, "ValueError", type(ex).__name__)
        # malformed expressions raise ValueError rather than answering
        v = vs[0][1]
        for e in MALFORMED + [o + m for o in ("", ">", "^", "~=") for m in ("1.2", "1", "1.2.x", "01.2.3", "1.2.3.4")]:
            ops = [">=", "<=", "==", "!=", "~=", ">", "<", "^", "~"]
            op = next((o for o in ops if e.startswith(o)), "")
            operand = e[len(op):]
            wellformed = (op != "" or (operand[:1].isdigit())) and parse_ok(cls, operand) is not None and operand[:1].isdigit()
            if wellformed:
                continue
            case = {"cls": c, "expr": e, "clause": "malformed"}
            sw.note(["malformed", c, e], "malformed")
            try:
                got = v.match(e)
                sw.check(False, "a malformed expression was answered", case, "ValueError", got)
            except ValueError:
                pass
            except Exception as ex:  # noqa: BLE001
                sw.check(False, "a malformed expression raised something else than ValueError", case, "ValueError", type(ex).__name__)
    return sw


def run(tier: str, drv_ok: bool) -> dict:
    res = {"sweep": sweep(tier)}
    if drv_ok:
        cs = corr_ver.build(rng("C10corr"), 200 if tier == "quick" else 2000, which=("match", "parse", "misc"))
        res["corr_diffs"] = cs.run()
        res["corr_stats"] = cs.stats()
        res["corr_samples"] = cs.desc[:3]
    return res
