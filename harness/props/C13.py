"""C13 — version objects are immutable; next_version never goes backwards."""
from __future__ import annotations

from common import rng
from framework import Sweep
import corr_ver
import re

from gen_ver import CLS, base_strings, exhaustive_pkg_small, parse_ok, pkg_strings, sem_same_release, sem_strings

RULE = ("(class, version, part) for every part the class lists as valid, versions from the bounded grammars of C07; operation sequences of "
        "length <= 6 applied to one receiver with to_tuple()/str/hash snapshots; distinct = distinct (class, version, part) or (class, version, ops)")
TRUSTED = ["next_version is proved non-decreasing for the release parts of the plain class and the bump/reset shapes; the pre/post/dev parts "
           "(which go through increment on arbitrary tag texts) are validated by the sweep and the correspondence only"]
ASSUMPTIONS = ["objects have no __dict__: attribute assignment can only go through __setattr__ (checked on the real objects)"]


def has_number(s):
    return s is not None and any(ch.isdigit() for ch in s)


def sweep(tier: str) -> Sweep:
    r = rng("C13")
    sw = Sweep("C13")
    n = 80 if tier == "quick" else 600
    carry = [f"{rel}{seg}" for rel in ("1.0", "1.2.3", "2!0.0.9") for seg in ("rc9", "rc.9", "a99", ".post9", "-9", ".post.99", ".dev9", "dev99", "rc9.post9.dev9", "b09", ".post09", "rc", ".post", ".dev")]
    pools = {"base": base_strings(r, n) + ["9.9.9", "99.99.99", "0.0.0", "0.9.0"],
             "sem": sem_strings(r, n) + [s for ss in sem_same_release().values() for s in ss] + ["1.0.3-rc.1", "1.2.0-rc.1", "1.0.0-rc.1", "0.0.0-rc", "1.0.3+b", "1.2.0+b"],
             "pkg": pkg_strings(r, n) + carry + r.sample(exhaustive_pkg_small(), min(4 * n, 1400))}
    for c, strs in pools.items():
        cls = CLS[c]
        objs = [(s, o) for s in dict.fromkeys(strs) if (o := parse_ok(cls, s)) is not None]
        valid = {"base": cls.__slots__, "sem": cls.__slots__[:-1], "pkg": cls.__slots__[:-1]}[c]
        order = list(cls.__slots__)
        for s, o in objs:
            before = (o.to_tuple(), str(o), hash(o))
            for part in valid:
                case = {"cls": c, "v": s, "part": part}
                if c == "sem" and part == "pre" and o.pre:
                    # how the class reads the tag: letters+number (compared numerically) or plain text
                    case["pre_kind"] = "letter+number" if re.fullmatch(r"[._-]?[a-zA-Z]+[._-]?\d+", o.pre) else "text"
                    m_ = re.findall(r"\d+", o.pre)
                    case["carry"] = bool(m_) and set(m_[-1]) == {"9"}
                sw.note(["next", c, s, part], part)
                try:
                    nv = o.next_version(part)
                except Exception as e:  # noqa: BLE001
                    sw.check(False, "next_version raised for a part the class names as valid", {**case, "clause": "returns"}, "a version", f"{type(e).__name__}: {e}")
                    continue
                if not sw.check(isinstance(nv, cls), "next_version did not return a version object", {**case, "clause": "returns"}, cls.__name__, repr(nv)[:80]):
                    continue
                try:
                    lower = bool(nv < o)
                    higher = bool(nv > o)
                except Exception as e:  # noqa: BLE001
                    sw.check(False, "comparing the result raised", {**case, "clause": "never-lower"}, None, f"{type(e).__name__}: {e}")
                    continue
                sw.check(not lower, "next_version went backwards", {**case, "clause": "never-lower"}, f">= {o}", str(nv))
                meta = getattr(o, "build", None) or getattr(o, "local", None)
                pre = getattr(o, "pre", None)
                if not meta and (not pre or has_number(pre)):
                    sw.check(higher, "next_version is not strictly higher", {**case, "clause": "strictly-higher"}, f"> {o}", str(nv))
                # lower-order release parts are reset
                if part in ("epoch", "major", "minor"):
                    rel = ["epoch", "major", "minor", "patch"]
                    lowers = rel[rel.index(part) + 1:]
                    sw.check(all(getattr(nv, q) == 0 for q in lowers), "lower-order parts are not reset", {**case, "clause": "reset"}, None, str(nv))
                if part in ("major", "minor", "patch") and c != "base" or part == "epoch":
                    for q in ("pre", "post", "dev", "local", "build"):
                        if hasattr(nv, q):
                            sw.check(not getattr(nv, q), "lower-order segments are not reset", {**case, "clause": "reset-seg"}, None, str(nv))
                # raising a segment resets the segments below it (packaging: pre > post > dev > local; semantic: pre > build)
                segs = {"pkg": ["pre", "post", "dev", "local"], "sem": ["pre", "build"]}.get(c, [])
                if part in segs:
                    for q in segs[segs.index(part) + 1:]:
                        sw.check(not getattr(nv, q, None), "lower-order segments are not reset", {**case, "clause": "reset-seg-below"}, None, str(nv))
                sw.check(nv is not o, "next_version returned the receiver itself", {**case, "clause": "new-object"})
            # bump_major / minor / patch
            for which, exp in (("major", (o.major + 1, 0, 0)), ("minor", (o.major, o.minor + 1, 0)), ("patch", (o.major, o.minor, o.patch + 1))):
                b = getattr(o, "bump_" + which)()
                sw.note(["bump", c, s, which], "bump")
                sw.check((b.major, b.minor, b.patch) == exp, f"bump_{which} gives the wrong release", {"cls": c, "v": s, "part": which, "clause": "bump"}, exp, str(b))
            # immutability: assigning raises, nothing changes
            for slot in order:
                sw.note(["setattr", c, s, slot], "setattr")
                try:
                    setattr(o, slot, 5)
                    sw.check(False, "assignment to a field did not raise", {"cls": c, "v": s, "part": slot, "clause": "setattr"})
                    o = parse_ok(cls, s)   # the receiver is corrupted now: continue with a fresh one
                except AttributeError:
                    pass
                except Exception as e:  # noqa: BLE001
                    sw.check(False, "assignment raised something else than AttributeError", {"cls": c, "v": s, "part": slot, "clause": "setattr"}, None, type(e).__name__)
            # a sequence of reading operations does not change the receiver
            ops = []
            for _ in range(6):
                k = r.randrange(7)
                try:
                    if k == 0:
                        o.next_version(r.choice(list(valid) + ["zzz"])); ops.append("next")
                    elif k == 1:
                        getattr(o, "bump_" + r.choice(["major", "minor", "patch"]))(); ops.append("bump")
                    elif k == 2:
                        o.replace(major=r.choice([0, 7])); ops.append("replace")
                    elif k == 3:
                        o.compare(r.choice(objs)[1]); ops.append("compare")
                    elif k == 4:
                        o.match(r.choice([">=", "^", "~=", "<"]) + r.choice(objs)[0]); ops.append("match")
                    elif k == 5:
                        hash(o); ops.append("hash")
                    else:
                        str(o); ops.append("str")
                except Exception:  # noqa: BLE001
                    ops.append("raised")
            sw.note(["frame", c, s, ops], "frame")
            try:
                after = (o.to_tuple(), str(o), hash(o))
            except Exception as e:  # noqa: BLE001
                after = f"{type(e).__name__}: {e}"
            sw.check(after == before, "the receiver changed", {"cls": c, "v": s, "clause": "frame", "ops": ops}, before, after)
    return sw


def run(tier: str, drv_ok: bool) -> dict:
    res = {"sweep": sweep(tier)}
    if drv_ok:
        cs = corr_ver.build(rng("C13corr"), 250 if tier == "quick" else 2500, which=("bump", "parse", "misc"))
        res["corr_diffs"] = cs.run()
        res["corr_stats"] = cs.stats()
        res["corr_samples"] = cs.desc[:3]
    return res
