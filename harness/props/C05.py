"""C05 — redundant information is cross-checked, independent of field order."""
from __future__ import annotations

import datetime as _dt
import itertools

from common import rng
from framework import Cases, Sweep
import corr_fmt
import gen_fmt
import spec

from fmtutil import Datetime, Naming, Serial, Storage, Version
from fmtutil.exceptions import FormatterError

RULE = ("(formatter, value v, redundant format = a determining set of directives plus 1..5 further ones, permutation, strict) and single-field perturbations "
        "(one field's text replaced by the rendering of another value w). Whether the statements agree is decided by an independent statement semantics "
        "(harness/props/C05.py:agree_*), texts come from the independent renderers of harness/spec.py where available. distinct = distinct "
        "(formatter, texts, format, strict)")
TRUSTED = ["the statement semantics agree_* in this file", "harness/spec.py"]
ASSUMPTIONS = ["12-hour directives only with %p; two-digit years only for 1900..1999"]

# ------------------------------------------------------------------------------------------------ Datetime statements


def dt_tuple(t: _dt.datetime):
    return (t.year, t.month, t.day, t.hour, t.minute, t.second, t.microsecond)


def dt_agree(toks, texts):
    """the instant all statements agree on, or None.  Independent of fmtutil: brute force over the days
    of the stated year and the seconds of the day fields."""
    year = None
    for d, x in zip(toks, texts):
        if d in ("%Y", "%y", "%-y"):
            y = int(x) if d == "%Y" else 1900 + int(x)
            if year is not None and year != y:
                return None
            year = y
    if year is None:
        year = 1900
    cands = []
    for m in range(1, 13):
        for day in range(1, spec.days_in_month(year, m) + 1):
            t = (year, m, day, 0, 0, 0, 0)
            ok = True
            for d, x in zip(toks, texts):
                if d in ("%m", "%-m", "%b", "%B", "%d", "%-d", "%j", "%-j", "%U", "%W", "%w", "%u", "%a", "%A"):
                    if spec.strftime_spec(d, t) != x:
                        ok = False
                        break
            if ok:
                cands.append((m, day))
    has_date_info = any(d in ("%m", "%-m", "%b", "%B", "%d", "%-d", "%j", "%-j", "%U", "%W") for d in toks)
    if not cands:
        return None
    if len(cands) > 1:
        if not has_date_info:
            # only weekday statements (or nothing): they qualify the default date
            cands = [c for c in cands if c == (1, 1)]
            if not cands:
                return None
        else:
            return "ambiguous"
    m, day = cands[0]
    # time of day
    hour = None
    for d, x in zip(toks, texts):
        if d in ("%H", "%-H"):
            h = int(x)
            if hour is not None and hour != h:
                return None
            hour = h
    ampm = [x for d, x in zip(toks, texts) if d == "%p"]
    h12 = [int(x) for d, x in zip(toks, texts) if d in ("%I", "%-I")]
    if len(set(ampm)) > 1 or len(set(h12)) > 1:
        return None
    if h12:
        if not ampm:
            return "ambiguous"
        h = h12[0] % 12 + (12 if ampm[0] == "PM" else 0)
        if hour is not None and hour != h:
            return None
        hour = h
    elif ampm:
        hh = hour if hour is not None else 0
        if ("PM" if hh >= 12 else "AM") != ampm[0]:
            return None
    vals = {}
    for key, ds in (("M", ("%M", "%-M")), ("S", ("%S", "%-S")), ("f", ("%f",))):
        xs = {int(x) for d, x in zip(toks, texts) if d in ds}
        if len(xs) > 1:
            return None
        vals[key] = xs.pop() if xs else 0
    return (year, m, day, hour if hour is not None else 0, vals["M"], vals["S"], vals["f"])


def dt_kinds(toks, texts, want):
    kinds = set()
    if any(d in ("%a", "%A") for d in toks):
        for d, x in zip(toks, texts):
            if d in ("%a", "%A") and x[:3] in ("Tue", "Thu"):
                kinds.add("weekday-name-tue-thu")
    for d, x in zip(toks, texts):
        if d == "%-H" and len(x) == 1:
            kinds.add("unpadded-hour")
    if any(d in ("%j", "%-j") for d in toks) and any(d in ("%d", "%-d") for d in toks):
        kinds.add("doy-with-day")
    if "%U" in toks and "%W" in toks:
        kinds.add("two-week-counts")
    # a week number that no day of the stated year has (week 00 when 1 January opens week 01)
    year = next((int(x) if d == "%Y" else 1900 + int(x) for d, x in zip(toks, texts) if d in ("%Y", "%y", "%-y")), 1900)
    for d, x in zip(toks, texts):
        if d in ("%U", "%W"):
            f = spec.week_u if d == "%U" else spec.week_w
            if not any(f"{f(year, m, dd):02d}" == x for m in range(1, 13) for dd in range(1, spec.days_in_month(year, m) + 1)):
                kinds.add("nonexistent-week")
    return kinds


def dt_case(r, tier):
    t = corr_fmt.rand_dt(r)
    toks, det, kinds = gen_fmt.datetime_fmt(r, t, complete=True)
    if "%n" in toks:
        toks = ["%Y", "%m", "%d", "%H", "%M", "%S", "%f"]
    pool = ["%m", "%-m", "%b", "%B", "%d", "%-d", "%j", "%-j", "%w", "%u", "%a", "%A", "%H", "%M", "%-M", "%S", "%-S", "%p", "%U", "%W", "%Y"]
    if 1900 <= t.year <= 1999:
        pool += ["%y", "%-y"]
    extra = [r.choice(pool) for _ in range(r.randint(1, 5 if tier == "thorough" else 3))]
    toks = toks + extra
    tt = dt_tuple(t)
    texts = [spec.strftime_spec(d, tt) for d in toks]
    return toks, texts, t


# ------------------------------------------------------------------------------------------------ other classes

def serial_case(r):
    n = r.choice(corr_fmt.SERIAL_VALUES[:14] + [r.randrange(10 ** 9)])
    ds = ["%n", "%b", "%c", "%u"] + (["%p"] if n < 1000 else [])
    toks = [r.choice(ds) for _ in range(r.randint(2, 5))]
    fm = Serial.formatter(n)
    return toks, [fm[d]["value"]() for d in toks], n


def serial_agree(toks, texts):
    vals = set()
    for d, x in zip(toks, texts):
        try:
            vals.add(int(x, 2) if d == "%b" else int(x.replace(",", "").replace("_", "")))
        except ValueError:
            return None
    return vals.pop() if len(vals) == 1 else None


def storage_case(r):
    units = ["%B", "%K", "%M", "%G", "%T", "%P", "%E", "%Z", "%Y"]
    k = r.randint(0, 4)
    bits = spec.unit_factor(k) * r.choice([1, 2, 3, 10, 1024, 5000, r.randrange(1, 10 ** 6)])
    ok = [u for j, u in enumerate(units) if bits % spec.unit_factor(j) == 0]
    toks = [r.choice(["%b"] + ok) for _ in range(r.randint(2, 4))]
    texts = [str(bits) if d == "%b" else f"{bits // spec.unit_factor(units.index(d))}{spec.UNITS[units.index(d)]}" for d in toks]
    return toks, texts, bits


def storage_agree(toks, texts):
    units = ["%B", "%K", "%M", "%G", "%T", "%P", "%E", "%Z", "%Y"]
    vals = set()
    for d, x in zip(toks, texts):
        if d == "%b":
            vals.add(int(x))
        else:
            j = units.index(d)
            vals.add(int(x[: -len(spec.UNITS[j])]) * spec.unit_factor(j))
    return vals.pop() if len(vals) == 1 else None


def version_case(r):
    rel = [r.choice([0, 1, 2, 10, 99, 999]) for _ in range(3)]
    ep = r.choice([0, 1, 2])
    base = ["%m", "%n", "%c"]
    extra = [r.choice(["%m", "%n", "%c", "%f", "%-e", "%e"]) for _ in range(r.randint(1, 3))]
    toks = base + extra
    def text(d):
        return {"%m": str(rel[0]), "%n": str(rel[1]), "%c": str(rel[2]), "%f": "_".join(map(str, rel)), "%-e": str(ep), "%e": f"{ep}!"}[d]
    return toks, [text(d) for d in toks], (ep, *rel)


def version_agree(toks, texts):
    f = {}
    for d, x in zip(toks, texts):
        parts = {"%m": [("M", x)], "%n": [("m", x)], "%c": [("p", x)], "%-e": [("e", x)], "%e": [("e", x.rstrip("!"))]}.get(d)
        if d == "%f":
            a = x.split("_")
            parts = [("M", a[0]), ("m", a[1]), ("p", a[2])]
        for k, val in parts:
            if k in f and f[k] != int(val):
                return None
            f[k] = int(val)
    return (f.get("e", 0), f.get("M", 0), f.get("m", 0), f.get("p", 0))


def naming_case(r):
    ws = corr_fmt.rand_name(r)
    while any(ch.isdigit() for w in ws for ch in w) or any(len(w) < 2 for w in ws):
        ws = corr_fmt.rand_name(r)
    full = [d for d in spec.FULL_NAME_STYLES if d not in gen_fmt.TITLE | gen_fmt.CAMEL or len(ws) >= 2]
    toks = [r.choice(full)] + [r.choice(full + spec.ABBREV_STYLES[:4] + (["%v", "%V"] if any(ch not in "aeiou" for ch in "".join(ws)) else [])) for _ in range(r.randint(1, 3))]
    return toks, [spec.style(d, ws) for d in toks], ws


def naming_agree(toks, texts, candidates):
    """the name all statements agree on among the candidate names (the original and the perturbing one)"""
    for ws in candidates:
        if all(spec.style(d, ws) == x for d, x in zip(toks, texts)):
            return ws
    return None


# ------------------------------------------------------------------------------------------------ the sweep

def outcome(cls, text, fmt, strict):
    try:
        o = cls.parse(text, fmt, strict=strict)
        return ("ok", o.value)
    except FormatterError as e:
        return ("reject", type(e).__name__)
    except Exception as e:  # noqa: BLE001
        return ("foreign", f"{type(e).__name__}: {e}")


def judge(sw, c, cls, toks, texts, want, kinds, r, perms=3, value_eq=None):
    """want: the agreed value, None (disagree), or 'ambiguous' (skip the exactness clause)"""
    sep = r.choice(corr_fmt.SEPS[c])
    base = list(zip(toks, texts))
    orders = [base] + [r.sample(base, len(base)) for _ in range(perms)]
    seen = {}
    for strict in (False, True):
        outs = []
        for od in orders:
            fmt = sep.join(d for d, _ in od)
            text = sep.join(x for _, x in od)
            out = outcome(cls, text, fmt, strict)
            outs.append((fmt, text, out))
            sw.note(["c05", c, text, fmt, strict], c)
        kind = ",".join(sorted(kinds)) or "plain"
        first = outs[0]
        for fmt, text, out in outs[1:]:
            same = out[0] == first[2][0] and (out[0] != "ok" or (value_eq(out[1], first[2][1]) if value_eq else out[1] == first[2][1]))
            sw.check(same, "the result depends on the order of the fields", {"cls": c, "fmt": fmt, "text": text, "strict": strict, "clause": "order", "kind": kind},
                     str(first[2]), str(out))
        fmt, text, out = first
        case = {"cls": c, "fmt": fmt, "text": text, "strict": strict, "kind": kind}
        sw.check(out[0] != "foreign", "a foreign exception", {**case, "clause": "family"}, "FormatterError", str(out[1]))
        if strict and not (isinstance(want, str) and want == "ambiguous"):
            if want is None:
                sw.check(out[0] != "ok", "strict parsing accepts statements that disagree", {**case, "clause": "strict-rejects"}, "rejected", str(out[1]))
            else:
                ok = out[0] == "ok" and (value_eq(out[1], want) if value_eq else out[1] == want)
                sw.check(ok, "strict parsing does not yield the value the statements agree on", {**case, "clause": "strict-accepts"}, str(want), str(out[1]))
        seen[strict] = out
    if seen[True][0] == "ok":
        ns = seen[False]
        ok = ns[0] == "ok" and (value_eq(ns[1], seen[True][1]) if value_eq else ns[1] == seen[True][1])
        sw.check(ok, "strict parsing succeeds but non-strict parsing differs", {"cls": c, "fmt": orders[0] and sep.join(d for d, _ in orders[0]),
                 "text": sep.join(x for _, x in orders[0]), "clause": "strict-implies-nonstrict", "kind": ",".join(sorted(kinds)) or "plain"}, str(seen[True][1]), str(ns))


def sweep(tier: str) -> Sweep:
    r = rng("C05")
    sw = Sweep("C05")
    n = 150 if tier == "quick" else 3000
    import decimal
    from fmtutil import VerPackage
    for _ in range(n):
        # Datetime ---------------------------------------------------------------------------------
        toks, texts, t = dt_case(r, tier)
        want = dt_agree(toks, texts)
        wv = _dt.datetime(*want) if isinstance(want, tuple) else want
        judge(sw, "datetime", Datetime, toks, texts, wv, dt_kinds(toks, texts, want), r)
        t2 = corr_fmt.rand_dt(r)
        j = r.randrange(len(toks))
        p = list(texts)
        p[j] = spec.strftime_spec(toks[j], dt_tuple(t2))
        if p != texts:
            want = dt_agree(toks, p)
            wv = _dt.datetime(*want) if isinstance(want, tuple) else want
            judge(sw, "datetime", Datetime, toks, p, wv, dt_kinds(toks, p, want) | {"perturbed"}, r, perms=1)
        # Serial -----------------------------------------------------------------------------------
        toks, texts, nval = serial_case(r)
        judge(sw, "serial", Serial, toks, texts, serial_agree(toks, texts), set(), r)
        n2 = r.choice(corr_fmt.SERIAL_VALUES[:12])
        j = r.randrange(len(toks))
        if not (toks[j] == "%p" and n2 >= 1000):
            p = list(texts)
            p[j] = Serial.formatter(n2)[toks[j]]["value"]()
            if p != texts:
                judge(sw, "serial", Serial, toks, p, serial_agree(toks, p), {"perturbed"}, r, perms=1)
        # the SAME text under two different directives of one field: the texts coincide, the meanings need not
        x = r.choice(["1", "10", "11", "100", "101", "110", "111", "1000", "1001", "10000000", "1111111"])
        # %c / %u group digits in threes: an ungrouped text only fits them up to three digits
        d1, d2 = r.sample(["%n", "%b"] + (["%c", "%u"] if len(x) <= 3 else []) + (["%p"] if len(x) == 3 else []), 2)
        toks2, texts2 = [d1, d2] + ([r.choice(["%n", "%b"])] if r.random() < 0.3 else []), None
        texts2 = [x for _ in toks2]
        judge(sw, "serial", Serial, toks2, texts2, serial_agree(toks2, texts2), {"same-text"}, r, perms=1)
        t3 = corr_fmt.rand_dt(r).replace(microsecond=0)
        tt3 = dt_tuple(t3)
        base3 = ["%Y", "%m", "%d"]
        d2 = r.choice(["%-j", "%j", "%-d", "%-m", "%-j", "%-j"])
        src = r.choice(["%-d", "%-m"])
        xt = spec.strftime_spec(src, tt3)          # an unpadded number, as the unpadded directives print it
        if d2 == "%j":
            xt = xt.rjust(3, "0")
        toks3 = base3 + [d2]
        texts3 = [spec.strftime_spec(d, tt3) for d in base3] + [xt]
        want3 = dt_agree(toks3, texts3)
        wv3 = _dt.datetime(*want3) if isinstance(want3, tuple) else want3
        judge(sw, "datetime", Datetime, toks3, texts3, wv3, dt_kinds(toks3, texts3, want3) | {"same-text"}, r, perms=1)
        # day of year against week of year + weekday (no day of month): two statements of one day, a few days apart
        t4 = corr_fmt.rand_dt(r).replace(microsecond=0)
        try:
            t5 = t4 + _dt.timedelta(days=r.choice([1, 2, 3, 5, 6, 7, -1, -3, 0]))
        except OverflowError:
            t5 = t4
        if t5.year == t4.year and 1000 <= t4.year <= 9999:
            wk, wd = r.choice([("%U", "%w"), ("%W", "%u"), ("%W", "%w"), ("%U", "%u")])
            toks4 = ["%Y", r.choice(["%j", "%-j"]), wk, wd]
            tt4, tt5 = dt_tuple(t4), dt_tuple(t5)
            texts4 = [spec.strftime_spec(toks4[0], tt4), spec.strftime_spec(toks4[1], tt4), spec.strftime_spec(wk, tt5), spec.strftime_spec(wd, tt5)]
            want4 = dt_agree(toks4, texts4)
            wv4 = _dt.datetime(*want4) if isinstance(want4, tuple) else want4
            judge(sw, "datetime", Datetime, toks4, texts4, wv4, dt_kinds(toks4, texts4, want4) | {"doy-vs-week"}, r, perms=2)
        # Storage ----------------------------------------------------------------------------------
        toks, texts, bits = storage_case(r)
        judge(sw, "storage", Storage, toks, texts, decimal.Decimal(bits), set(), r, value_eq=lambda a, b: a == b)
        j = r.randrange(len(toks))
        p = list(texts)
        digits = "".join(ch for ch in p[j] if ch.isdigit())
        p[j] = p[j].replace(digits, str(int(digits) + r.choice([1, 8, 1024])), 1)
        w = storage_agree(toks, p)
        kinds = {"perturbed"} | ({"zero-statement"} if any(x.lstrip("0")[:1] in ("", "B", "K", "M", "G", "T", "P", "E", "Z", "Y") for x in p) else set())
        judge(sw, "storage", Storage, toks, p, decimal.Decimal(w) if w is not None else None, kinds, r, perms=1, value_eq=lambda a, b: a == b)
        # Version ----------------------------------------------------------------------------------
        toks, texts, vt = version_case(r)
        w = version_agree(toks, texts)
        mk = lambda w: VerPackage(epoch=w[0], major=w[1], minor=w[2], patch=w[3]) if w else None  # noqa: E731
        judge(sw, "version", Version, toks, texts, mk(w), set(), r, value_eq=lambda a, b: a == b)
        j = r.randrange(len(toks))
        p = list(texts)
        other = version_case(r)
        if toks[j] in other[0]:
            p[j] = other[1][other[0].index(toks[j])]
        if p != texts:
            w = version_agree(toks, p)
            judge(sw, "version", Version, toks, p, mk(w), {"perturbed"}, r, perms=1, value_eq=lambda a, b: a == b)
        # Naming -----------------------------------------------------------------------------------
        toks, texts, ws = naming_case(r)
        kinds = set()
        judge(sw, "naming", Naming, toks, texts, ws, kinds, r)
        ws2 = corr_fmt.rand_name(r)
        j = r.randrange(len(toks))
        try:
            p = list(texts)
            p[j] = spec.style(toks[j], ws2)
            if p != texts and p[j]:
                w = naming_agree(toks, p, [ws, ws2])
                judge(sw, "naming", Naming, toks, p, w if w is not None else None, {"perturbed"} | (set() if w is not None else {"naming-disagree"}), r, perms=1)
        except Exception:  # noqa: BLE001
            pass
        # a name and the initials of a shorter / longer name: they must agree even in non-strict mode
        ws3 = corr_fmt.rand_name(r)
        if len(ws3) >= 2 and all(w.isalnum() for w in ws3):
            ini = "".join(w[0] for w in ws3)
            full = r.choice(["%s", "%k", "%n"])
            text_full = {"%s": "_".join(ws3), "%k": "-".join(ws3), "%n": " ".join(ws3)}[full]
            for bad in (ini[:-1], ini + ini[0], ini + "x", ini[1:]):
                if not bad or bad == ini:
                    continue
                for ab, tx in (("%a", bad), ("%A", bad.upper())):
                    for strict in (False, True):
                        fmt, text = f"{full}/{ab}", f"{text_full}/{tx}"
                        out = outcome(Naming, text, fmt, strict)
                        sw.note(["c05-initials", text, fmt, strict], "naming-initials")
                        sw.check(out[0] != "ok", "a name is accepted next to the initials of a different name", {"cls": "naming", "fmt": fmt, "text": text, "strict": strict, "clause": "initials", "kind": "naming-disagree"}, "rejected", str(out[1]))
                        sw.check(out[0] != "foreign", "a foreign exception", {"cls": "naming", "fmt": fmt, "text": text, "strict": strict, "clause": "family", "kind": "plain"}, "FormatterError", str(out[1]))
    # the three abbreviations of a name stated together (flat, initials, vowel-less) and no full name: the vowel-less form
    # is the flat form without its vowels, so a vowel-less field with another consonant skeleton contradicts the flat
    # field and is refused - in every field order, in both modes, also when flat and initials agree with each other
    import itertools as _it
    pool = [["data", "pipeline"], ["dota", "pipelane"], ["delta", "park"], ["data", "engineer"], ["daily", "plan"], ["disk", "pool"], ["ab", "cd", "ef"], ["x1", "y2"]] + \
           [n_ for n_ in (corr_fmt.rand_name(r) for _ in range(12)) if len(n_) >= 2 and all(w.isalpha() for w in n_)]
    strip = lambda t: "".join(ch for ch in t if ch not in "aeiou")  # noqa: E731
    rend = {}
    for ws_ in pool:
        try:
            o_ = Naming.from_value(ws_)
            rend[tuple(ws_)] = {d: o_.format(d) for d in ("%f", "%a", "%v")}
        except Exception:  # noqa: BLE001
            continue
    for A, B in _it.permutations(list(rend), 2):
        fa, fb = rend[A], rend[B]
        if fa["%v"] != strip(fa["%f"]) or not fb["%v"] or fb["%v"] == fa["%v"] or not fa["%v"]:
            continue
        parts = {"%f": fa["%f"], "%a": fa["%a"], "%v": fb["%v"]}
        for order in _it.permutations(("%f", "%a", "%v")):
            fmt, text = " ".join(order), " ".join(parts[d] for d in order)
            for strict in (False, True):
                out = outcome(Naming, text, fmt, strict)
                sw.note(["c05-abbrev3", text, fmt, strict], "naming-abbrev3")
                sw.check(out[0] != "ok", "a flat name is accepted next to the vowel-less form of a different name", {"cls": "naming", "fmt": fmt, "text": text, "strict": strict, "clause": "abbreviations", "kind": "naming-disagree"}, "rejected", str(out[1]))
    return sw


def run(tier: str, drv_ok: bool) -> dict:
    res = {"sweep": sweep(tier)}
    if drv_ok:
        r = rng("C05corr")
        n = 80 if tier == "quick" else 900
        cs = Cases("C05")
        for name in ("serial", "datetime", "naming", "version", "storage"):
            sub = getattr(corr_fmt, name + "_cases")(r, n)
            cs.lines += sub.lines; cs.exp += sub.exp; cs.desc += sub.desc; cs.ops.update(sub.ops); cs.kinds.update(sub.kinds)
        res["corr_diffs"] = cs.run()
        res["corr_stats"] = cs.stats()
        res["corr_samples"] = cs.desc[:3]
    return res
