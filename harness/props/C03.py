"""C03 — a formatter group behaves as the product of its members."""
from __future__ import annotations

import itertools

from common import esc, rng
from framework import Cases, Sweep
import corr_fmt
import gen_fmt

from fmtutil import make_const, make_group
from fmtutil.exceptions import FormatterError
from fmtutil.utils import escape_fmt_group

RULE = ("declarations of 1..4 members drawn from Datetime, Serial, Naming, Version, Storage and constant classes; member names from a pool with prefix-related families (date/datetime/date_time, "
        "name/name2/naming, a/ab/a_b, x/x1) - every declaration is also tried in a second declaration order; formats: the members in random order, each with its own directive format (generated "
        "inside the C01 domain for the member's value) or as a default-format placeholder {name}, 0..2 repeated occurrences, separators from a regex-inert set, optionally wrapped in literal "
        "file-name text with regex metacharacters passed through escape_fmt_group; member values of the C01 domains. distinct = distinct (declaration, format, values)")
TRUSTED = ["the members' own parse and format (C01..C09 tie them to their specifications) as the reference for each slice"]
ASSUMPTIONS = ["member formats that fall under a recorded C01/C02/C08 finding are not drawn (kinds filter)", "separators are chosen so that no member's text can contain them"]

SEPS = ["/", "#", "@", " / ", "##", " @ ", "/#/"]
FAMILIES = [["date", "datetime", "date_time", "dt"], ["name", "name2", "naming", "nm"], ["a", "ab", "a_b", "abc"], ["x", "x1", "x_1", "xx"], ["serial", "ser", "s"], ["ver", "version", "v"], ["size", "siz"]]
LITERALS = ["+file(", ").json", "v1.0*", "[raw]", "a|b", "$x^", "100%", "\\dir", "{", "}"]
CONST_MAPS = [{"%d": "dev", "%D": "DEVELOPMENT", "%s": "sit"}, {"%n": "normal", "%-n": "special"}, {"%e": "csv", "%-e": "json", "%E": "parquet"}]


def member_names(r, k):
    fam = r.sample(FAMILIES, min(len(FAMILIES), r.randint(1, 2)))
    pool = [n for f in fam for n in f]
    return r.sample(pool, k) if len(pool) >= k else r.sample([n for f in FAMILIES for n in f], k)


def make_member(r, kind):
    """(class, value, object, draw(): (member format or None, slice text, kinds))"""
    if kind == "const":
        m = dict(r.choice(CONST_MAPS))
        C = make_const(name=r.choice(["EnvConst", "TypeConst", "K"]), formatter=m)
        d0 = r.choice(list(m))
        obj = C.parse(m[d0], d0)

        def draw():
            d = r.choice(list(m))
            return d, m[d], set()
        return C, None, obj, draw
    cls = gen_fmt.CLASSES[kind]
    v = gen_fmt.value_of(kind, r)
    obj = gen_fmt.make_obj(kind, v)

    # a Version with an epoch is only determined by a format with an epoch directive: the default placeholder (base format) is not one
    allow_default = not (kind == "version" and "!" in v)

    def draw():
        if allow_default and r.random() < 0.2:
            return None, obj.format(cls.base_fmt), set()
        for _ in range(20):
            toks, sep, det, kinds = gen_fmt.fmt_for(kind, r, v, **({"complete": True} if kind == "datetime" else {}))
            if kinds or not det:
                continue
            if sep.strip() == "" and kind == "naming":
                continue
            if any(ch in sep for ch in "/#@"):
                continue
            mf = sep.join(toks)
            if "{" in mf or "}" in mf:
                continue
            return mf, obj.format(mf), set()
        if not allow_default:
            raise LookupError("no determining format drawn")
        return None, obj.format(cls.base_fmt), set()
    return cls, v, obj, draw


def same_obj(a, b):
    return type(a) is type(b) and a.string == b.string and a.value == b.value


def sweep(tier: str) -> Sweep:
    r = rng("C03")
    sw = Sweep("C03")
    n = 1200 if tier == "quick" else 8000
    for _ in range(n):
        k = r.randint(1, 4)
        names = member_names(r, k)
        kinds = [r.choice(["serial", "datetime", "naming", "version", "storage", "const"]) for _ in names]
        try:
            members = {nm: make_member(r, kd) for nm, kd in zip(names, kinds)}
        except Exception:  # noqa: BLE001
            continue
        orders = [list(names)]
        if k > 1:
            alt = list(names)
            r.shuffle(alt)
            orders.append(alt)
        # occurrences in the format
        occ = list(names) if r.random() < 0.85 else r.sample(names, max(1, k - 1))
        for _ in range(r.choice([0, 0, 1, 2])):
            occ.append(r.choice(occ))
        r.shuffle(occ)
        sep = r.choice(SEPS)
        pieces, slices, ok = [], [], True
        per_member = {}
        for nm in occ:
            try:
                mf, text, _ = members[nm][3]()
            except Exception:  # noqa: BLE001
                ok = False
                break
            cls = members[nm][0]
            # the member's own reading of its slice is the reference
            try:
                ref = cls.parse(text, mf) if mf is not None else cls.parse(text, cls.base_fmt)
            except Exception:  # noqa: BLE001
                ok = False
                break
            if ref.format(mf if mf is not None else cls.base_fmt) != text:
                ok = False
                break
            pieces.append("{" + nm + (":" + mf if mf is not None else "") + "}")
            slices.append(text)
            per_member.setdefault(nm, []).append((mf, text, ref))
        if not ok or any(sep.strip() and sep.strip() in s for s in slices):
            continue
        pre, post = ("", "")
        if r.random() < 0.35:
            pre, post = r.choice(LITERALS), r.choice(LITERALS)
        raw_fmt = pre + sep.join(pieces) + post
        fmt = escape_fmt_group(raw_fmt) if (pre or post or r.random() < 0.3) else raw_fmt
        text = pre + sep.join(slices) + post
        for order in orders:
            G = make_group({nm: members[nm][0] for nm in order})
            case = {"decl": [f"{nm}:{kd}" for nm, kd in zip(names, kinds) if nm in order], "order": order, "fmt": fmt, "text": text}
            sw.note(["c03", case["decl"], order, fmt, text], f"members-{k}" + ("-repeat" if len(occ) > len(set(occ)) else ""))
            try:
                g = G.parse(text, fmt)
            except Exception as e:  # noqa: BLE001
                sw.check(False, "the group rejects the members' own renderings joined by the literal text", {**case, "clause": "parse"}, "parsed", f"{type(e).__name__}: {e}")
                continue
            for nm in order:
                if nm in per_member:
                    # merged occurrences: every occurrence agrees on the value, the member object reads like each slice alone
                    refs = per_member[nm]
                    if members[nm][1] is None:
                        # a constant's value is the list of the frozen texts that were stated: merged occurrences state their union
                        okm = set(g.groups[nm].value) == {t for _, t, _ in refs}
                    else:
                        okm = all(g.groups[nm].value == ref.value for _, _, ref in refs)
                    sw.check(okm, "a member of the parsed group is not what the member's own formatter reads from its slice", {**case, "clause": "member", "member": nm},
                             [str(ref.value) for _, _, ref in refs], str(g.groups[nm].value))
                else:
                    dflt = members[nm][0]()
                    sw.check(same_obj(g.groups[nm], dflt) or g.groups[nm].string == dflt.string, "a member that the format omits is not the member's default", {**case, "clause": "default", "member": nm}, dflt.string, g.groups[nm].string)
            # format: members' own renderings joined by the literal text
            try:
                out = g.format(raw_fmt)
                want = pre + sep.join(g.groups[nm].format(mf if mf is not None else members[nm][0].base_fmt) for nm, (mf, _, _) in ((nm, per_member[nm][0]) for nm in []) ) if False else None
                exp_slices = []
                idx = {nm: 0 for nm in per_member}
                for nm in occ:
                    mf = per_member[nm][idx[nm]][0]
                    idx[nm] += 1
                    exp_slices.append(g.groups[nm].format(mf if mf is not None else members[nm][0].base_fmt))
                want = pre + sep.join(exp_slices) + post
                sw.check(out == want, "formatting a group is not the members' renderings joined by the literal text", {**case, "clause": "format"}, want, out)
                back = G.parse(out, fmt)
                sw.check(back == g and all(back.groups[nm].value == g.groups[nm].value for nm in order), "parsing what the group printed does not give back an equal group", {**case, "clause": "roundtrip"}, str(g), str(back))
            except Exception as e:  # noqa: BLE001
                sw.check(False, "format / re-parse of a parsed group raises", {**case, "clause": "format"}, None, f"{type(e).__name__}: {e}")
        # repeated occurrences that disagree must be rejected
        cand = [nm for nm in set(occ) if members[nm][1] is not None and kinds[names.index(nm)] in ("serial", "version")]
        if cand:
            nm = r.choice(cand)
            kd = kinds[names.index(nm)]
            cls = members[nm][0]
            mf = "%n" if kd == "serial" else "%m.%n.%c"
            t1, t2 = ("12", "13") if kd == "serial" else ("1.2.3", "1.2.4")
            G = make_group({n_: members[n_][0] for n_ in names})
            f2 = "{" + nm + ":" + mf + "}" + sep + "{" + nm + ":" + mf + "}"
            case = {"decl": [f"{a}:{b}" for a, b in zip(names, kinds)], "fmt": f2, "clause": "repeat-disagree"}
            sw.note(["c03-rep", case["decl"], f2], "repeat-disagree")
            try:
                g = G.parse(t1 + sep + t2, f2)
                sw.check(False, "two occurrences of one member that disagree are accepted", {**case, "text": t1 + sep + t2}, "FormatterError", str(g))
            except FormatterError:
                pass
            except Exception as e:  # noqa: BLE001
                sw.check(False, "disagreeing occurrences raise a foreign exception", {**case, "text": t1 + sep + t2}, "FormatterError", f"{type(e).__name__}: {e}")
            try:
                g = G.parse(t1 + sep + t1, f2)
                sw.check(g.groups[nm].value == cls.parse(t1, mf).value, "two agreeing occurrences are not merged into the member's value", {**case, "clause": "repeat-agree", "text": t1 + sep + t1}, t1, str(g.groups[nm].value))
            except Exception as e:  # noqa: BLE001
                sw.check(False, "two agreeing occurrences of one member are rejected", {**case, "clause": "repeat-agree", "text": t1 + sep + t1}, "parsed", f"{type(e).__name__}: {e}")
    # the same member names declared with different member classes, read with the same format string, in both orders of use:
    # every group class answers with its own members
    for _ in range(30 if tier == "quick" else 300):
        names = member_names(r, r.randint(1, 3))
        k1 = [r.choice(["serial", "naming", "version", "storage"]) for _ in names]
        k2 = [r.choice(["serial", "naming", "version", "storage"]) for _ in names]
        fmt = r.choice(SEPS).join("{" + nm + "}" for nm in names)
        sep = fmt[len(names[0]) + 2: fmt.find("{", 1)] if len(names) > 1 else ""
        results = {}
        for order in ((k1, k2), (k2, k1)):
            for kinds in order:
                try:
                    G = make_group({nm: gen_fmt.CLASSES[kd] for nm, kd in zip(names, kinds)})
                    objs = {nm: gen_fmt.make_obj(kd, gen_fmt.value_of(kd, rng("C03fix" + kd))) for nm, kd in zip(names, kinds)}
                    if any("!" in str(v.string) for v in objs.values()):
                        continue
                    text = sep.join(objs[nm].format(gen_fmt.CLASSES[kd].base_fmt) for nm, kd in zip(names, kinds))
                    got = str(G.parse(text, fmt))
                except Exception as e:  # noqa: BLE001
                    got = "err:" + type(e).__name__
                key = (tuple(kinds),)
                sw.note(["c03-same-names", names, list(kinds), fmt], "same-names")
                if key in results:
                    sw.check(results[key] == got, "a group class answers differently after another group class with the same member names was used",
                             {"clause": "same-names", "decl": [f"{a}:{b}" for a, b in zip(names, kinds)], "fmt": fmt}, results[key], got)
                else:
                    want = ", ".join(objs[nm].string for nm in names) if not got.startswith("err:") or True else None
                    sw.check(got == ", ".join(objs[nm].string for nm in names), "a group does not read back its members' default-format renderings",
                             {"clause": "same-names", "decl": [f"{a}:{b}" for a, b in zip(names, kinds)], "fmt": fmt, "text": text}, ", ".join(objs[nm].string for nm in names), got)
                    results[key] = got
    # ANY member format - redundant or partial directive lists included: the member of the parsed group is exactly what
    # the member's own formatter makes of its own slice (same value, or refused alike), never more strict, never less
    for _ in range(400 if tier == "quick" else 4000):
        kind = r.choice(["datetime", "datetime", "storage", "serial", "version", "naming"])
        cls = corr_fmt.KINDS[kind]
        mfmt = corr_fmt.rand_fmt(r, kind, k=r.randint(2, 4), weird=0.0)
        if "{" in mfmt or "}" in mfmt:
            continue
        try:
            text = gen_fmt.make_obj(kind, corr_fmt.rand_member_value(r, kind)).format(mfmt)
        except Exception:  # noqa: BLE001
            continue
        G = make_group({"m": cls, "other": corr_fmt.KINDS["serial"]})
        def outcome(fn):
            try:
                return ("ok", fn())
            except FormatterError as e:
                return ("err", "FormatterError")
            except Exception as e:  # noqa: BLE001
                return ("foreign", type(e).__name__)
        own = outcome(lambda: cls.parse(text, mfmt).value)
        grp = outcome(lambda: G.parse(text, "{m:" + mfmt + "}").groups["m"].value)
        case = {"clause": "own-slice", "cls": kind, "fmt": mfmt, "text": text}
        sw.note(["own-slice", kind, mfmt, text], "own-slice-" + own[0])
        if own[0] == "foreign" or grp[0] == "foreign":
            continue   # exceptions outside the family are C06's business
        sw.check(own == grp, "the member of the parsed group is not what the member's own formatter reads from its slice", case, str(own), str(grp))
    # occurrences are merged and must agree - also when a directive is repeated inside an occurrence that is itself
    # repeated: whichever single position states another value, the string is refused
    for name, G, d, fmt, text, bad, t1 in corr_fmt.group_inner_repeats():
        case = {"clause": "repeats-inner", "cls": name, "directive": d, "fmt": fmt, "text": text}
        sw.note(["repeats-inner", name, fmt, text], "repeats-inner")
        try:
            got = G.parse(text, fmt).groups["x"].format(d)
        except Exception as e:  # noqa: BLE001
            sw.check(bad is not None, "agreeing occurrences of a member are refused", case, t1, f"{type(e).__name__}: {str(e)[:80]}")
            continue
        sw.check(bad is None and got == t1, "disagreeing occurrences of a member are accepted" if bad is not None else "agreeing occurrences are merged into another value", case, "refused" if bad is not None else t1, got)
    return sw


def run(tier: str, drv_ok: bool) -> dict:
    res = {"sweep": sweep(tier)}
    if drv_ok:
        r = rng("C03corr")
        cs = corr_fmt.group_cases(r, 300 if tier == "quick" else 2500)
        res["corr_diffs"] = cs.run()
        res["corr_stats"] = cs.stats()
        res["corr_samples"] = cs.desc[:3]
    return res
