"""C11 — the Version formatter reads versions as the version parser does."""
from __future__ import annotations

import itertools

from common import rng
from framework import Cases, Sweep
import corr_fmt

from fmtutil import VerPackage, Version
from fmtutil.exceptions import FormatterError

RULE = ("PEP 440 terms with three release numbers below 1000 and explicit segment numbers: epoch in {absent,0,1,2,10,100,2024} x release x pre (8 letters x lead separator x "
        "inner separator x number) x post (3 letters likewise + implicit -N) x dev x local; each printed string is paired with the format string that mirrors "
        "its structure. Exhaustive over the segment spellings for a fixed release (quick: sampled combinations), sampled beyond. distinct = distinct strings")
TRUSTED = ["VersionPackage.parse is the reference reader (C04 ties it to PEP 440)"]
ASSUMPTIONS = ["a separator in front of a segment is written into the mirroring format as a literal"]

PRE = ["a", "b", "c", "rc", "alpha", "beta", "pre", "preview"]
POST = ["post", "rev", "r"]
LEAD = ["", ".", "-", "_"]
INNER = ["", ".", "-", "_"]
NUMS = [0, 1, 2, 10, 99]
LOCALS = [None, "abc", "1", "abc.1", "a-b_c", "ubuntu.20"]
# the label is kept as written and compared part by part (numeric parts as numbers, others as text): leading zeros of
# numeric and of alphanumeric parts, digits inside words, every separator
LOCALS_ALL = ["abc", "1", "abc.1", "a-b_c", "ubuntu.20", "007", "cpu.007", "0a1b2c", "git.00f3", "build_0x", "0", "00", "0.0.13", "local0.0.13", "x0", "0x0", "10.01", "a.0b.0", "1-0a_00"]


def terms(r, tier):
    rel = [(0, 0, 0), (1, 2, 3), (999, 0, 10), (10, 999, 99), (1, 0, 0)]
    pres = [None] + [(l, x, i, n) for l in LEAD for x in PRE for i in INNER for n in NUMS]
    posts = [None] + [(l, x, i, n) for l in LEAD for x in POST for i in INNER for n in NUMS] + [("", "-", "", n) for n in NUMS]
    devs = [None] + [(l, "dev", i, n) for l in LEAD for i in INNER for n in NUMS]
    out = []
    # every single-segment spelling on one release (the complete spelling grammar)
    for p in pres:
        out.append((None, (1, 2, 3), p, None, None, None))
    for p in posts:
        out.append((None, (1, 2, 3), None, p, None, None))
    for p in devs:
        out.append((None, (1, 2, 3), None, None, p, None))
    for loc in LOCALS_ALL:
        out.append((None, (1, 2, 3), None, None, None, loc))
        out.append((1, (0, 10, 0), ("", "rc", "", "1"), None, None, loc))
    n = 2500 if tier == "quick" else 20000
    for _ in range(n):
        out.append((r.choice([None, 0, 1, 2, 10, 100, 2024]), r.choice(rel + [(r.randrange(1000), r.randrange(1000), r.randrange(1000))]), r.choice(pres), r.choice(posts), r.choice(devs), r.choice(LOCALS)))
    return out


def render(term):
    ep, rel, pre, post, dev, loc = term
    s = ""
    f = ""
    if ep is not None:
        s += f"{ep}!"
        f += "%e"
    s += ".".join(map(str, rel))
    f += "%m.%n.%c"
    for seg, d in ((pre, "%q"), (post, "%p"), (dev, "%d")):
        if seg is None:
            continue
        lead, letter, inner, num = seg
        if letter == "-":
            s += f"-{num}"
            f += "%p"
        else:
            s += f"{lead}{letter}{inner}{num}"
            f += f"{lead}{d}"
    if loc is not None:
        s += "+" + loc
        f += "%l"
    return s, f


def sweep(tier: str) -> Sweep:
    r = rng("C11")
    sw = Sweep("C11")
    for term in terms(r, tier):
        s, f = render(term)
        try:
            ref = VerPackage.parse(s)
        except ValueError:
            continue  # not a version string (e.g. an ambiguous spelling): outside the property
        # ambiguity of the grammar itself: `a-1` is pre a1, `.post-1` etc.; keep only terms the reference reads back as intended
        ep, rel, pre, post, dev, loc = term
        if (ref.pre is None) != (pre is None) or (ref.post is None) != (post is None) or (ref.dev is None) != (dev is None):
            continue
        if (pre and ref.v_pre != pre[3]) or (post and ref.v_post != post[3]) or (dev and ref.v_dev != dev[3]):
            continue
        case = {"s": s, "fmt": f}
        sw.note(["c11", s, f], "term")
        for strict in (False, True):
            try:
                o = Version.parse(s, f, strict=strict)
                v = o.value
            except Exception as e:  # noqa: BLE001
                kind = "FormatterError" if isinstance(e, FormatterError) else "foreign"
                sw.check(False, "the Version formatter rejects a spelling its own pattern admits / the version parser accepts", {**case, "strict": strict, "clause": "accepts"}, str(ref), f"{kind} {type(e).__name__}: {e}")
                continue
            same = (v.epoch == ref.epoch and (v.major, v.minor, v.patch) == (ref.major, ref.minor, ref.patch) and v.v_pre == ref.v_pre and v.v_post == ref.v_post
                    and v.v_dev == ref.v_dev and (v.local or None) == (ref.local or None)
                    and (VerPackage._extract_letter(v.pre)[0] if v.pre else None) == (VerPackage._extract_letter(ref.pre)[0] if ref.pre else None))
            sw.check(same and v == ref, "the formatter's value differs from what the version parser yields", {**case, "strict": strict, "clause": "value"}, str(ref.to_tuple()), str(v.to_tuple()))
            try:
                back = VerPackage.parse(o.string)
                sw.check(back == v, "the canonical string of the parsed formatter does not re-parse to the same version", {**case, "strict": strict, "clause": "canonical"}, str(v), str(back))
            except Exception as e:  # noqa: BLE001
                sw.check(False, "the canonical string does not re-parse", {**case, "strict": strict, "clause": "canonical"}, str(v), f"{type(e).__name__}: {e}")
    return sw


def run(tier: str, drv_ok: bool) -> dict:
    res = {"sweep": sweep(tier)}
    if drv_ok:
        r = rng("C11corr")
        cs = corr_fmt.version_cases(r, 300 if tier == "quick" else 2500)
        from common import esc
        for term in r.sample(terms(r, "quick"), 900):
            s, f = render(term)
            for strict in (False, True):
                cs.add("version.parse", [s, corr_fmt.wopt(f), "1" if strict else "0"], corr_fmt.parse_outcome("version", Version, s, f, strict))
        res["corr_diffs"] = cs.run()
        res["corr_stats"] = cs.stats()
        res["corr_samples"] = cs.desc[:3]
    return res
