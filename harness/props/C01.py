"""C01 — what a formatter prints, it reads back (format -> parse round trip)."""
from __future__ import annotations

from common import rng
from framework import Cases, Sweep
import corr_fmt
import gen_fmt

from fmtutil import Serial

RULE = ("(formatter, value, format, strict): values of each formatter's domain with boundary bias; formats of 1..k supported directives in random order joined by a "
        "regex-inert separator, obeying the side conditions of the property (context for weekday/AM-PM/week directives, %p with 12-hour clocks, %y only for "
        "19xx, Storage units only for whole multiples, a Naming format without a full-name style is a single directive); Serial also under padding/binary "
        "width configurations. distinct = distinct (formatter, value, format, strict)")
TRUSTED = ["the generators in harness/gen_fmt.py encode the property's side conditions"]
ASSUMPTIONS = ["separators come from the per-class inert sets of DESIGN §6"]


def judge(sw: Sweep, c: str, cls, v, toks, sep, det, kinds, strict, extra=None):
    fmt = sep.join(toks)
    case = {"cls": c, "value": gen_fmt.value_repr(c, v), "fmt": fmt, "strict": strict, "kind": ",".join(sorted(kinds)) or "plain"}
    if extra:
        case.update(extra)
    sw.note(["rt", c, case["value"], fmt, strict], c)
    try:
        text = (gen_fmt.make_obj(c, v) if cls is gen_fmt.CLASSES[c] else cls.from_value(v)).format(fmt)
    except Exception as e:  # noqa: BLE001
        sw.check(False, "rendering raised", {**case, "clause": "render"}, None, f"{type(e).__name__}: {e}")
        return
    try:
        o = cls.parse(text, fmt, strict=strict)
    except Exception as e:  # noqa: BLE001
        sw.check(False, "parse rejects what format printed", {**case, "clause": "parse", "text": text}, "accepted", f"{type(e).__name__}: {e}")
        return
    try:
        back = o.format(fmt)
        sw.check(back == text, "re-rendering the parsed object does not reproduce the text", {**case, "clause": "rerender", "text": text}, text, back)
        if det:
            sw.check(gen_fmt.values_equal(c, o.value, v), "the parsed value differs from the original value", {**case, "clause": "value", "text": text}, case["value"], str(o.value))
    except Exception as e:  # noqa: BLE001
        sw.check(False, "the parsed object cannot be rendered / evaluated", {**case, "clause": "rerender", "text": text}, None, f"{type(e).__name__}: {e}")


def sweep(tier: str) -> Sweep:
    r = rng("C01")
    sw = Sweep("C01")
    n = 350 if tier == "quick" else 6000
    for c, cls in gen_fmt.CLASSES.items():
        for _ in range(n):
            v = gen_fmt.value_of(c, r)
            toks, sep, det, kinds = gen_fmt.fmt_for(c, r, v)
            for strict in (False, True):
                judge(sw, c, cls, v, toks, sep, det, kinds, strict)
        # every single directive on a few values
        for _ in range(12 if tier == "quick" else 100):
            v = gen_fmt.value_of(c, r)
            for d in cls.formatter(v if c != "version" else v).keys():
                toks, sep, det, kinds = gen_fmt.fmt_for(c, r, v)
    # Serial under padding / binary width configurations
    for (w, b) in [(1, 1), (2, 4), (5, 12), (8, 16)]:
        class S(Serial):
            class Config(Serial.Config):
                serial_max_padding = w
                serial_max_binary = b
        for _ in range(60 if tier == "quick" else 600):
            v = r.choice([0, 1, 9, 10, 10 ** w - 1, r.randrange(10 ** w), r.randrange(10 ** 12)])
            ds = ["%n", "%b", "%c", "%u"] + (["%p"] if v < 10 ** w else [])
            toks = [r.choice(ds) for _ in range(r.randint(1, 3))]
            for strict in (False, True):
                judge(sw, "serial", S, v, toks, r.choice(["-", " ", "/"]), True, set(), strict, {"config": [w, b]})
    return sw


def run(tier: str, drv_ok: bool) -> dict:
    res = {"sweep": sweep(tier)}
    if drv_ok:
        r = rng("C01corr")
        n = 70 if tier == "quick" else 900
        cs = Cases("C01")
        for name in ("serial", "datetime", "naming", "version", "storage"):
            sub = getattr(corr_fmt, name + "_cases")(r, n)
            cs.lines += sub.lines; cs.exp += sub.exp; cs.desc += sub.desc; cs.ops.update(sub.ops); cs.kinds.update(sub.kinds)
        res["corr_diffs"] = cs.run()
        res["corr_stats"] = cs.stats()
        res["corr_samples"] = cs.desc[:3]
    return res
