"""Generators and canonical forms for the version classes (C04, C07, C10, C13, C19)."""
from __future__ import annotations

import itertools
import random

from common import esc

import fmtutil.__version as V

CLS = {"base": V.BaseVersion, "sem": V.VersionSemver, "pkg": V.VersionPackage}


wesc = esc


def wopt(s) -> str:
    return "~" if s is None else "=" + wesc(str(s))


def wire(v) -> str:
    """canonical text of a version object: cls;epoch;major;minor;patch;pre;post;dev;local;build"""
    if type(v) is V.VersionPackage:
        c = "pkg"
    elif type(v) is V.VersionSemver:
        c = "sem"
    else:
        c = "base"
    g = lambda n, d=None: getattr(v, n, d)  # noqa: E731
    return ";".join(
        [c, str(g("epoch", 0)), str(v.major), str(v.minor), str(v.patch), wopt(g("pre")), wopt(g("post")), wopt(g("dev")), wopt(g("local")), wopt(g("build"))]
    )


def warg(a) -> str:
    if a is None:
        return "n"
    if isinstance(a, bool):
        return f"i:{int(a)}"
    if isinstance(a, int):
        return f"i:{a}"
    return "s:" + wesc(str(a))


def wargs(args) -> str:
    return ",".join(warg(a) for a in args)


def wkw(kw: dict) -> str:
    return ",".join(f"{wesc(k)}={warg(v)}" for k, v in kw.items())


def res_obj(fn):
    return lambda: "ok:" + wire(fn())


def res_bool(fn):
    def f():
        r = fn()
        if r is NotImplemented:
            return "NotImplemented"
        return "ok:" + ("True" if r else "False")

    return f


def res_int(fn):
    return lambda: "ok:" + str(fn())


# ------------------------------------------------------------------------------------------------
# grammars

NUMS = [0, 1, 2, 9, 10, 11, 99, 100]
SMALL = [0, 1, 2, 10]


def base_strings(r: random.Random, n: int) -> list[str]:
    out = [f"{a}.{b}.{c}" for a in (0, 1, 10) for b in (0, 2, 9) for c in (0, 1, 99)]
    for _ in range(n):
        out.append(".".join(str(r.choice(NUMS + [r.randrange(0, 10**r.randint(1, 12))])) for _ in range(3)))
    return out


SEM_IDS = ["rc", "rc1", "rc.1", "RC1", "alpha", "alpha.1", "beta.2", "1", "0", "10", "2", "x-y", "a.b.c", "pre.10", "pre.9", "Alpha1", "rc-1", "-1", "0a", "dev",
           "9", "99", "10.1", "2.0", "rc9", "rc.9", "rc99", "a9b", "rc.1.9", "x-9-y", "1a", "pre", "c.2", "preview-2", "20", "1.9",
           "post", "post.1", "post1", "r1", "rev.3", "R1", "Post.2", "-2", "r", "rev"]
SEM_BUILDS = [None, "build.1", "001", "a-b.c", "99"]


def sem_strings(r: random.Random, n: int) -> list[str]:
    out = []
    rels = ["0.0.0", "1.0.0", "1.2.3", "0.0.1", "10.0.0", "1.10.0", "1.9.0", "2.0.0"]
    for rel in rels:
        for pre in [None] + SEM_IDS[:8]:
            for b in SEM_BUILDS[:2]:
                out.append(rel + (f"-{pre}" if pre is not None else "") + (f"+{b}" if b else ""))
    # multi-part tags with upper-case letters are kept as written (no case folding): every spelling of the operand must agree
    for rel in ("1.0.0", "10.11.100"):
        for pre in ("Alpha.Beta", "rc.9.Alpha1", "RC.1.x", "X-Y", "alpha.Beta-2", "A.B.C"):
            out.append(f"{rel}-{pre}")
    for _ in range(n):
        rel = ".".join(str(r.choice(NUMS)) for _ in range(3))
        pre = r.choice([None, None] + SEM_IDS)
        if pre is not None and r.random() < 0.3:
            pre = pre + "." + r.choice(SEM_IDS)
        b = r.choice(SEM_BUILDS)
        out.append(rel + (f"-{pre}" if pre is not None else "") + (f"+{b}" if b else ""))
    return out


PRE_L = ["a", "b", "c", "rc", "alpha", "beta", "pre", "preview"]
POST_L = ["post", "rev", "r"]
SEPS = ["", ".", "-", "_"]
SEGNUM = [None, 0, 1, 2, 10]
LOCALS = [None, "abc", "1", "abc.1", "1.abc", "a-b_c", "10", "2", "ubuntu.1", "0"]


def seg(r: random.Random, letters, implicit=False):
    """one pre/post/dev segment in a random accepted spelling; returns text ('' = absent)"""
    if r.random() < 0.45:
        return ""
    if implicit and r.random() < 0.25:
        return "-" + str(r.choice([0, 1, 2, 10]))
    n = r.choice(SEGNUM)
    return r.choice(SEPS) + r.choice(letters) + (r.choice(SEPS) + str(n) if n is not None else r.choice(["", ""]))


def pkg_string(r: random.Random) -> str:
    epoch = r.choice([None, None, 0, 1, 2])
    nrel = r.choice([1, 2, 3, 3])
    rel = ".".join(str(r.choice(SMALL + [3, 11])) for _ in range(nrel))
    s = (f"{epoch}!" if epoch is not None else "") + rel
    s += seg(r, PRE_L)
    s += seg(r, POST_L, implicit=True)
    s += seg(r, ["dev"])
    loc = r.choice(LOCALS + [None] * 6)
    if loc is not None:
        s += "+" + loc
    return s


def pkg_strings(r: random.Random, n: int) -> list[str]:
    out = [
        "1.0", "1.0.0", "1", "1.0a1", "1.0alpha1", "1.0.a.1", "1.0c1", "1.0rc1", "1.0pre1", "1.0preview1",
        "1.0.post1", "1.0post1", "1.0-1", "1.0rev1", "1.0r1", "1.0.dev1", "1.0dev", "1.0.dev", "1.0a", "1.0.post",
        "1!1.0", "0!1.0", "1.0+abc", "1.0+abc.1", "1.0+1", "1.0a1.post2.dev3+l.1", "1.0.post1.dev2", "1.0.dev0", "1.0a0",
        "v1.0", "2.0", "1.1", "1.0.1", "0", "0.0.0", "10.0", "1.10", "1.9",
    ]
    for _ in range(n):
        out.append(pkg_string(r))
    return out


def exhaustive_pkg_small() -> list[str]:
    """the bounded grammar of C04 for small bounds, complete"""
    out = []
    rels = ["1", "1.0", "1.0.0", "1.1", "0.9", "1.0.1"]
    pres = [""] + [s1 + l + s2 + n for l in ("a", "rc", "alpha", "c") for s1 in ("", ".") for s2, n in (("", ""), ("", "1"), (".", "2"))]
    posts = ["", ".post1", "post", "-1", "-2", "_rev.2", "r1"]
    devs = ["", ".dev1", "dev", "-dev-2"]
    for ep in ("", "1!"):
        for rel in rels:
            for p in pres:
                for po in posts:
                    for d in devs:
                        out.append(ep + rel + p + po + d)
    return out


def mutate(r: random.Random, s: str) -> str:
    """single-character edit or one-character extension (the malformed stream)"""
    alphabet = "0123456789.-_+!abrcvpAZ \n*x"
    k = r.randrange(4)
    if k == 0 or not s:
        i = r.randrange(len(s) + 1)
        return s[:i] + r.choice(alphabet) + s[i:]
    i = r.randrange(len(s))
    if k == 1:
        return s[:i] + s[i + 1 :]
    if k == 2:
        return s[:i] + r.choice(alphabet) + s[i + 1 :]
    return s + r.choice(alphabet)


def parse_ok(cls, s, **kw):
    try:
        return cls.parse(s, **kw)
    except Exception:
        return None


def sem_same_release(rels=("1.0.0", "1.2.3", "0.0.9")) -> dict[str, list[str]]:
    """for a few releases, every tag of the grammar (all pairs/triples inside one release are the
    interesting ones: the release numbers tie, the tags decide)"""
    return {rel: [rel] + [f"{rel}-{t}" for t in SEM_IDS] + [f"{rel}-{t}+b.{i}" for i, t in enumerate(SEM_IDS[:6])] + [rel + "+build.1"] for rel in rels}


PRE_SYN = [["a", "alpha"], ["b", "beta"], ["c", "rc", "pre", "preview"]]
POST_SYN = ["post", "rev", "r"]


def pkg_variant_group(r: random.Random) -> list[str]:
    """several spellings of ONE PEP 440 version (they must all compare equal and hash equal)"""
    epoch = r.choice([None, 0, 1])
    rel = [r.choice([0, 1, 2, 10]) for _ in range(r.choice([1, 2, 3]))]
    pre = r.choice([None, None] + PRE_SYN)
    pre_n = r.choice([None, 0, 1, 2, 10])
    post_n = r.choice([None, None, 0, 1, 10])
    dev_n = r.choice([None, None, 0, 3])
    loc = r.choice([None, None, ["abc", 1], [1], ["a", "b", "c"], [10, "x"], ["ubuntu", 1, 2]])
    out = []
    for _ in range(r.randint(3, 6)):
        rr = list(rel)
        while len(rr) > 1 and rr[-1] == 0 and r.random() < 0.5:
            rr.pop()
        while len(rr) < 3 and r.random() < 0.4:
            rr.append(0)
        ep = epoch
        if epoch == 0 and r.random() < 0.5:
            ep = None
        if epoch is None and r.random() < 0.3:
            ep = 0
        s = (r.choice(["", "", "v"])) + (f"{ep}!" if ep is not None else "") + ".".join(map(str, rr))
        if pre is not None:
            n = pre_n
            if n == 0 and r.random() < 0.5:
                n = None
            if pre_n is None and r.random() < 0.3:
                n = 0
            s += r.choice(SEPS) + r.choice(pre) + (r.choice(SEPS) + str(n) if n is not None else "")
        if post_n is not None:
            if r.random() < 0.3:
                s += "-" + str(post_n)
            else:
                n = post_n
                if n == 0 and r.random() < 0.5:
                    n = None
                s += r.choice(SEPS) + r.choice(POST_SYN) + (r.choice(SEPS) + str(n) if n is not None else "")
        if dev_n is not None:
            n = dev_n
            if n == 0 and r.random() < 0.5:
                n = None
            s += r.choice(SEPS) + "dev" + (r.choice(SEPS) + str(n) if n is not None else "")
        if loc is not None:
            parts = [(("0" * r.choice([0, 0, 1]) + str(x)) if isinstance(x, int) else x) for x in loc]
            s += "+" + parts[0] + "".join(r.choice([".", "-", "_"]) + q for q in parts[1:])
        out.append(s)
    # the grammar is ambiguous in places (`a-1` is pre a1, not pre a + implicit post 1): keep only the
    # spellings the PEP 440 reference reads as the same version as the first one
    ref = _ref()
    keep = []
    first = None
    for s in dict.fromkeys(out):
        try:
            v = ref(s)
        except Exception:  # noqa: BLE001
            continue
        if first is None:
            first = v
        if v == first and str(v.local) == str(first.local):
            keep.append(s)
    return keep


_REF = None


def _ref():
    global _REF
    if _REF is None:
        import os
        import sys
        from common import VERIF
        sys.path.insert(0, os.path.join(VERIF, "vendor"))
        from packaging_version.version import Version
        _REF = Version
    return _REF
